"""C08 — pruning never changes which scenes can be generated.

Proof:  lean/ScenicModel/Props/C08*.lean — soundness of bound extraction from requirement syntax,
        soundness of the relative-heading range and of the cell-pair overlap test, the metric lemmas behind
        erosion by (min inradius − max offset) and the visibility buffer (radius + max offset), the voxel
        pass counts, termination / divergence of the two retry loops, invariance of the conditional
        distribution under restriction to a region containing every accepted sample.
Tie:    (T) tools/translate/pruning.py regenerates Gen/Pruning.lean (dispatch table, coefficient signs,
        relativeHeadingRange tail, guard / overlap operators, PRUNING_PITCH, loop arguments, count
        expressions) from the current source; (C) the Lean driver is run against the real
        RequirementMatcher, relativeHeadingRange / normalizeAngle, _erodeOverapproximate /
        _bufferOverapproximate pass counts and VoxelRegion.dilation on generated inputs.
Oracle: (S) the property itself on the real code: generated Scenic programs are compiled with and
        without pruning; every accepted sample of the unpruned program must lie in the pruned region
        (evaluated under that sample), pruned samples must lie in the original region, compilation must
        not raise for a program that has an accepted sample, must terminate, and must leave everything
        but the position's conditioning untouched.
"""
import ast
import contextlib
import io
import json
import math
import os
import random
import sys
import tempfile
import time
import traceback
import warnings
from fractions import Fraction

from vlib.ctx import Infra, TemplateMismatch

# children are forked after Scenic has been imported: keep numeric libraries single-threaded
for _v in ("OMP_NUM_THREADS", "OPENBLAS_NUM_THREADS", "MKL_NUM_THREADS", "NUMEXPR_NUM_THREADS"):
    os.environ.setdefault(_v, "1")

THEOREMS = [
    # requirement syntax -> bounds
    "Scenic.Pruning.matchBoundsInner_sound",
    "Scenic.Pruning.matchBoundsInner_inconsistent",
    "Scenic.Pruning.bounds_sound",
    "Scenic.Pruning.inconsistency_sound",
    "Scenic.Pruning.nonordering_no_bound",
    "Scenic.C08.bounds_sound",
    "Scenic.C08.inconsistency_sound",
    "Scenic.C08.nonordering_no_bound",
    "Scenic.C08.old_dispatch_unsound",
    # relative headings
    "Scenic.Pruning.normalizeAngle_spec",
    "Scenic.Pruning.rh_range_sound",
    "Scenic.Pruning.rh_range_sound_interior",
    "Scenic.Pruning.cell_pair_kept",
    "Scenic.Pruning.rh_unnormalised_unsound",
    "Scenic.C08.rh_range_sound",
    "Scenic.C08.cell_pair_kept",
    # erosion / dilation
    "Scenic.Pruning.erosion_sound",
    "Scenic.Pruning.visibility_buffer_sound",
    "Scenic.Pruning.erode_passes_sound",
    "Scenic.Pruning.dilate_passes_sound",
    "Scenic.Pruning.erode_count_sound",
    "Scenic.Pruning.dilate_count_sound",
    "Scenic.Pruning.dilate_relative_pitch_underbuffers",
    "Scenic.Pruning.mem_dilate1",
    "Scenic.Pruning.mem_erode1",
    "Scenic.Pruning.buffer_voxels_sound",
    "Scenic.Pruning.erode_voxels_sound",
    "Scenic.C08.erosion_amount_spec",
    "Scenic.C08.visibility_buffer_spec",
    "Scenic.C08.erode_count_sound",
    "Scenic.C08.dilate_count_sound",
    "Scenic.C08.buffer_voxels_sound",
    "Scenic.C08.erode_voxels_sound",
    "Scenic.C08.dilation_unclipped",
    "Scenic.C08.dilation_clipped_underbuffers",
    # retry loops
    "Scenic.Pruning.retry_loop_terminates",
    "Scenic.Pruning.retry_loop_terminates_any",
    "Scenic.Pruning.retry_loop_diverges",
    "Scenic.Pruning.retry_loop_constant_iff",
    "Scenic.Pruning.old_erode_loop_diverges",
    "Scenic.Pruning.retry_trace_doubles",
    "Scenic.Pruning.retryTrace_length",
    "Scenic.C08.buffer_retry_terminates",
    "Scenic.C08.erode_retry_terminates",
    "Scenic.C08.erode_retry_coarsens",
    # conditioning
    "Scenic.Pruning.prune_preserves_cond",
    "Scenic.Pruning.prune_no_new_scenes",
    "Scenic.Pruning.prune_keeps_accepted",
    "Scenic.Pruning.prune_acceptance_improves",
    "Scenic.Pruning.rejection_output_conditional",
    "Scenic.C08.prune_preserves_cond",
    "Scenic.C08.prune_no_new_scenes",
]
SIDE = [
    "Scenic.C08.gen_dispatch_wf",
    "Scenic.C08.gen_rh_sound",
    "Scenic.C08.gen_amounts",
    "Scenic.C08.gen_erode_count",
    "Scenic.C08.gen_dilate_count",
    "Scenic.C08.gen_dilation_pads",
    "Scenic.C08.gen_buffer_loop",
    "Scenic.C08.gen_erode_loop",
]
MODULES = ["ScenicModel.Props.C08", "ScenicModel.Props.C08Bounds", "ScenicModel.Props.C08Heading",
           "ScenicModel.Props.C08Geom", "ScenicModel.Props.C08Morph", "ScenicModel.Props.C08Loops",
           "ScenicModel.Props.C08Cond"]

P_ = "src/scenic/core/pruning.py"
R_ = "src/scenic/syntax/relations.py"
G_ = "src/scenic/core/regions.py"
FINGERPRINTS = {
    "prune": (P_, "prune"),
    "pruneContainment": (P_, "pruneContainment"),
    "pruneRelativeHeading": (P_, "pruneRelativeHeading"),
    "pruneVisibility": (P_, "pruneVisibility"),
    "matchInRegion": (P_, "matchInRegion"),
    "matchPolygonalField": (P_, "matchPolygonalField"),
    "maxDistanceBetween": (P_, "maxDistanceBetween"),
    "visibilityBound": (P_, "visibilityBound"),
    "feasibleRHPolygon": (P_, "feasibleRHPolygon"),
    "relativeHeadingRange": (P_, "relativeHeadingRange"),
    "percentagePruned": (P_, "percentagePruned"),
    "checkConditionedCycle": (P_, "checkConditionedCycle"),
    "conditionedDeps": (P_, "conditionedDeps"),
    "currentPropValue": (P_, "currentPropValue"),
    "inferRelationsFrom": (R_, "inferRelationsFrom"),
    "inferRelativeHeadingRelations": (R_, "inferRelativeHeadingRelations"),
    "inferDistanceRelations": (R_, "inferDistanceRelations"),
    "RequirementMatcher": (R_, "RequirementMatcher"),
    "_erodeOverapproximate": (G_, "MeshVolumeRegion._erodeOverapproximate"),
    "_bufferOverapproximate": (G_, "MeshVolumeRegion._bufferOverapproximate"),
    "voxelized": (G_, "MeshVolumeRegion.voxelized"),
    "VoxelRegion.dilation": (G_, "VoxelRegion.dilation"),
    "VoxelRegion.mesh": (G_, "VoxelRegion.mesh"),
    "PolygonalFootprintRegion.buffer": (G_, "PolygonalFootprintRegion.buffer"),
    "PolygonalRegion.buffer": (G_, "PolygonalRegion.buffer"),
    "normalizeAngle": ("src/scenic/core/geometry.py", "normalizeAngle"),
    "conditionTo": ("src/scenic/core/distributions.py", "Samplable.conditionTo"),
    "Samplable.sample": ("src/scenic/core/distributions.py", "Samplable.sample"),
    "containerOfObject": ("src/scenic/core/scenarios.py", "Scenario.containerOfObject"),
}

fr = lambda x: "{}/{}".format(*Fraction(x).as_integer_ratio())
PI = Fraction(math.pi)


def quiet():
    return contextlib.redirect_stdout(io.StringIO())


# =========================================================================== (C)+(S) requirement syntax
OPSYM = {"lt": "<", "ltE": "<=", "gt": ">", "gtE": ">=", "eq": "==", "notEq": "!=", "is": "is", "isNot": "is not",
         "in_": "in", "notIn": "not in"}
CONSTS = [0, 1, -1, 2, 5, -3, 0.5, -0.5, 2.25, 3.5, -2.75, 10, 0.125, 7]


class _Target:
    def __init__(self, i, const=None):
        self.i = i
        self.const = const


def gen_operand(rng, targets):
    """-> (python source, lean token, kind)"""
    k = rng.random()
    c = rng.choice(CONSTS)

    def leaf_const(c):
        return (repr(c) if c >= 0 else f"({c!r})"), f"{fr(c)}|-|0"

    def leaf_atom():
        t = rng.choice(targets)
        return f"Q(t{t.i})", f"{fr(t.const) if t.const is not None else '-'}|{t.i}|0", t

    def leaf_opaque():
        j = rng.randrange(2)
        return f"R{j}", f"-|-|{10 + j}"
    if k < 0.30:
        s, l = leaf_const(c)
        if rng.random() < 0.15:  # a constant expression rather than a literal
            c2 = rng.choice([1, 2, 0.5])
            s, l = f"({c!r} + {c2!r})", f"{fr(Fraction(c) + Fraction(c2))}|-|0"
        return s, "L|" + l
    if k < 0.55:
        s, l, _ = leaf_atom()
        return s, "L|" + l
    if k < 0.62:
        s, l = leaf_opaque()
        return s, "L|" + l
    if k < 0.75:
        if rng.random() < 0.85:
            s, l, _ = leaf_atom()
        else:
            s, l = leaf_opaque()
        return f"abs({s})", "A|" + l
    # abs(X +/- Y)
    op = rng.choice(["+", "-"])
    kinds = rng.choice([("a", "c"), ("c", "a"), ("a", "a"), ("a", "o"), ("c", "c"), ("o", "c")])
    parts = []
    for kd in kinds:
        if kd == "a":
            s, l, _ = leaf_atom()
        elif kd == "c":
            s, l = leaf_const(rng.choice(CONSTS))
        else:
            s, l = leaf_opaque()
        parts.append((s, l))
    return f"abs({parts[0][0]} {op} {parts[1][0]})", f"B{op}|{parts[0][1]}|{parts[1][1]}"


def corr_bounds(ctx):
    """(C) real RequirementMatcher vs the Lean model on generated comparison chains;
    (S) on the real matcher alone: under random valuations satisfying the chain every extracted bound holds,
    and an InconsistentScenarioError is only raised for chains that no valuation satisfies."""
    import scenic  # noqa
    from scenic.core.distributions import Range
    from scenic.core.errors import InconsistentScenarioError
    from scenic.syntax.relations import RequirementMatcher
    rng = ctx.rng
    found = False
    n = ctx.budget(1000, 20000)
    lines, py, cases = [], [], []
    ops = list(OPSYM)
    weights = [4, 4, 4, 4, 3, 2, 1, 1, 1, 1]
    for _ in range(n):
        targets = [_Target(0), _Target(1), _Target(2, const=rng.choice([1.5, -2, 4]))]
        nlinks = rng.choice([1, 1, 1, 2, 2, 3])
        operands = [gen_operand(rng, targets) for _ in range(nlinks + 1)]
        chain_ops = rng.choices(ops, weights, k=nlinks)
        src = operands[0][0]
        toks = [operands[0][1]]
        for o, (s, l) in zip(chain_ops, operands[1:]):
            src += f" {OPSYM[o]} {s}"
            toks += [o, l]
        cases.append((src, targets))
        lines.append("C08 bounds " + " ".join(toks))

    def run_matcher(src, targets, qvals=None):
        """qvals None: random quantities (compile-time view); else concrete numbers (evaluation)"""
        tobjs = {f"t{t.i}": t for t in targets}

        def Q(t):
            return t.const if t.const is not None else Range(0, 1)
        ns = dict(tobjs, Q=Q, R0=Range(0, 1), R1=Range(0, 1), abs=abs)
        m = RequirementMatcher(ns)
        with warnings.catch_warnings():
            warnings.simplefilter("ignore")
            node = ast.parse(src, mode="eval").body
        try:
            res = m.matchBounds(node, lambda nd: m.matchUnaryFunction("Q", nd))
        except InconsistentScenarioError:
            return "err", None
        except Exception as e:
            return "crash:" + type(e).__name__, None
        if not res:
            return "ok -", []
        out = []
        for tgt, (lo, hi) in res:
            out.append((tgt.i, lo, hi))
        s = ";".join(f"{i}:{'-inf' if lo == -math.inf else fr(lo)}:{'inf' if hi == math.inf else fr(hi)}"
                     for i, lo, hi in out)
        return "ok " + s, out

    vals = [-4, -3, -2.75, -2, -1, -0.5, 0, 0.125, 0.5, 1, 1.5, 2, 2.25, 3, 3.5, 4, 5, 6, 7, 10, 12]
    results = []
    for src, targets in cases:
        r, bounds = run_matcher(src, targets)
        py.append(r)
        results.append(bounds)
        ctx.hist("bounds_outcome", r.split(" ")[0] if not r.startswith("ok ") else ("ok-empty" if r == "ok -" else "ok-bounds"))
    # (S) valuations
    sat_seen = 0
    for (src, targets), r, bounds in zip(cases, py, results):
        if r.startswith("crash"):
            if ctx.violation("matcher-crash:" + r[6:], f"RequirementMatcher raised {r[6:]} on `{src}`",
                             {"kind": "bounds", "src": src, "consts": {str(t.i): t.const for t in targets}}):
                found = True
            continue
        if r == "ok -":
            continue
        with warnings.catch_warnings():
            warnings.simplefilter("ignore")
            code = compile(ast.parse(src, mode="eval"), "<req>", "eval")
        satisfiable = False
        for _ in range(ctx.budget(12, 40)):
            q = {t.i: (t.const if t.const is not None else rng.choice(vals)) for t in targets}
            env = {f"t{t.i}": t for t in targets}
            r0, r1 = rng.choice(vals), rng.choice(vals)
            env.update(Q=lambda t, q=q: q[t.i], R0=r0, R1=r1, abs=abs)
            try:
                truth = bool(eval(code, env))
            except Exception:
                continue
            ctx.evaluations += 1
            if not truth:
                continue
            satisfiable = True
            if r == "err":
                if ctx.violation("inconsistent-but-satisfiable",
                                 f"`{src}` raises InconsistentScenarioError but holds for Q={q}",
                                 {"kind": "bounds", "src": src, "q": {str(k): v for k, v in q.items()}, "R0": r0, "R1": r1,
                                  "consts": {str(t.i): t.const for t in targets}}):
                    found = True
                break
            for i, lo, hi in bounds:
                if not (lo <= q[i] <= hi):
                    opsused = sorted({o for o in OPSYM if f" {OPSYM[o]} " in f" {src} "})
                    if ctx.violation("bound-unsound:" + "+".join(opsused)[:40],
                                     f"`{src}` holds for Q(t{i})={q[i]} but the matcher extracted [{lo}, {hi}]",
                                     {"kind": "bounds", "src": src, "q": {str(k): v for k, v in q.items()}, "R0": r0, "R1": r1,
                                      "consts": {str(t.i): t.const for t in targets}}):
                        found = True
                    break
        sat_seen += satisfiable
    ctx.hist("bounds_chain", "had-satisfying-valuation", sat_seen)
    if ctx.proof is not None and ctx.proof.build_ok:
        lean = ctx.driver(lines)
        bad = 0
        for ln, a, b, (src, _) in zip(lines, lean, py, cases):
            ctx.case(ln, nontrivial=b != "ok -")
            if a != b:
                bad += 1
                if bad <= 5:
                    ctx.broken("correspondence", "bounds model vs RequirementMatcher", f"`{src}` [{ln}]: lean={a} python={b}")
    return found


def bounds_verdict(rep):
    """Re-evaluate one recorded requirement on the real matcher: (bad, text)."""
    from scenic.core.distributions import Range
    from scenic.core.errors import InconsistentScenarioError
    from scenic.syntax.relations import RequirementMatcher
    consts = {int(k): v for k, v in rep["consts"].items()}
    ts = {f"t{i}": _Target(i, c) for i, c in consts.items()}
    ns = dict(ts, Q=lambda t: t.const if t.const is not None else Range(0, 1), R0=Range(0, 1), R1=Range(0, 1), abs=abs)
    m = RequirementMatcher(ns)
    node = ast.parse(rep["src"], mode="eval").body
    try:
        out = [(t.i, b) for t, b in m.matchBounds(node, lambda nd: m.matchUnaryFunction("Q", nd))]
    except InconsistentScenarioError:
        out = "InconsistentScenarioError"
    except Exception as e:
        return True, f"`{rep['src']}`: RequirementMatcher raised {type(e).__name__}: {e}"
    q = {int(k): v for k, v in (rep.get("q") or {}).items()}
    text = f"requirement `{rep['src']}` extracted {out}; valuation Q={q}"
    if not q:
        return False, text
    env = dict(ts, Q=lambda t: q[t.i], R0=rep.get("R0", 0), R1=rep.get("R1", 0), abs=abs)
    truth = bool(eval(compile(ast.parse(rep["src"], mode="eval"), "<req>", "eval"), env))
    if not truth:
        return False, text + " does not satisfy the requirement"
    if out == "InconsistentScenarioError":
        return True, text + " satisfies the requirement, yet the matcher reports it inconsistent"
    for i, (lo, hi) in out:
        if not (lo <= q[i] <= hi):
            return True, text + f" satisfies the requirement but Q(t{i}) is outside the extracted bounds"
    return False, text + " satisfies the requirement and the bounds"


# =========================================================================== (C)+(S) relative headings
def corr_heading(ctx):
    import scenic  # noqa
    from scenic.core import pruning
    from scenic.core.geometry import normalizeAngle
    rng = ctx.rng
    found = False
    n = ctx.budget(800, 15000)
    tol = 1e-9
    angles = [0, math.pi, -math.pi, math.pi / 2, -math.pi / 2, 3.0, -3.0, 3.1, -3.1, 1.0, -1.0, 0.1, 2 * math.pi,
              -2 * math.pi, 4.0, -4.0, 6.0, 3 * math.pi / 4, math.radians(90), math.radians(170), math.radians(-170)]
    widths = [0, 0, 0, 0.1, 0.1, 0.35, 0.5, 1.0, math.pi / 2, math.pi, 3.0, 5.0, 6.0, 2 * math.pi - 0.01, 2 * math.pi, 7.0]
    lines, meta = [], []
    # normalizeAngle
    for _ in range(ctx.budget(200, 2000)):
        x = rng.choice(angles) + rng.choice([0, 0, rng.uniform(-1, 1), 2 * math.pi * rng.randrange(-3, 4)])
        lines.append(f"C08 norm {fr(PI)} {fr(x)}")
        meta.append(("norm", x, normalizeAngle(x)))
    for _ in range(n):
        def heading():
            if rng.random() < 0.06:
                return None
            return rng.choice(angles) + rng.choice([0, 0, rng.uniform(-0.3, 0.3)])

        def offsets():
            w = rng.choice(widths)
            lo = rng.choice([0, -w / 2, -w, rng.uniform(-1, 1)])
            return lo, lo + w
        bh, th = heading(), heading()
        oL, oR = offsets()
        tL, tR = offsets()
        args = (bh, oL, oR, th, tL, tR)
        try:
            lo, hi = pruning.relativeHeadingRange(*args)
        except Exception as e:
            if ctx.violation("rh-range-crash:" + type(e).__name__, f"relativeHeadingRange{args} raised {e!r}",
                             {"kind": "rh", "args": list(args)}):
                found = True
            continue
        lines.append("C08 rh {} {} {} {} {} {} {}".format(
            fr(PI), "none" if bh is None else fr(bh), fr(oL), fr(oR), "none" if th is None else fr(th), fr(tL), fr(tR)))
        meta.append(("rh", args, (lo, hi)))
        ctx.hist("rh_case", ("none-heading" if bh is None or th is None else
                             "full" if (lo, hi) == (-math.pi, math.pi) else "narrow"))
        # (S) the true normalised relative heading lies in the range (narrow disturbance intervals only: the
        # caller never asks for wider ones, feasibleRHPolygon returns None first)
        if bh is not None and th is not None and oR - oL < 2 * math.pi - 1e-6 and tR - tL < 2 * math.pi - 1e-6:
            for _ in range(ctx.budget(6, 12)):
                d = rng.choice([oL, oR, rng.uniform(oL, oR)])
                e = rng.choice([tL, tR, rng.uniform(tL, tR)])
                rh = normalizeAngle(normalizeAngle(th + e) - normalizeAngle(bh + d))
                ctx.evaluations += 1
                if abs(abs(rh) - math.pi) < 1e-6:
                    ctx.hist("rh_truth", "boundary-skipped")
                    continue
                if not (lo - tol <= rh <= hi + tol):
                    if ctx.violation("rh-range-unsound",
                                     f"relativeHeadingRange{args} = ({lo}, {hi}) excludes the true relative heading {rh} "
                                     f"(disturbances {d}, {e})", {"kind": "rh", "args": list(args), "d": d, "e": e}):
                        found = True
                    break
                ctx.hist("rh_truth", "inside")
            # the overlap test of feasibleRHPolygon, on the real function with one cell each
            lb = rng.choice([-math.pi, -1.0, 0.0, 0.5, math.radians(60), 2.0])
            ub = lb + rng.choice([0.0, 0.3, 1.0, 2.0, 4.0])
            if rng.random() < 0.5:  # bounds around an actual relative heading, so that the pair is often feasible
                c = normalizeAngle(normalizeAngle(th + rng.uniform(tL, tR)) - normalizeAngle(bh + rng.uniform(oL, oR)))
                lb, ub = c - rng.choice([0.0, 0.05, 0.5]), c + rng.choice([0.0, 0.05, 0.5])
            lines.append("C08 kept {} {} {} {} {} {} {} {} {}".format(
                fr(PI), fr(bh), fr(oL), fr(oR), fr(th), fr(tL), fr(tR), fr(lb), fr(ub)))
            kept = feasible_single_cell(pruning, args, lb, ub)
            meta.append(("kept", args + (lb, ub), kept))
            ctx.hist("rh_kept", kept)
            if kept == "0":
                for _ in range(ctx.budget(10, 20)):
                    d = rng.choice([oL, oR, rng.uniform(oL, oR)])
                    e = rng.choice([tL, tR, rng.uniform(tL, tR)])
                    rh = normalizeAngle(normalizeAngle(th + e) - normalizeAngle(bh + d))
                    ctx.evaluations += 1
                    if abs(abs(rh) - math.pi) > 1e-6 and lb + 1e-9 <= rh <= ub - 1e-9:
                        if ctx.violation("rh-feasible-cell-dropped",
                                         f"feasibleRHPolygon drops a cell pair (headings {bh}, {th}, disturbances in [{oL},{oR}] / [{tL},{tR}]) "
                                         f"although disturbances {d}, {e} give the relative heading {rh} inside the required [{lb}, {ub}]",
                                         {"kind": "rhkept", "args": list(args), "lb": lb, "ub": ub, "d": d, "e": e}):
                            found = True
                        break
    if ctx.proof is not None and ctx.proof.build_ok:
        lean = ctx.driver(lines)
        bad = 0
        retry = []
        for ln, a, m in zip(lines, lean, meta):
            ctx.case(ln)
            ok = True
            if m[0] == "norm":
                ok = abs(float(Fraction(a)) - m[2]) < 1e-9 or abs(abs(m[2]) - math.pi) < 1e-9 and abs(abs(float(Fraction(a))) - math.pi) < 1e-9
            elif m[0] == "rh":
                lo, hi = (float(Fraction(x)) for x in a.split())
                ok = abs(lo - m[2][0]) < 1e-9 and abs(hi - m[2][1]) < 1e-9
            else:
                ok = a == m[2]
            if not ok:
                retry.append((ln, a, m))
        # a disagreement may be a branch flipped by floating-point rounding: re-ask the model on inputs moved by
        # +-1e-12; only a disagreement that survives every perturbation counts
        for ln, a, m in retry:
            if perturbed_agrees(ctx, ln, m):
                ctx.hist("rh_corr", "rounding-boundary(undecided)")
                continue
            bad += 1
            if bad <= 5:
                ctx.broken("correspondence", "heading model vs pruning.relativeHeadingRange/feasibleRHPolygon",
                           f"{ln}: lean={a} python={m[2]}")
    return found


def feasible_single_cell(pruning, args, lb, ub):
    """Run the real feasibleRHPolygon with one cell per field: 'guard' / '1' (cell kept) / '0' (dropped)."""
    import shapely.geometry

    class F:
        pass
    bh, oL, oR, th, tL, tR = args
    sq = shapely.geometry.Polygon([(0, 0), (1, 0), (1, 1), (0, 1)])
    f, t = F(), F()
    f.cells = [(sq, bh)]
    t.cells = [(sq, th)]
    r = pruning.feasibleRHPolygon(f, oL, oR, t, tL, tR, lb, ub, 1.0)
    if r is None:
        # None is either the early guard or an empty union
        return "guard" if (oR - oL >= math.tau or tR - tL >= math.tau or ub - lb >= math.tau) else "0"
    return "0" if r.is_empty else "1"


def true_rh(args, d, e):
    from scenic.core.geometry import normalizeAngle
    bh, oL, oR, th, tL, tR = args
    return normalizeAngle(normalizeAngle(th + e) - normalizeAngle(bh + d))


def rh_verdict(rep):
    from scenic.core import pruning
    args = tuple(rep["args"])
    lo, hi = pruning.relativeHeadingRange(*args)
    rh = true_rh(args, rep["d"], rep["e"])
    text = (f"relativeHeadingRange{args} = ({lo}, {hi}); disturbances {rep['d']}, {rep['e']} give the true normalised "
            f"relative heading {rh}")
    bad = abs(abs(rh) - math.pi) >= 1e-6 and not (lo - 1e-9 <= rh <= hi + 1e-9)
    return bad, text + (" outside the range" if bad else "")


def rhkept_verdict(rep):
    from scenic.core import pruning
    args = tuple(rep["args"])
    kept = feasible_single_cell(pruning, args, rep["lb"], rep["ub"])
    rh = true_rh(args, rep["d"], rep["e"])
    text = (f"feasibleRHPolygon single cell pair -> {kept}; range {pruning.relativeHeadingRange(*args)}, required "
            f"[{rep['lb']}, {rep['ub']}], disturbances {rep['d']}, {rep['e']} give the relative heading {rh}")
    bad = kept == "0" and abs(abs(rh) - math.pi) > 1e-6 and rep["lb"] + 1e-9 <= rh <= rep["ub"] - 1e-9
    return bad, text + (" (a feasible pair of cells is dropped)" if bad else "")


def perturbed_agrees(ctx, ln, m):
    toks = ln.split()
    idx = [i for i in range(3, len(toks)) if toks[i] != "none"]
    variants = []
    for i in idx:
        for eps in (Fraction(1, 10 ** 12), -Fraction(1, 10 ** 12), Fraction(1, 10 ** 10), -Fraction(1, 10 ** 10)):
            t2 = list(toks)
            t2[i] = fr(Fraction(toks[i]) + eps)
            variants.append(" ".join(t2))
    outs = ctx.driver(variants)
    for o in outs:
        if m[0] == "norm":
            if abs(float(Fraction(o)) - m[2]) < 1e-8:
                return True
        elif m[0] == "rh":
            lo, hi = (float(Fraction(x)) for x in o.split())
            if abs(lo - m[2][0]) < 1e-8 and abs(hi - m[2][1]) < 1e-8:
                return True
        elif o == m[2]:
            return True
    return False


# =========================================================================== (C)+(S) voxel counts, morphology, loops
def cheb_dilate(cells, k):
    """closed form of k passes of the 3x3x3 element on an unbounded grid: all cells within Chebyshev distance k"""
    out = set()
    rng_ = range(-k, k + 1)
    for (a, b, c) in cells:
        for i in rng_:
            for j in rng_:
                for l in rng_:
                    out.add((a + i, b + j, c + l))
    return out


def cheb_erode(cells, k):
    """closed form of k erosion passes (outside the set is empty): cells whose whole Chebyshev-k block is set"""
    cs = set(cells)
    rng_ = range(-k, k + 1)
    return {(a, b, c) for (a, b, c) in cs
            if all((a + i, b + j, c + l) in cs for i in rng_ for j in rng_ for l in rng_)}


def real_morph(shape, cells, k):
    """VoxelRegion.dilation(k) of the given cells of a dense grid -> sorted list of integer cells"""
    import numpy
    import trimesh
    from scenic.core.regions import EmptyRegion, VoxelRegion
    dense = numpy.zeros(shape, dtype=bool)
    for c in cells:
        dense[tuple(c)] = True
    vr = VoxelRegion(voxelGrid=trimesh.voxel.VoxelGrid(trimesh.voxel.encoding.DenseEncoding(dense)))
    out = vr.dilation(k)
    if isinstance(out, EmptyRegion):
        return []
    return sorted(tuple(int(round(c)) for c in p) for p in out.voxelGrid.points.tolist())


def morph_verdict(rep):
    """(S) on the real function alone: dilation(k>0) must contain every cell within Chebyshev distance k of the set
    (each pass dilates by at least one voxel), dilation(-k) must keep every cell whose Chebyshev-k block is set
    (k passes never erode by more than k voxels).  -> (bad, text, got)"""
    shape, cells, k = tuple(rep["shape"]), [tuple(c) for c in rep["cells"]], rep["k"]
    got = real_morph(shape, cells, k)
    ref = cheb_dilate(cells, k) if k > 0 else cheb_erode(cells, -k)
    missing = sorted(ref - set(got))
    text = (f"VoxelRegion.dilation({k}) of {len(cells)} voxels in a {shape} grid returns {len(got)} voxels; "
            f"{abs(k)} passes of the 3x3x3 element on an unbounded grid give {len(ref)}")
    if missing:
        return True, text + f"; missing e.g. {missing[:4]}", got
    return False, text, got


def passes_verdict(rep):
    """(S) pass counts of the real _erodeOverapproximate / _bufferOverapproximate for one mesh and amount:
    never erode by more than the amount (k*sqrt(3)*edge <= amount), dilate by at least the amount (k*edge >= amount)."""
    from scenic.core import regions
    from scenic.core.regions import VoxelRegion
    reg = getattr(regions, rep["shape"])(dimensions=tuple(rep["dims"]))
    captured = []
    real = VoxelRegion.dilation

    def spy(self, iterations, structure=None):
        captured.append(iterations)
        return self
    VoxelRegion.dilation = spy
    try:
        with quiet():
            getattr(reg, "_erodeOverapproximate" if rep["kind"] == "erodeit" else "_bufferOverapproximate")(
                rep["amount"], rep["pitch"])
    finally:
        VoxelRegion.dilation = real
    tp = rep["pitch"] * float(max(reg.mesh.extents))
    it = captured[0] if captured else None
    text = (f"{rep['shape']}{tuple(rep['dims'])}.{'_erodeOverapproximate' if rep['kind'] == 'erodeit' else '_bufferOverapproximate'}"
            f"({rep['amount']}, {rep['pitch']}): voxel edge {tp:.6g}, dilation(iterations={it})")
    if it is None:
        return False, text, it, tp
    if rep["kind"] == "erodeit":
        bad = it < 0 and (-it) * math.sqrt(3) * tp > rep["amount"] * (1 + 1e-9)
        return bad, text + (" erodes by up to %.6g > maxErosion" % ((-it) * math.sqrt(3) * tp) if bad else ""), it, tp
    bad = it * tp < rep["amount"] * (1 - 1e-9)
    return bad, text + (" dilates by only %.6g < minBuffer" % (it * tp) if bad else ""), it, tp


def bufferover_verdict(rep):
    """(S) points 0.97*amount outside the surface (along the axes through the centre) must be inside the buffer"""
    from scenic.core import regions
    from scenic.core.vectors import Vector
    dims = tuple(rep["dims"])
    reg = getattr(regions, rep["shape"])(dimensions=dims)
    with quiet():
        buf = reg._bufferOverapproximate(rep["amount"], rep["pitch"])
    missing = []
    for ax in range(3):
        for sg in (-1, 1):
            pt = [0.0, 0.0, 0.0]
            pt[ax] = sg * (dims[ax] / 2 + 0.97 * rep["amount"])
            if not buf.containsPoint(Vector(*pt)):
                missing.append(pt)
    text = f"{rep['shape']}{dims}._bufferOverapproximate({rep['amount']}, {rep['pitch']})"
    if missing:
        return True, text + f" does not contain {missing[0]}, which is within {rep['amount']} of the mesh"
    return False, text + " contains the six probes"


def corr_voxels(ctx, gen):
    """VoxelRegion.dilation vs the model's k-pass 3x3x3 morphology; pass counts of _erodeOverapproximate /
    _bufferOverapproximate vs the model; the over-approximation claims on the real code."""
    import scenic  # noqa
    from scenic.core.regions import BoxRegion, SpheroidRegion, VoxelRegion
    rng = ctx.rng
    found = False
    build_ok = ctx.proof is not None and ctx.proof.build_ok
    # ---- morphology on small grids
    lines, expect = [], []
    for _ in range(ctx.budget(40, 400)):
        shape = (rng.randint(1, 4), rng.randint(1, 4), rng.randint(1, 4))
        cells0 = set()
        for _ in range(rng.randint(1, 6)):
            cells0.add((rng.randrange(shape[0]), rng.randrange(shape[1]), rng.randrange(shape[2])))
        if rng.random() < 0.3:
            cells0 = {(a, b, c) for a in range(shape[0]) for b in range(shape[1]) for c in range(shape[2])}
        cells0 = sorted(cells0)
        k = rng.choice([1, 1, 2, 3, -1, -1, -2])
        rep = {"kind": "morph", "shape": shape, "cells": cells0, "k": k}
        try:
            bad, text, got = morph_verdict(rep)
        except Exception as e:
            if ctx.violation("voxel-dilation-crash:" + type(e).__name__, f"VoxelRegion.dilation({k}) raised {e!r}", rep):
                found = True
            continue
        ctx.evaluations += 1
        kind = "dilate" if k > 0 else "erode"
        if bad:
            if ctx.violation("voxel-dilation-too-small" if k > 0 else "voxel-erosion-too-large", text, rep):
                found = True
        lines.append(f"C08 morph {kind} {abs(k)} {shape[0]} {shape[1]} {shape[2]} " + " ".join(",".join(map(str, c)) for c in cells0))
        expect.append(got)
        ctx.hist("morph", kind)
    if build_ok and lines:
        lean = ctx.driver(lines)
        bad = 0
        for ln, a, got in zip(lines, lean, expect):
            ctx.case(ln)
            model = sorted(tuple(map(int, c.split(","))) for c in a.split()) if a != "-" else []
            if model != got:
                bad += 1
                if bad <= 5:
                    ctx.broken("correspondence", "voxel morphology model vs VoxelRegion.dilation",
                               f"{ln}: lean={a[:200]} python={got[:30]}")
    # ---- pass counts (intercept the argument handed to VoxelRegion.dilation)
    lines, meta = [], []
    meshes = []
    for _ in range(ctx.budget(25, 200)):
        dims = tuple(rng.choice([0.2, 0.4, 0.9, 1, 2, 3, 6, 10, 25]) * rng.choice([1, 1, 0.5]) for _ in range(3))
        meshes.append((dims, "BoxRegion" if rng.random() < 0.5 else "SpheroidRegion"))
    for dims, shp in meshes:
        ext = float(max(dims))
        for _ in range(6):
            pitch = rng.choice([0.15, 0.3, 0.6, 0.15])
            tp = pitch * ext
            amount = rng.choice([0.05, 0.3, 0.5, 0.866, 1.0, 2.0, 3.0, 7.5]) * rng.choice([1, ext / 2, 1])
            for kind in ("erodeit", "dilateit"):
                rep = {"kind": kind, "shape": shp, "dims": dims, "amount": amount, "pitch": pitch}
                bad, text, it, tp_real = passes_verdict(rep)
                ctx.evaluations += 1
                if it is None:
                    continue
                if bad:
                    if ctx.violation("erode-passes-too-many" if kind == "erodeit" else "dilate-passes-too-few", text, rep):
                        found = True
                # exact multiples of the divisor are numerically ambiguous: keep a margin in the comparison with the model
                ratios = [amount / (math.sqrt(3) * tp_real)] if kind == "erodeit" else [amount / pitch, amount / tp_real]
                if all(abs(r - round(r)) > 1e-6 for r in ratios):
                    lines.append(f"C08 {kind} {fr(amount)} {fr(pitch)} {fr(tp_real)}")
                    meta.append("same" if it == 0 else f"dilate {it}" if it > 0 else f"erode {-it}")
                ctx.hist(kind, "same" if it == 0 else "dilate" if it > 0 else "erode")
    if build_ok and lines:
        lean = ctx.driver(lines)
        bad = 0
        for ln, a, b in zip(lines, lean, meta):
            ctx.case(ln)
            if a != b:
                bad += 1
                if bad <= 5:
                    ctx.broken("correspondence", "pass-count model vs _erodeOverapproximate/_bufferOverapproximate",
                               f"{ln}: lean={a} python={b}")
    # ---- (S) the over-approximation claim of _bufferOverapproximate on the real function
    small = [((0.4, 0.4, 0.4), "SpheroidRegion"), ((0.8, 0.3, 0.2), "BoxRegion")]
    for dims, shp in small + meshes[: ctx.budget(8, 60)]:
        rep = {"kind": "bufferover", "shape": shp, "dims": dims, "amount": rng.choice([0.3, 0.5, 0.866, 1.5]),
               "pitch": rng.choice([0.15, 0.3])}
        if rep["amount"] / (rep["pitch"] * max(dims)) > 60:
            continue  # (more than 60 dilation passes: voxel grid too large for a quick probe)
        try:
            bad, text = bufferover_verdict(rep)
        except Exception as e:
            ctx.hist("buffer_over", "raised:" + type(e).__name__)
            continue
        ctx.evaluations += 6
        ctx.case(("bufferover", dims, rep["amount"], rep["pitch"]))
        if bad:
            if ctx.violation("buffer-overapproximate-too-small", text, rep):
                found = True
            ctx.hist("buffer_over", "too-small")
        else:
            ctx.hist("buffer_over", "contains-probes")
    return found


class _Spin(Exception):
    pass


def corr_loops(ctx, gen):
    """(C) the two `while ... is None` loops of pruning.py, run for real with the voxel->mesh conversion replaced by
    an oracle on the pitch, vs `retryLoop` / `retryTrace` of the model with the generated configuration."""
    import scenic
    from scenic.core import pruning
    from scenic.core.regions import BoxRegion, MeshVolumeRegion, VoxelRegion
    from scenic.syntax import translator
    if not (ctx.proof is not None and ctx.proof.build_ok):
        return False

    class FakeVoxel(VoxelRegion):
        """a voxel region whose conversion to a mesh fails"""
        mesh = None

        def __init__(self):
            pass
    p0 = float(pruning.PRUNING_PITCH)
    grid = [p0, min(2 * p0, 1), min(4 * p0, 1), min(8 * p0, 1), 1.0]
    oksets = [[], [grid[0]], [grid[1]], [grid[2]], [1.0], [grid[1], 1.0], grid]
    FUEL = 12
    old = translator.usePruning
    translator.usePruning = False
    try:
        with quiet():
            sc_e = scenic.scenarioFromString(
                "region = BoxRegion(dimensions=(30,30,30))\n"
                "ego = new Object in region, with regionContainedIn BoxRegion(dimensions=(20,20,20)),\n"
                "    with width 2, with length 2, with height 2\n")
            sc_b = scenic.scenarioFromString(
                "workspace = Workspace(RectangularRegion(0@0, 0, 10, 10))\n"
                "ego = new Object at (0,0,0), with visibleDistance 2, with allowCollisions True\n"
                "foo = new Object in workspace, with requireVisible True, with allowCollisions True\n")
    finally:
        translator.usePruning = old
    real_e, real_b = MeshVolumeRegion._erodeOverapproximate, MeshVolumeRegion._bufferOverapproximate
    lines, got = [], []
    for which, sc, fn in (("erode", sc_e, pruning.pruneContainment), ("buffer", sc_b, pruning.pruneVisibility)):
        for ok in oksets:
            calls = []

            def isok(pitch):
                return any(abs(pitch - q) < 1e-9 for q in ok)

            def stub_e(self, amount, pitch):
                calls.append(float(pitch))
                if len(calls) > FUEL:
                    raise _Spin()
                return BoxRegion(dimensions=(18, 18, 18)) if isok(pitch) else FakeVoxel()

            def stub_b(self, amount, pitch):
                calls.append(float(pitch))
                if len(calls) > FUEL:
                    raise _Spin()
                if pitch >= 1:  # the callee's own behaviour at the coarsest pitch is part of what is compared
                    r = getattr(real_b, "__wrapped__", real_b)(self, amount, pitch)
                    return FakeVoxel() if isinstance(r, VoxelRegion) and not isok(pitch) else r
                return BoxRegion(dimensions=(8, 8, 8)) if isok(pitch) else FakeVoxel()
            MeshVolumeRegion._erodeOverapproximate = stub_e
            MeshVolumeRegion._bufferOverapproximate = stub_b
            state = "done"
            try:
                with quiet():
                    fn(sc, 0)
            except _Spin:
                state = "running"
                calls = calls[:FUEL]
            except Exception as e:
                state = "raised:" + type(e).__name__
            finally:
                MeshVolumeRegion._erodeOverapproximate = real_e
                MeshVolumeRegion._bufferOverapproximate = real_b
                for o in sc.objects:
                    o.position._conditioned = o.position
            tr = " ".join(fr(Fraction(c).limit_denominator(10 ** 6)) for c in calls)
            got.append((f"done {len(calls)} {tr}" if state == "done" else f"{state} {tr}").strip())
            lines.append(f"C08 retry {which} {FUEL} " + " ".join(fr(Fraction(x).limit_denominator(10 ** 6)) for x in ok))
            ctx.hist("retry_real", f"{which}:{state}:{len(calls)}")
    bad = 0
    for ln, a, b in zip(lines, ctx.driver(lines), got):
        ctx.case(ln)
        if a.strip() != b:
            bad += 1
            if bad <= 5:
                ctx.broken("correspondence", "retry-loop model vs pruneContainment / bufferHelper (conversion stubbed)",
                           f"{ln}: lean={a} python={b}")
    return False


GLUE_VERDICTS = {}


def corr_glue(ctx, gen):
    return False


def erode_trigger(ctx, gen):
    """(S) row 17: look for a container on which the erosion retry loop of pruneContainment cannot end
    (its voxel->mesh conversion returns None at the pitch the loop keeps passing)."""
    import trimesh
    import scenic  # noqa
    from scenic.core.regions import MeshVolumeRegion, VoxelRegion
    rng = ctx.rng
    found = False
    tried = 0
    for i in range(ctx.budget(40, 300)):
        L = rng.choice([5, 10, 20])
        w = rng.choice([0.05, 0.1, 0.3, 1.0])
        h = rng.choice([0.05, 0.3, 1, 3])
        ang = rng.choice([math.pi / 4, math.atan(0.5), rng.uniform(0, math.pi)])
        axis = rng.choice([[0, 0, 1], [0, 1, 1], [1, 1, 1]])
        b = trimesh.creation.box((L, w, h))
        b.apply_transform(trimesh.transformations.rotation_matrix(ang, axis))
        reg = MeshVolumeRegion(b, centerMesh=False)
        tp = 0.15 * max(reg.mesh.extents)
        amount = 1.5 * math.sqrt(3) * tp
        with quiet():
            v = reg._erodeOverapproximate(amount, 0.15)
        tried += 1
        if isinstance(v, VoxelRegion) and v.mesh is None:
            rep = {"kind": "erode-loop", "box": [L, w, h], "angle": ang, "axis": axis, "amount": amount}
            res = run_isolated("erode_loop", rep, timeout=ctx.budget(60, 120))
            ctx.case(("erode-loop", L, w, h, ang, tuple(axis)))
            if res.get("nonterminating"):
                if ctx.violation("erode-retry-nonterminating",
                                 "pruneContainment never finishes: its `while eroded_container is None` loop called "
                                 f"_erodeOverapproximate {res['calls']} times with identical arguments (maxErosion={amount:.4g}, "
                                 f"pitch={res.get('pitch')}), each result's .mesh being None "
                                 f"(container: box {L}x{w}x{h} rotated {ang:.4g} about {axis})", rep):
                    found = True
                ctx.hist("erode_loop", "nonterminating")
            else:
                ctx.hist("erode_loop", "conversion-fails-but-compiles:" + str(res.get("status")))
            break
    else:
        ctx.hist("erode_loop", f"no-unconvertible-voxelization-in-{tried}")
    return found


def _erode_loop_child(rep):
    """Compile a scenario whose container is the given thin rotated box; a call counter turns an endless
    repetition of identical _erodeOverapproximate calls into a report instead of a hang."""
    import trimesh
    import scenic
    from scenic.core import regions
    from scenic.core.regions import MeshVolumeRegion, VoxelRegion
    L, w, h = rep["box"]
    b = trimesh.creation.box((L, w, h))
    b.apply_transform(trimesh.transformations.rotation_matrix(rep["angle"], rep["axis"]))
    container = MeshVolumeRegion(b, centerMesh=False)
    side = 2 * rep["amount"] * 1.0001
    calls = []
    real = MeshVolumeRegion._erodeOverapproximate

    def counting(self, maxErosion, pitch):
        r = real(self, maxErosion, pitch)
        bad = isinstance(r, VoxelRegion) and r.mesh is None
        calls.append((float(maxErosion), float(pitch), bad))
        if len(calls) >= 8 and all(c == calls[-1] and c[2] for c in calls[-8:]):
            raise _Spin()
        return r
    MeshVolumeRegion._erodeOverapproximate = counting
    code = (f"ego = new Object in BoxRegion(dimensions=({3 * L},{3 * L},{3 * L})), with regionContainedIn C,\n"
            f"    with width {side}, with length {side}, with height {side}\n")
    import scenic.syntax.veneer as veneer
    try:
        with quiet():
            scenic.scenarioFromString("C = globalParameters.C\n" + code, params={"C": container})
        return {"status": "compiled", "calls": len(calls)}
    except _Spin:
        return {"nonterminating": True, "calls": len(calls), "pitch": calls[-1][1]}
    except Exception as e:
        return {"status": "raised:" + type(e).__name__ + ":" + str(e)[:100], "calls": len(calls)}
    finally:
        MeshVolumeRegion._erodeOverapproximate = real


# =========================================================================== program generator
def poly(pts):
    return "PolygonalRegion([" + ", ".join(f"{x}@{y}" for x, y in pts) + "])"


def gen_workspace(rng):
    w, h = rng.choice([4, 6, 8, 12]), rng.choice([4, 6, 10])
    kind = rng.choice(["rect", "rect", "L", "tri", "two"])
    if kind == "rect":
        return poly([(0, 0), (w, 0), (w, h), (0, h)])
    if kind == "L":
        return poly([(0, 0), (w, 0), (w, h / 2), (w / 2, h / 2), (w / 2, h), (0, h)])
    if kind == "tri":
        return poly([(0, 0), (2 * w, 0), (0, 2 * h)])
    return poly([(0, 0), (w, 0), (w, h), (0, h)]) + ".union(" + poly([(w + 1, 0), (2 * w + 1, 0), (2 * w + 1, h), (w + 1, h)]) + ")"


ANISO = [  # shapes whose planar inradius, inradius and radius differ widely (mostly flat: the height is the smallest
    # dimension, so a radius that is valid in the plane is not valid once the object is rotated out of it)
    ", with width 2, with length 2, with height 0.2", ", with width Range(2, 3), with length 2, with height 0.2",
    ", with shape CylinderShape(dimensions=(2,2,0.2))", ", with width 3, with length 0.4, with height 3",
    ", with width 2, with length 2.5, with height Range(0.1, 0.4)", ", with width 3, with length 2, with height 0.1",
    ", with width 0.2, with length 2, with height 2",
]
ORIENT = [  # orientations that take the object out of the plane (roll / pitch / both, fixed and random)
    ", with roll 90 deg", ", with pitch 90 deg", ", facing (Range(0, 360) deg, 0, 90 deg)", ", with roll Range(80, 90) deg",
    ", facing (0, 90 deg, 90 deg)", ", with roll -90 deg", ", facing (Range(0, 360) deg, 90 deg, 0)",
    ", facing (30 deg, 0, Range(60, 90) deg)", ", with pitch Range(60, 90) deg", ", facing (0, 0, 45 deg)",
    ", facing (90 deg, 0, 90 deg)",
]


def gen_size(rng, aniso=None):
    if aniso is not None:
        return ANISO[aniso % len(ANISO)]
    return rng.choice([
        "", "", ", with width 2, with length 2", ", with width Range(1, 2), with length 2",
        ", with width Range(0.5, 3), with length Range(1, 2), with height 0.5", ", with width 3, with length 1, with height 4",
        ", with shape SpheroidShape(dimensions=(2,2,2))", ", with shape CylinderShape(dimensions=(2,2,1))",
        ", with width 2, with length 2, with height 0.2",
    ])


def gen_facing(rng, oriented=None):
    if oriented is not None:
        return ORIENT[oriented % len(ORIENT)]
    return rng.choice(["", "", ", facing Range(0, 360) deg", ", facing 30 deg", ", facing (Range(0,360) deg, Range(-20,20) deg, 0)",
                       ", facing (10 deg, 15 deg, 0)", ", with roll 90 deg", ", facing (0, Range(-10, 10) deg, Range(-30, 30) deg)"])


def gen_contain(rng, v=0):
    """v odd: an anisotropic object rotated out of the plane (the radius used for the erosion must be valid for the
    object's actual footprint), cycling through the ways the base point is specified; v even: everything random."""
    ws = gen_workspace(rng)
    lines = [f"workspace = Workspace({ws})"]
    oriented = v % 2 == 1
    n = 1 if oriented else rng.choice([1, 1, 2])
    for i in range(n):
        name = "ego" if i == 0 else f"o{i}"
        spec = rng.choice(["in workspace", "in workspace", "on workspace", "offset", "offsetR", "incont"])
        if oriented:
            spec = ["in workspace", "on workspace", "incont", "in workspace", "offset"][(v // 2) % 5]
        extra = (gen_size(rng, aniso=v // 2) + gen_facing(rng, oriented=v // 2)) if oriented else (gen_size(rng) + gen_facing(rng))
        if spec == "on workspace" and rng.random() < 0.5:
            extra += rng.choice([", with baseOffset (0.1, 0, 0.5)", ", with baseOffset (0.3, 0.2, 0.5), with contactTolerance 0",
                                 ", with contactTolerance 0.3"])
        if spec == "offset":
            lines.append(f"p{i} = new Point in workspace")
            dx, dy = rng.choice([0, 0.2, -0.5, 1]), rng.choice([0, 0.1, 0.7])
            lines.append(f"{name} = new Object at p{i}.position + Vector({dx}, {dy}, {rng.choice([0, 0, 2])}){extra}, with allowCollisions True")
        elif spec == "offsetR":
            lines.append(f"p{i} = new Point in workspace")
            lines.append(f"{name} = new Object at p{i}.position + Vector(Range(-0.3, 0.4), Range(0, 0.2), 0){extra}, with allowCollisions True")
        elif spec == "incont":
            a = rng.choice([3, 5, 8])
            cont = poly([(1, 1), (1 + a, 1), (1 + a, 1 + a), (1, 1 + a)])
            lines.append(f"{name} = new Object in workspace, with regionContainedIn {cont}{extra}, with allowCollisions True")
        else:
            lines.append(f"{name} = new Object {spec}{extra}, with allowCollisions {rng.choice(['True', 'True', 'False'])}")
    if n == 2 and rng.random() < 0.5:
        lines.append(gen_requirement(rng, "o1", kinds=("dist",)))
    return "\n".join(lines) + "\n", {"family": "contain"}


REQ_DIST = [
    "(distance to {o}) <= {d}", "(distance to {o}) < {d}", "{d} >= (distance to {o})", "{d} > (distance to {o})",
    "abs(distance to {o}) <= {d}", "({d} + 1) >= (distance to {o})", "(distance to {o}) <= {d} * 2 - {d}",
    "(distance to {o}) != {d}", "abs((distance to {o}) - {d}) <= 3", "(distance to {o}) == (distance to {o})",
]
REQ_RH = [
    "(relative heading of {o}) >= {a} deg", "(relative heading of {o}) > {a} deg", "{a} deg <= (relative heading of {o})",
    "(relative heading of {o}) <= -{a} deg", "-{a} deg > (relative heading of {o})",
    "abs(relative heading of {o}) <= {a} deg", "abs(relative heading of {o}) < {a} deg",
    "{a} deg - 20 deg <= (relative heading of {o})", "abs((relative heading of {o}) - {a} deg) <= {b} deg",
    "abs({a} deg - (relative heading of {o})) <= {b} deg", "abs((relative heading of {o}) + {a} deg) < {b} deg",
    "{b} deg >= abs((relative heading of {o}) - {a} deg)", "(relative heading of {o}) != {a} deg",
    "{a} deg + 10 deg > (relative heading of {o})", "abs(relative heading of {o}) >= {a} deg",
    "(relative heading of {o}) == {a} deg", "abs(relative heading of {o}) > -1",
]


def gen_requirement(rng, other, kinds=("dist", "rh"), around=None, form_idx=None):
    k = rng.choice(kinds)
    if k == "dist":
        return "require " + rng.choice(REQ_DIST).format(o=other, d=rng.choice([3, 5, 8, 15, 35]))
    a = rng.choice([0, 30, 60, 90, 120, 170, 180])
    form = rng.choice(REQ_RH)
    if around is not None and rng.random() < 0.8:
        # `around` is an achievable relative heading (degrees): pick a form and constants it satisfies
        r = around
        forms = [("(relative heading of {o}) >= {x} deg", r - rng.choice([0, 5, 30])),
                 ("(relative heading of {o}) > {x} deg", r - rng.choice([5, 30])),
                 ("{x} deg <= (relative heading of {o})", r - rng.choice([0, 10])),
                 ("(relative heading of {o}) <= {x} deg", r + rng.choice([0, 5, 30])),
                 ("{x} deg > (relative heading of {o})", r + rng.choice([5, 20])),
                 ("abs((relative heading of {o}) - {x} deg) <= {b} deg", r + rng.choice([0, 3, -10])),
                 ("abs({x} deg - (relative heading of {o})) <= {b} deg", r + rng.choice([0, 3, -10])),
                 ("abs((relative heading of {o}) + {x} deg) < {b} deg", -r + rng.choice([0, 4])),
                 ("{b} deg >= abs((relative heading of {o}) - {x} deg)", r + rng.choice([0, -5])),
                 ("abs(relative heading of {o}) <= {x} deg", abs(r) + rng.choice([0, 5, 20])),
                 ("abs(relative heading of {o}) < {x} deg", abs(r) + rng.choice([5, 20])),
                 ("(relative heading of {o}) == {x} deg", r),
                 ("(relative heading of {o}) != {x} deg", r + 7)]
        f, x = rng.choice(forms)
        if form_idx is not None:  # stratified: the abs forms with an offset first, then the others in turn
            order = [6, 5, 7, 0, 8, 9, 3, 11, 1, 2, 4, 10, 12]
            f, x = forms[order[form_idx % len(order)]]
        return "require " + f.format(o=other, x=(f"({x})" if x < 0 else x), b=rng.choice([15, 20, 45]))
    return "require " + form.format(o=other, a=a, b=rng.choice([5, 20, 45, 90]))


def gen_heading(rng, v=0):
    ncell = rng.choice([2, 2, 3])
    xs = [0, 20, 50]
    hs = [rng.choice([0, 90, 180, -90, 45, 170, -170, 179, -135, 30]) for _ in range(ncell)]
    lines = []
    for i in range(ncell):
        x = xs[i]
        lines.append(f"r{i} = " + poly([(x, 0), (x + 10, 0), (x + 10, 10), (x, 10)]))
    lines.append('vf = PolygonalVectorField("Foo", [' + ", ".join(f"[r{i}.polygons, {hs[i]} deg]" for i in range(ncell)) + "])")
    u = "r0"
    for i in range(1, ncell):
        u += f".union(r{i})"
    lines.append(f"union = {u}")
    # (`facing X relative to vf` composes orientations and is not matched by matchPolygonalField: kept as a rare
    #  negative case; a random visibleDistance is rejected by Scenic itself with or without pruning)
    fac = lambda: rng.choice(["facing vf"] * 8 + ["facing (Range(-10, 10) deg) relative to vf", "facing 20 deg relative to vf"])
    egox = rng.choice(["", ", with visibleDistance 100", ", with visibleDistance 25", ", with visibleDistance 12",
                       ", with visibleDistance 32"])
    lines.append(f"ego = new Object in union, {fac()}{egox}, with allowCollisions True")
    link = rng.choice(["reqvis", "reqvis", "visfrom", "visfrom", "dist", "dist", "dist", "none"])
    unbounded = v % 4 == 1 or rng.random() < 0.08
    if unbounded:  # a size without a finite upper bound: the visibility bound on the distance is then unknown
        link = ["reqvis", "visfrom"][(v // 4) % 2]
    ox = {"reqvis": ", with requireVisible True", "visfrom": ", visible from ego", "dist": "", "none": ""}[link]
    if unbounded:
        ox += rng.choice([", with width Normal(1, 0.1)", ", with length Normal(1.5, 0.2)",
                          ", with width Normal(1, 0.1), with height 1"])
    lines.append(f"other = new Object in union, {fac()}{ox}, with allowCollisions True")
    i, j = rng.sample(range(ncell), 2)
    r = (hs[j] - hs[i] + 180) % 360 - 180  # relative heading of an object in cell j seen from one in cell i
    lines.append(gen_requirement(rng, "other", kinds=("rh",), around=r, form_idx=v))
    if link == "dist":
        lines.append("require " + rng.choice(REQ_DIST).format(o="other", d=rng.choice([25, 35, 45, 70])))
    if rng.random() < 0.2:
        lines.append(gen_requirement(rng, "other", kinds=("rh",), around=r))
    return "\n".join(lines) + "\n", {"family": "heading"}


def gen_visibility(rng):
    side = rng.choice([6, 10, 16])
    lines = [f"workspace = Workspace(RectangularRegion(0@0, 0, {side}, {side}))"]
    vd = rng.choice([0.2, 0.4, 1, 2, 3, 5])
    view = rng.choice(["", "", ", with viewAngles (120 deg, 90 deg)", ", with viewAngles (60 deg, 40 deg), facing 45 deg"])
    egopos = rng.choice(["at (0,0,0)", "at (0,0,0)", "at (1,-1,0.5)", "in RectangularRegion(0@0, 0, 2, 2)"])
    lines.append(f"ego = new Object {egopos}, with visibleDistance {vd}{view}, with allowCollisions True")
    how = rng.choice(["reqvis", "visible", "visfrom"])
    spec = rng.choice(["in workspace", "on workspace", "in workspace"])
    size = gen_size(rng)
    extra = {"reqvis": ", with requireVisible True", "visible": ", visible", "visfrom": ", visible from ego"}[how]
    if spec == "on workspace" and rng.random() < 0.5:
        extra += ", with baseOffset (0,0,0.0001), with contactTolerance 0"
    lines.append(f"foo = new Object {spec}{extra}{size}, with allowCollisions True")
    if rng.random() < 0.2:
        lines.append("bar = new Object in workspace, visible from foo, with allowCollisions True")
    return "\n".join(lines) + "\n", {"family": "visibility"}


def gen_mesh(rng):
    a, b, c = rng.choice([6, 8, 10]), rng.choice([6, 8]), rng.choice([4, 6])
    base = f"BoxRegion(dimensions=({a + 2},{b + 2},{c + 2}))"
    cont = rng.choice([f"BoxRegion(dimensions=({a},{b},{c}))", f"SpheroidRegion(dimensions=({a},{b},{c}))",
                       f"BoxRegion(dimensions=({a},{b},{c}), position=(1,0,0))"])
    s = rng.choice([1, 2, 4, 5])
    size = rng.choice([f", with width {s}, with length {s}, with height {s}", f", with width Range(1,{s + 1}), with length {s}, with height {s}",
                       ", with shape SpheroidShape(dimensions=(3,3,3))", ""])
    lines = [f"region = {base}", f"ego = new Object in region, with regionContainedIn {cont}{size}{gen_facing(rng)}"]
    return "\n".join(lines) + "\n", {"family": "mesh"}


FAMILY_CYCLE = ["contain", "heading", "visibility", "contain", "heading", "mesh"]


def gen_program(rng, i=None):
    """i-th program of a run: families in a fixed rotation, the boundary variants of a family in turn (`v`)"""
    if i is None:
        fam = rng.choices(["contain", "heading", "visibility", "mesh"], [5, 5, 4, 2])[0]
        return {"contain": gen_contain, "heading": gen_heading, "visibility": gen_visibility, "mesh": gen_mesh}[fam](rng)
    fam = FAMILY_CYCLE[i % len(FAMILY_CYCLE)]
    v = 2 * (i // len(FAMILY_CYCLE)) + (1 if i % len(FAMILY_CYCLE) >= 3 else 0)
    if fam == "contain":
        return gen_contain(rng, v)
    if fam == "heading":
        return gen_heading(rng, v)
    return {"visibility": gen_visibility, "mesh": gen_mesh}[fam](rng)


# =========================================================================== program-level oracle (child process)
def conditioned_nodes(sc):
    from scenic.core.distributions import Samplable
    seen, out = set(), []
    stack = list(sc.dependencies)
    while stack:
        n = stack.pop()
        if id(n) in seen or not isinstance(n, Samplable):
            continue
        seen.add(id(n))
        c = n._conditioned
        if c is not n:
            out.append(n)
            stack.append(c)
            stack.extend(getattr(c, "_dependencies", ()))
        stack.extend(getattr(n, "_dependencies", ()))
    return out


def value_under(x, sample):
    from scenic.core.distributions import needsSampling
    from scenic.core.utils import DefaultIdentityDict
    if not needsSampling(x):
        return x
    sub = DefaultIdentityDict()
    sub.storage = dict(sample.storage)
    return x.sample(sub)


def region_contains(reg, pt, tol=1e-6):
    """True / False / None (cannot tell)"""
    from scenic.core.regions import EmptyRegion
    if isinstance(reg, EmptyRegion):
        return False, None
    try:
        if reg.containsPoint(pt):
            return True, 0.0
    except Exception:
        return None, None
    try:
        d = float(reg.distanceTo(pt))
    except Exception:
        return False, None
    if d <= tol:
        return None, d  # within tolerance of the boundary: undecided
    return False, d


def canon(v):
    import numpy
    from scenic.core.vectors import Orientation, Vector
    if isinstance(v, (bool, int, str, type(None))):
        return repr(v)
    if isinstance(v, float):
        return repr(round(v, 9))
    if isinstance(v, (numpy.floating, numpy.integer)):
        return canon(v.item())
    if isinstance(v, Vector):
        return "V(" + ",".join(canon(float(c)) for c in v) + ")"
    if isinstance(v, Orientation):
        return "O(" + ",".join(canon(float(c)) for c in v.q) + ")"
    if isinstance(v, (tuple, list)):
        return "[" + ",".join(canon(x) for x in v) + "]"
    return f"<{type(v).__name__}>"


def scene_props(sample, sc):
    out = []
    for o in sc.objects:
        so = sample[o]
        out.append({p: canon(getattr(so, p)) for p in sorted(so.properties)
                    if p not in ("behavior", "mutator", "lastActions", "regionContainedIn", "shape")})
    return out


def static_props(sc):
    """structure of every non-positional property of every object, as far as repr shows it"""
    out = []
    for o in sc.objects:
        d = {}
        for p in sorted(o.properties):
            if p in ("position",):
                continue
            v = getattr(o, p)
            s = str(v)
            d[p] = s if " at 0x" not in s else type(v).__name__
        out.append(d)
    return out


def analyse(task):
    """Runs in a child process.  task: {code, seed, iters, want, repaired}"""
    import numpy
    import scenic
    import scenic.syntax.relations as relations
    from scenic.core import pruning
    from scenic.core.distributions import RejectionException, Samplable, needsSampling
    from scenic.core.errors import InvalidScenarioError
    from scenic.core.regions import MeshVolumeRegion, VoxelRegion
    from scenic.syntax import translator
    res = {"status": "ok", "stage": "start", "t": {}}
    code, seed = task["code"], task["seed"]
    # spin detectors: identical repeated calls whose result cannot end the loop
    calls = {"erode": [], "buffer": []}

    def wrap(name, real):
        def f(self, amount, pitch):
            r = real(self, amount, pitch)
            if needsSampling(self) or needsSampling(amount):
                return r
            bad = isinstance(r, VoxelRegion) and r.mesh is None
            calls[name].append((id(self), float(amount), float(pitch), bad))
            lst = calls[name]
            if len(lst) >= 8 and all(c == lst[-1] and c[3] for c in lst[-8:]):
                raise _Spin(name)
            return r
        return f
    real_e, real_b = MeshVolumeRegion._erodeOverapproximate, MeshVolumeRegion._bufferOverapproximate
    # (the wrapped functions are distributionFunctions; keep that behaviour for random arguments)
    from scenic.core.distributions import distributionFunction
    MeshVolumeRegion._erodeOverapproximate = distributionFunction(wrap("erode", getattr(real_e, "__wrapped__", real_e)))
    MeshVolumeRegion._bufferOverapproximate = distributionFunction(wrap("buffer", getattr(real_b, "__wrapped__", real_b)))
    # erosion amounts actually used
    eros = []
    from scenic.core.regions import PolygonalFootprintRegion
    real_fb = PolygonalFootprintRegion.buffer

    def spy_buffer(self, amount):
        eros.append(float(amount))
        return real_fb(self, amount)
    PolygonalFootprintRegion.buffer = spy_buffer
    t0 = time.time()
    # ---- reference: no pruning, no relation inference
    random.seed(seed)
    numpy.random.seed(seed % (2 ** 32))
    translator.usePruning = False
    real_infer = relations.inferRelationsFrom
    relations.inferRelationsFrom = lambda *a, **k: None
    try:
        with quiet():
            ref = scenic.scenarioFromString(code)
    except Exception as e:
        res.update(status="generator-invalid", detail=f"{type(e).__name__}: {str(e)[:200]}")
        return res
    finally:
        relations.inferRelationsFrom = real_infer
    res["t"]["ref_compile"] = time.time() - t0
    res["stage"] = "ref-compiled"
    # ---- compile without pruning but with relation inference (InconsistentScenarioError comes from there)
    infer_err = None
    try:
        with quiet():
            scenic.scenarioFromString(code)
    except Exception as e:
        infer_err = (type(e).__name__, str(e)[:200])
    # ---- pruned compile
    translator.usePruning = True
    random.seed(seed)
    numpy.random.seed(seed % (2 ** 32))
    t1 = time.time()
    sc, perr = None, None
    try:
        with quiet():
            sc = scenic.scenarioFromString(code)
    except _Spin as e:
        lst = calls[str(e)]
        res["nonterminating"] = {"loop": str(e), "calls": len(lst), "amount": lst[-1][1], "pitch": lst[-1][2]}
    except Exception as e:
        perr = (type(e).__name__, str(e)[:300], "".join(traceback.format_exc().splitlines(True)[-6:])[-600:])
    res["t"]["pruned_compile"] = time.time() - t1
    res["stage"] = "pruned-compiled"
    res["erosions"] = eros[:]
    res["nobjects"] = len(ref.objects)
    res["pruned_error"] = perr
    res["infer_error"] = infer_err

    def sample_loop(scn, iters, want, on_accept, seconds):
        acc, it = 0, -1
        t_end = time.time() + seconds
        for req in scn.userRequirements:
            req.active = True
        for it in range(iters):
            if time.time() > t_end:
                break
            try:
                s = Samplable.sampleAll(scn.dependencies)
            except RejectionException:
                continue
            st = (random.getstate(), numpy.random.get_state())
            rej = scn.checker.checkRequirements(s)
            random.setstate(st[0])
            numpy.random.set_state(st[1])
            if rej is None:
                acc += 1
                on_accept(s)
                if acc >= want:
                    break
        return acc, it + 1

    iters, want = task["iters"], task["want"]
    # ---- feasibility of the reference program
    random.seed(seed + 1)
    numpy.random.seed((seed + 1) % (2 ** 32))
    ref_scenes = []
    tb = task.get("seconds", 10)
    try:
        racc, rit = sample_loop(ref, iters if (perr or res.get("nonterminating")) else min(iters, 400), 3,
                                lambda s: ref_scenes.append(scene_props(s, ref)), 4 * tb if perr else tb / 3)
    except Exception as e:  # the program cannot be sampled even without pruning: not a case for this property
        res.update(status="generator-invalid", detail=f"sampling: {type(e).__name__}: {str(e)[:200]}")
        return res
    res["ref_accepts"], res["ref_iters"] = racc, rit
    if sc is None:
        return res
    # ---- everything but the conditioning of positions is untouched
    res["static_diff"] = [(i, p) for i, (a, b) in enumerate(zip(static_props(ref), static_props(sc)))
                          for p in sorted(set(a) | set(b)) if a.get(p) != b.get(p)][:5]
    if len(ref.objects) != len(sc.objects):
        res["static_diff"].append(("objects", len(ref.objects), len(sc.objects)))
    nodes = conditioned_nodes(sc)
    objs_pos = {id(o.position): i for i, o in enumerate(sc.objects)}
    res["conditioned"] = [objs_pos.get(id(n), -1) for n in nodes]
    res["other_conditioned"] = [type(n).__name__ for n in nodes if id(n) not in objs_pos and
                                not any(getattr(o.position, "_dist", None) is n for o in sc.objects)][:5]
    saved = [(n, n._conditioned) for n in nodes]
    info = []
    for n, c in saved:
        b0, off0, pir0 = pruning.matchInRegion(n)
        b1, off1, pir1 = pruning.matchInRegion(c)
        info.append({"node": n, "cond": c, "orig": (b0, off0, pir0), "new": (b1, off1, pir1),
                     "checkable": pir0 is not None and pir1 is not None and (off0 is off1 or (off0 is None and off1 is None)),
                     "obj": objs_pos.get(id(n), -1)})
    res["checkable"] = sum(1 for i in info if i["checkable"])
    # ---- unpruned sampling in the same graph: reset the conditioning, sample, evaluate the pruned regions
    for n, _ in saved:
        n._conditioned = n
    outside, undec, checked = [], 0, 0
    un_scenes = []
    inradius_margin = []

    def on_unpruned(s):
        nonlocal undec, checked
        if len(un_scenes) < 3:
            un_scenes.append(scene_props(s, sc))
        for inf in info:
            if not inf["checkable"]:
                continue
            pt = s[inf["orig"][2]]
            try:
                reg = value_under(inf["new"][2].region, s)
            except Exception as e:
                undec += 1
                continue
            ok, d = region_contains(reg, pt)
            checked += 1
            if ok is None:
                undec += 1
            elif ok is False:
                if len(outside) < 5:
                    outside.append({"obj": inf["obj"], "point": [float(c) for c in pt], "distance": d,
                                    "region": str(reg)[:160]})
        # erosion amounts must not exceed inradius − |offset| of the sampled objects
        for inf in info:
            o = sc.objects[inf["obj"]] if inf["obj"] >= 0 else None
            if o is None or not eros or len(inradius_margin) >= 8:
                continue
            so = s[o]
            off = inf["orig"][1]
            offv = s[off] if off is not None else None
            dist2d = math.hypot(offv[0], offv[1]) if offv is not None else 0.0
            inradius_margin.append((inf["obj"], float(so.planarInradius) - dist2d, float(so.inradius) - dist2d,
                                    abs(float(so.pitch)) < 1e-12 and abs(float(so.roll)) < 1e-12))
    random.seed(seed + 2)
    numpy.random.seed((seed + 2) % (2 ** 32))
    t2 = time.time()
    try:
        uacc, uit = sample_loop(sc, iters, want, on_unpruned, tb)
    finally:
        for n, c in saved:
            n._conditioned = c
    res["t"]["unpruned_sampling"] = time.time() - t2
    res["unpruned"] = {"accepted": uacc, "iters": uit, "checked": checked, "undecided": undec, "outside": outside}
    res["margins"] = inradius_margin[:50]
    # same seed, same graph modulo pruning: the reference scenes and the reset-graph scenes coincide
    if ref_scenes and un_scenes:
        random.seed(seed + 1)
        numpy.random.seed((seed + 1) % (2 ** 32))
        for n, _ in saved:
            n._conditioned = n
        again = []
        try:
            sample_loop(sc, min(iters, 400), len(ref_scenes), lambda s: again.append(scene_props(s, sc)), tb)
        finally:
            for n, c in saved:
                n._conditioned = c
        res["same_as_reference"] = (again == ref_scenes) if len(again) == len(ref_scenes) else None
    # ---- pruned sampling: no new scenes
    new_out, pchecked = [], 0

    def on_pruned(s):
        nonlocal pchecked
        for inf in info:
            if not inf["checkable"]:
                continue
            pt = s[inf["new"][2]]
            try:
                reg = value_under(inf["orig"][2].region, s)
            except Exception:
                continue
            ok, d = region_contains(reg, pt, tol=1e-4)
            pchecked += 1
            if ok is False and len(new_out) < 5:
                new_out.append({"obj": inf["obj"], "point": [float(c) for c in pt], "distance": d})
    random.seed(seed + 3)
    numpy.random.seed((seed + 3) % (2 ** 32))
    t3 = time.time()
    try:
        pacc, pit = sample_loop(sc, iters, max(5, want // 4), on_pruned, tb / 3)
    except (Exception, RecursionError) as e:  # e.g. a dependency cycle introduced by conditioning
        pacc, pit = 0, 0
        res["sampling_error"] = (type(e).__name__, str(e)[:200])
    res["t"]["pruned_sampling"] = time.time() - t3
    res["pruned"] = {"accepted": pacc, "iters": pit, "checked": pchecked, "outside_original": new_out}
    res["stage"] = "done"
    return res


# --------------------------------------------------------------------------- worker processes
# (fresh interpreters fed over pipes: forking a process that has imported Scenic is very slow in the sandbox)
WORKER_FNS = {}


def _worker_main():
    out = os.fdopen(os.dup(1), "w")
    devnull = open(os.devnull, "w")
    os.dup2(devnull.fileno(), 1)
    sys.stdout = devnull
    sys.setrecursionlimit(10000)
    import scenic  # noqa
    out.write(json.dumps({"ready": True}) + "\n")
    out.flush()
    for line in sys.stdin:
        line = line.strip()
        if not line:
            continue
        msg = json.loads(line)
        try:
            res = WORKER_FNS[msg["fn"]](msg["arg"])
        except BaseException as e:  # noqa
            res = {"status": "harness-error",
                   "detail": "".join(traceback.format_exception(type(e), e, e.__traceback__))[-1500:]}
        out.write(json.dumps(res, default=str) + "\n")
        out.flush()


class Pool:
    def __init__(self, workers):
        self.n = workers
        self.procs = []
        self.spawned = 0
        self.last_err = ""

    def _spawn(self):
        import subprocess
        env = dict(os.environ)
        env["PYTHONPATH"] = os.pathsep.join(x for x in sys.path if x and os.path.isdir(x))
        self.spawned += 1
        if self.spawned > 4 * self.n + 40:
            raise Infra("worker processes keep dying: " + self.last_err[-600:])
        errf = tempfile.TemporaryFile(mode="w+")
        p = subprocess.Popen([sys.executable, "-W", "ignore", os.path.abspath(__file__), "--worker"],
                             stdin=subprocess.PIPE, stdout=subprocess.PIPE, stderr=errf, env=env, text=True)
        return {"p": p, "task": None, "t0": None, "ready": False, "born": time.time(), "err": errf}

    def close(self):
        for w in self.procs:
            try:
                w["p"].kill()
            except Exception:
                pass
        self.procs = []

    def run(self, fn, args, timeout, deadline=None, grace=12):
        """results in order; a task that exceeds `timeout` seconds (after its worker is ready) is killed.
        `deadline` (absolute time): no task is handed out after it ({"status": "not-run"}); tasks still running
        `grace` seconds after it are killed ({"status": "cutoff"}).  Neither is ever a verdict."""
        import select
        results = [None] * len(args)
        pending = list(enumerate(args))[::-1]
        want = min(self.n, max(1, len(args)))
        while len(self.procs) < want:
            self.procs.append(self._spawn())
        done = 0
        while done < len(args):
            if deadline is not None and pending and time.time() > deadline:
                for i, _ in pending:
                    results[i] = {"status": "not-run"}
                    done += 1
                pending = []
                if done >= len(args):
                    break
            # hand out work
            for w in self.procs:
                if w["ready"] and w["task"] is None and pending:
                    i, a = pending.pop()
                    try:
                        w["p"].stdin.write(json.dumps({"fn": fn, "arg": a}) + "\n")
                        w["p"].stdin.flush()
                        w["task"], w["t0"] = i, time.time()
                    except (BrokenPipeError, OSError):
                        pending.append((i, a))
                        w["dead"] = True
            fds = {w["p"].stdout.fileno(): w for w in self.procs if not w.get("dead")}
            r, _, _ = select.select(list(fds), [], [], 0.25)
            for fd in r:
                w = fds[fd]
                line = w["p"].stdout.readline()
                if not line:
                    w["dead"] = True
                    continue
                msg = json.loads(line)
                if msg.get("ready") and not w["ready"]:
                    w["ready"] = True
                    continue
                if w["task"] is not None:
                    results[w["task"]] = msg
                    w["task"] = None
                    done += 1
            now = time.time()
            for k, w in enumerate(self.procs):
                dead = w.get("dead") or w["p"].poll() is not None
                cut = w["task"] is not None and deadline is not None and now > deadline + grace
                late = w["task"] is not None and (now - w["t0"] > timeout or cut)
                slow_start = not w["ready"] and now - w["born"] > 900
                if dead or late or slow_start:
                    if w["task"] is not None:
                        results[w["task"]] = ({"status": "cutoff" if cut and now - w["t0"] <= timeout else "timeout",
                                               "after": round(now - w["t0"])} if late and not dead else
                                              {"status": "harness-error", "detail": "worker process died"})
                        done += 1
                    try:
                        w["p"].kill()
                    except Exception:
                        pass
                    try:
                        w["err"].seek(0)
                        self.last_err = w["err"].read()[-2000:] or self.last_err
                        w["err"].close()
                    except Exception:
                        pass
                    if slow_start and not any(x["ready"] for x in self.procs):
                        raise Infra("worker processes do not start (machine overloaded?)")
                    self.procs[k] = self._spawn() if pending else None
            self.procs = [w for w in self.procs if w is not None]
            if not self.procs and done < len(args):
                self.procs.append(self._spawn())
        return results


_pool = None


def pool():
    global _pool
    if _pool is None:
        # the machine is shared: three worker processes unless told otherwise
        n = int(os.environ.get("VERIF_C08_PROCS") or os.environ.get("C08_WORKERS") or 3)
        _pool = Pool(max(1, n))
    return _pool


def run_many(fn, args, timeout, deadline=None):
    return pool().run(fn, args, timeout, deadline=deadline)


def run_isolated(fn, arg, timeout):
    return pool().run(fn, [arg], timeout)[0]


def tiered(ctx, quick, escalated, thorough):
    """quick tier / quick tier with escalated budgets (a fingerprint changed or a translator tie is lost) / thorough"""
    if os.environ.get("C08_DEV_QUICK"):
        return quick
    if ctx.tier == "thorough":
        return thorough
    return escalated if ctx.escalated else quick


def programs_start(ctx):
    """Generate the programs (all random choices are made here, in the main thread) and start analysing them in the
    worker pool while the main thread runs the correspondence checks.  The phase is time-boxed by wall clock: programs
    not started when the box ends are reported as `not-run`, programs still running shortly after it as `cutoff`;
    neither is a verdict.  The generator is stratified (`gen_program(rng, i)`), so that the programs that do run cover
    every family and every boundary variant first."""
    import threading
    rng = ctx.rng
    nprog = int(os.environ.get("C08_NPROG") or tiered(ctx, 72, 240, 900))  # (override: development only)
    iters, want = tiered(ctx, 3000, 6000, 15000), tiered(ctx, 120, 200, 1000)
    seconds = tiered(ctx, 4, 6, 24)
    tasks = []
    for i in range(nprog):
        code, meta = gen_program(rng, i)
        tasks.append({"code": code, "seed": rng.getrandbits(30), "iters": iters, "want": want, "family": meta["family"],
                      "seconds": seconds})
    timeout = tiered(ctx, 50, 90, 400)
    box_s = float(os.environ.get("C08_BOX") or tiered(ctx, 150, 330, 1300))
    deadline = time.time() + box_s
    box = {"box_s": box_s, "t0": time.time()}

    def work():
        try:
            box["results"] = run_many("analyse", tasks, timeout, deadline=deadline)
        except BaseException as e:  # noqa
            box["error"] = e
        box["t1"] = time.time()
    th = threading.Thread(target=work, daemon=True)
    th.start()
    return tasks, timeout, th, box


def judge_program(task, r):
    """The property itself, per program, from the child's report: -> (list of (key, what), outcome label)."""
    fam = task.get("family", "program")
    st = r.get("status")
    if st in ("generator-invalid", "timeout", "cutoff", "not-run"):
        return [], st
    if r.get("nonterminating"):
        nt = r["nonterminating"]
        return [(f"{nt['loop']}-retry-nonterminating",
                 f"compilation with pruning does not terminate: the `while … is None` loop around "
                 f"_{nt['loop']}Overapproximate repeated the identical call (amount={nt['amount']:.4g}, pitch={nt['pitch']}) "
                 f"{nt['calls']} times, each result's .mesh being None")], "nonterminating"
    perr = r.get("pruned_error")
    if perr:
        if r.get("ref_accepts", 0) > 0:
            stage = "relations" if r.get("infer_error") else "prune"
            import re as _re
            fn = _re.findall(r", in (\w+)", perr[2] or "")
            where = (":" + fn[-1]) if fn else ""
            return [(f"feasible-program-rejected:{stage}:{perr[0]}{where}",
                     f"the program compiles and has accepted samples without pruning ({r['ref_accepts']} in "
                     f"{r['ref_iters']} iterations) but compiling with pruning raises {perr[0]}: {perr[1]}")], \
                f"pruned-compile-raised:{perr[0]}"
        return [], "rejected-and-no-accepted-sample(undecided)"
    if r.get("stage") != "done":
        return [], f"incomplete:{r.get('stage')}"
    out = []
    un, pr = r["unpruned"], r["pruned"]
    if r.get("static_diff"):
        out.append((f"non-positional-property-changed:{r['static_diff'][0][1]}",
                    f"pruning changed a non-positional property: {r['static_diff']}"))
    if r.get("other_conditioned"):
        out.append(("conditioned-non-position:" + r["other_conditioned"][0],
                    f"pruning conditioned values other than object positions: {r['other_conditioned']}"))
    if r.get("same_as_reference") is False:
        out.append(("unpruned-scenes-differ",
                    "with the conditioning of positions undone, the pruned scenario does not reproduce the scenes of the "
                    "program compiled without pruning from the same seed (pruning changed something else)"))
    if un["outside"]:
        o = un["outside"][0]
        out.append((f"accepted-sample-outside-pruned-region:{fam}",
                    f"an accepted sample of the unpruned program places object {o['obj']}'s base point at {o['point']}, "
                    f"{o['distance']} away from the pruned sampling region {o['region']} "
                    f"({len(un['outside'])}+ of {un['checked']} checked samples)"))
    if pr["outside_original"]:
        o = pr["outside_original"][0]
        out.append((f"pruned-sample-outside-original-region:{fam}",
                    f"the pruned program samples object {o['obj']}'s base point at {o['point']}, outside the original region "
                    f"(distance {o['distance']})"))
    if r.get("sampling_error"):
        out.append((f"pruned-sampling-raised:{r['sampling_error'][0]}",
                    f"sampling the pruned scenario raises {r['sampling_error'][0]}: {r['sampling_error'][1]} "
                    "(the unpruned program samples fine)"))
    # erosion never exceeds inradius − |offset| of any accepted sample (metric lemma's hypothesis r ≤ ρ − d)
    if r.get("erosions") and r.get("margins") and r.get("nobjects") == 1 and len(r["erosions"]) == 1 and fam == "contain":
        e = -r["erosions"][0]
        flat = [m for m in r["margins"] if m[3]]
        if flat and len(flat) == len(r["margins"]):
            worst = min(m[1] for m in flat)
            if e > worst + 1e-9:
                out.append(("erosion-exceeds-inradius-minus-offset",
                            f"pruneContainment eroded the container by {e}, more than (planar inradius − offset distance) = {worst} "
                            "of an accepted sample of the object"))
    return out, ("pruned" if r["conditioned"] else "not-pruned")


def programs_finish(ctx, handle):
    tasks, timeout, th, box = handle
    th.join()
    if "error" in box:
        raise box["error"]
    results = box["results"]
    found = False
    totals = {"accepted": 0, "checked": 0, "undecided": 0, "pruned_checked": 0}
    summaries = []
    ctx.extra["program_summaries"] = summaries
    cut = {"cutoff": 0, "not-run": 0}
    for task, r in zip(tasks, results):
        fam = task["family"]
        if len(summaries) < 80 and r.get("status") != "not-run":
            summaries.append({"family": fam, "status": r.get("status"), "stage": r.get("stage"),
                              "conditioned": r.get("conditioned"), "checkable": r.get("checkable"),
                              "unpruned": {k: v for k, v in (r.get("unpruned") or {}).items() if k != "outside"},
                              "pruned_error": (r.get("pruned_error") or [None])[0], "detail": r.get("detail"),
                              "first_line": task["code"].splitlines()[-1][:100], "t": r.get("t")})
        rep = {"kind": "program", "code": task["code"], "seed": task["seed"], "iters": task["iters"], "want": task["want"],
               "seconds": 4 * task["seconds"], "family": fam}
        st = r.get("status")
        if st == "harness-error":
            raise Infra("program oracle crashed in the harness: " + r.get("detail", "")[-800:])
        verdicts, label = judge_program(task, r)
        ctx.hist("program", f"{fam}:{label}")
        if st == "generator-invalid":
            ctx.hist("generator_invalid", r.get("detail", "")[:60])
            continue
        if st == "timeout":
            ctx.notes.append(f"program timed out after {r['after']} s (undecided): {task['code'][:120]!r}")
            continue
        if st in ("cutoff", "not-run"):
            cut[st] += 1
            continue
        ctx.case(("program", task["code"]), nontrivial=bool(r.get("conditioned")))
        if r.get("stage") == "done":
            un, pr = r["unpruned"], r["pruned"]
            totals["accepted"] += un["accepted"]
            totals["checked"] += un["checked"]
            totals["undecided"] += un["undecided"]
            totals["pruned_checked"] += pr["checked"]
            ctx.evaluations += un["checked"] + pr["checked"]
            ctx.hist("accepted_unpruned", "0" if un["accepted"] == 0 else "<20" if un["accepted"] < 20 else ">=20")
            if r.get("same_as_reference") is not None:
                ctx.hist("reference_replay", "identical" if r["same_as_reference"] else "differs")
            if r["conditioned"] and un["checked"]:
                ctx.hist("pruned_and_checked", fam)
        for key, what in verdicts:
            if ctx.violation(key, what, dict(rep, traceback=(r.get("pruned_error") or [None, None, None])[2])):
                found = True
    totals["programs_generated"] = len(tasks)
    totals["programs_analysed"] = len(tasks) - cut["cutoff"] - cut["not-run"]
    totals["time_box_s"] = box["box_s"]
    totals["phase_s"] = round(box.get("t1", time.time()) - box["t0"], 1)
    if cut["cutoff"] or cut["not-run"]:
        ctx.notes.append(f"program phase time box ({box['box_s']:.0f} s) reached: {totals['programs_analysed']} of {len(tasks)} "
                         f"generated programs analysed, {cut['cutoff']} cut off while running, {cut['not-run']} not started "
                         "(no verdict for those)")
    ctx.extra["program_oracle"] = totals
    return found


# =========================================================================== main
def run(ctx):
    ctx.rule = ("cases = (a) generated comparison chains over constants / matched quantities / abs forms with all ten "
                "comparison operators, (b) cell headings and disturbance intervals (boundary angles ±pi, wraps, wide "
                "intervals), (c) voxel grids and pass-count arguments, retry loops with a stubbed conversion, dependency "
                "graphs for the cycle check, bound pairs for the relation inference, (d) generated Scenic programs "
                "(containment with offsets and random sizes, relative-heading requirements in every matched syntactic "
                "form, visibility with static and random observers, mesh containers) x accepted samples; a program is "
                "non-trivial when pruning conditioned at least one position; distinct by content hash")
    ctx.assumptions += [
        "shapely buffering / intersection, trimesh voxelisation and mesh booleans are not modelled; their "
        "over-approximation claims are checked on the real code by the program oracle and the buffer probes",
        "angles in the Lean model are rationals with an arbitrary positive half-turn P (the correspondence run uses "
        "P = Fraction(math.pi)); relative headings equal to ±pi (a null set) are excluded from cell_pair_kept",
        "the conditional-distribution theorem is for finite weighted outcome lists (atomic model of uniform sampling)",
        "the voxel theorems are for a voxel list covering the region on an unbounded grid (VoxelRegion.dilation is "
        "compared with that model on every run; trimesh's voxelisation covering the mesh is checked by the probes)",
    ]
    ctx.trusted_base += ["tools/translate/pruning.py (template extraction with holes)",
                         "tools/props/c08.py (correspondence harness, program generator, sample-in-region oracle)"]
    ctx.fingerprint(FINGERPRINTS)
    if os.environ.get("C08_DEV_QUICK"):  # development only (mutation tests on scratch worktrees)
        ctx.budget = lambda quick, thorough: quick
    from translate import pruning as tr
    gen, lost = tr.extract_partial()
    for part, err in lost:
        # the part's data falls back to the values of the pinned source (never to a stale file of an earlier run);
        # the tie for it then rests on the correspondence runs and the program oracle at thorough budget
        ctx.escalated.append(f"translator tie lost ({part}): {err}")
        ctx.notes.append(f"translator tie lost ({part}): {err}; pinned data used for this part")
    ctx.gen("Pruning", tr.to_lean(gen))
    pr = ctx.prove(THEOREMS, side_conditions=SIDE)
    if ctx.tier == "thorough" and pr.build_ok:
        ctx.leanchecker(MODULES)
    ctx.extra["generated"] = {"erodeLoop": gen["erodeLoop"], "bufferLoop": gen["bufferLoop"],
                              "dilateCount": gen["dilateCount"], "dilationPads": gen["dilationPads"],
                              "rh": gen["rh"], "boundOps": gen["dispatch"]["boundOps"]}
    found = False
    handle = programs_start(ctx)
    try:
        found |= corr_bounds(ctx)
        found |= corr_heading(ctx)
        found |= corr_voxels(ctx, gen)
        found |= corr_loops(ctx, gen)
        found |= corr_glue(ctx, gen)
        found |= programs_finish(ctx, handle)
        found |= erode_trigger(ctx, gen)
    finally:
        pool().close()
    ctx.resolve_brokens(found)


def replay(ctx, path):
    """Re-execute one recorded input against the real code of $SCENIC_REPO; exit 1 (and a VIOLATION line) iff the
    recorded violation reproduces."""
    body = json.load(open(path))
    rep = body.get("replay", body)
    kind = rep.get("kind")
    import scenic  # noqa
    bad, text = False, ""
    try:
        if kind == "program":
            print(rep["code"])
            task = {"code": rep["code"], "seed": rep["seed"], "iters": rep["iters"], "want": rep["want"],
                    "seconds": rep.get("seconds", 60), "family": rep.get("family", "program")}
            r = run_isolated("analyse", task, 1800)
            print(json.dumps({k: v for k, v in r.items() if k not in ("margins",)}, indent=1, default=str)[:4000])
            verdicts, label = judge_program(task, r)
            bad = bool(verdicts)
            text = "; ".join(f"[{k}] {w}" for k, w in verdicts) or f"program outcome: {label}"
        elif kind == "bounds":
            bad, text = bounds_verdict(rep)
        elif kind == "rh":
            bad, text = rh_verdict(rep)
        elif kind == "rhkept":
            bad, text = rhkept_verdict(rep)
        elif kind == "morph":
            bad, text, _ = morph_verdict(rep)
        elif kind in ("erodeit", "dilateit"):
            bad, text, _, _ = passes_verdict(rep)
        elif kind == "bufferover":
            bad, text = bufferover_verdict(rep)
        elif kind == "erode-loop":
            r = run_isolated("erode_loop", rep, 600)
            bad = bool(r.get("nonterminating"))
            text = f"pruneContainment with the recorded container: {r}"
        elif kind in GLUE_VERDICTS:
            bad, text = GLUE_VERDICTS[kind](rep)
        else:
            print(json.dumps(rep, indent=1)[:3000])
            print("nothing to re-execute (no concrete input recorded)")
            return 0
    finally:
        pool().close()
    print(text)
    if bad:
        print(f"VIOLATION property=C08 replay={path}")
        return 1
    print(f"OK property=C08 replay={path}: the recorded input does not violate the property on {ctx.repo}")
    return 0


WORKER_FNS.update(analyse=analyse, erode_loop=_erode_loop_child)

if __name__ == "__main__" and "--worker" in sys.argv:
    _worker_main()
