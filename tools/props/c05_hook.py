"""Imported by the Scenic programs that tools/props/c05.py generates.

`record(i, value)` hands the raw compile-time object of an expression (before `param` wraps it with toDistribution)
back to the check.  `make_leaves(sources)` creates the primitive distributions an expression is built from with
the very constructors a Scenic program sees (the names exported by scenic.syntax.veneer) and exposes them as the
module attributes x0, x1, ... so that a program can import them: parsing one more assignment statement per leaf
with Scenic's parser costs more than everything else in the check."""
RECORDED = {}


def record(i, value):
    RECORDED[i] = value
    return value


def reset():
    RECORDED.clear()
    for k in [k for k in globals() if k[0] == "x" and k[1:].isdigit()]:
        del globals()[k]


def make_leaves(sources):
    import scenic.syntax.veneer as veneer
    ns = {k: getattr(veneer, k) for k in veneer.__all__ if hasattr(veneer, k)}
    out = []
    for i, s in enumerate(sources):
        obj = eval(s, ns)
        globals()[f"x{i}"] = obj
        RECORDED[f"L{i}"] = obj
        out.append(obj)
    return out
