"""C04 — object overlap and containment tests agree with exact solid geometry.

Proof:  lean/ScenicModel/Props/C04*.lean — every exit of the five-pass `intersects` / `containsObject`, of the
        planar-box fast paths, of the footprint test and of `minimumDistanceTo` returns the ground truth, for all
        solids / observations satisfying the stated oracle contracts (`intersects_correct`, `containsObject_correct`,
        `objectIntersects_correct`, `footprintContains_correct`, `min_dist_sign`, `planar_box_iff`); soundness of the
        exact-rational certificate checkers (`sat_certificate_sound`, `witness_sound`, `contain_sound`, ...).
Tie:    (T) translate/solid.py regenerates the comparators / operands / connectives / constants of every pass into
        Gen/Solid.lean; the side conditions `gen_*_sound` are re-proved on that data.
        (C) the compiled Lean decision trees are run on the observation vectors read from the real objects and must
        give the real answer through an exit consistent with the calls the real code was seen to make; every
        observation is checked against its contract with the exact oracle; every oracle verdict's certificate is
        re-checked by the proved Lean checkers.
        (S) the real `intersects` / `containsObject` / `in` / `minimumDistanceTo` against the certified three-valued
        exact-rational oracle (pure Python Fractions), near-touching configurations excluded by an exact margin.
"""
import json
import math
import os
import random
import sys
import time
from fractions import Fraction as Fr

from vlib.ctx import Infra, TemplateMismatch

THEOREMS = [
    "Scenic.C04.intersects_correct",
    "Scenic.C04.intersects_eq_exhaustive",
    "Scenic.C04.containsObject_correct",
    "Scenic.C04.containsObject_eq_exhaustive",
    "Scenic.C04.footprintContains_correct",
    "Scenic.C04.isPlanarBox_sound",
    "Scenic.C04.objectIntersects_correct",
    "Scenic.C04.min_dist_sign",
    "Scenic.C04.volumeMinimumDistance_correct",
    "Scenic.C04.isConvexFlag_sound",
    "Scenic.C04.circumradius_bounds",
    "Scenic.Solid.intersects_correct",
    "Scenic.Solid.containsObject_correct",
    "Scenic.Solid.planar_box_iff",
    "Scenic.Solid.planar_gap",
    "Scenic.Solid.volumeMinimumDistance_correct",
    "Scenic.Solid.circumradius_bounds",
    "Scenic.Solid.rigid_preserves_distSq",
    "Scenic.Solid.rigid_radius_transfers",
    "Scenic.SolidLemmas.spheres_apart_disjoint",
    "Scenic.SolidLemmas.inballs_overlap_intersect",
    "Scenic.SolidLemmas.ball_chain_subset",
    "Scenic.SolidLemmas.far_point_not_subset",
    "Scenic.SolidLemmas.convex_contains_of_vertices",
    "Scenic.SolidLemmas.hull_subset_closedBall",
    "Scenic.SolidLemmas.coordinate_separation_disjoint",
    "Scenic.Solid.sat_certificate_sound",
    "Scenic.Solid.witness_sound",
    "Scenic.Solid.distLower_sound",
    "Scenic.Solid.distUpper_sound",
    "Scenic.Solid.contain_sound",
    "Scenic.Solid.notContain_sound",
    "Scenic.Solid.union_disjoint_sound",
    "Scenic.Solid.union_witness_sound",
    "Scenic.Solid.union_contain_sound",
    "Scenic.Solid.union_notContain_sound",
    "Scenic.Solid.union_distLower_sound",
    "Scenic.Solid.hullSep_sound",
    "Scenic.Solid.hullWitness_sound",
    "Scenic.Solid.hullDistLower_sound",
    "Scenic.Solid.hullDistUpper_sound",
    "Scenic.Solid.hullInBox_sound",
    "Scenic.Solid.hullNotInUnion_sound",
    "Scenic.Solid.corners_in_box",
    "Scenic.Solid.scaled_normSq_le",
    "Scenic.Solid.fallback_position_bound",
    "Scenic.Solid.fallback_origin_not_bound",
    # round 4: volume vs surface, volume vs footprint (slab + one-entry cache, all histories), region in region
    "Scenic.C04.intersectsSurface_correct",
    "Scenic.C04.slabHistory_covers",
    "Scenic.C04.intersectsFootprint_correct",
    "Scenic.C04.containsRegionInner_correct",
    "Scenic.Solid.intersectsSurface_correct",
    "Scenic.Solid.approxBound_cache",
    "Scenic.Solid.approxBound_covers",
    "Scenic.Solid.footprintSlab_covers",
    "Scenic.Solid.slabHistory_covers",
    "Scenic.Solid.intersectsFootprint_correct",
    "Scenic.Solid.containsRegionInner_correct",
]
SIDE = [
    "Scenic.C04.gen_intersect_sound",
    "Scenic.C04.gen_contain_sound",
    "Scenic.C04.gen_foot_sound",
    "Scenic.C04.gen_planar_sound",
    "Scenic.C04.gen_obj_sound",
    "Scenic.C04.gen_dist_sound",
    "Scenic.C04.gen_voldist_sound",
    "Scenic.C04.gen_convex_sound",
    "Scenic.C04.gen_fallback_center",
    "Scenic.C04.gen_surf_sound",
    "Scenic.C04.gen_slab_sound",
    "Scenic.C04.gen_inner_sound",
]
MODULES = ["ScenicModel.Props.C04", "ScenicModel.Props.C04Tree", "ScenicModel.Props.C04Planar", "ScenicModel.Props.C04Geo", "ScenicModel.Props.C04Surf"]

R = "src/scenic/core/regions.py"
O = "src/scenic/core/object_types.py"
FINGERPRINTS = {
    "MeshVolumeRegion.intersects": (R, "MeshVolumeRegion.intersects"),
    "MeshVolumeRegion.containsObject": (R, "MeshVolumeRegion.containsObject"),
    "MeshVolumeRegion.containsPoint": (R, "MeshVolumeRegion.containsPoint"),
    "MeshVolumeRegion._containsPointExact": (R, "MeshVolumeRegion._containsPointExact"),
    "MeshVolumeRegion.minimumDistanceTo": (R, "MeshVolumeRegion.minimumDistanceTo"),
    "MeshVolumeRegion.distanceTo": (R, "MeshVolumeRegion.distanceTo"),
    "MeshVolumeRegion.intersect": (R, "MeshVolumeRegion.intersect"),
    "MeshVolumeRegion.difference": (R, "MeshVolumeRegion.difference"),
    "MeshVolumeRegion._circumradius": (R, "MeshVolumeRegion._circumradius"),
    "MeshVolumeRegion._interiorPoint": (R, "MeshVolumeRegion._interiorPoint"),
    "MeshVolumeRegion._interiorPointRadii": (R, "MeshVolumeRegion._interiorPointRadii"),
    "MeshVolumeRegion._bodyCount": (R, "MeshVolumeRegion._bodyCount"),
    "MeshVolumeRegion._fclData": (R, "MeshVolumeRegion._fclData"),
    "MeshVolumeRegion._fclDistanceData": (R, "MeshVolumeRegion._fclDistanceData"),
    "MeshVolumeRegion.union": (R, "MeshVolumeRegion.union"),
    "MeshRegion.__init__": (R, "MeshRegion.__init__"),
    "MeshVolumeRegion.isConvex": (R, "MeshVolumeRegion.isConvex"),
    "MeshVolumeRegion.num_samples": (R, "MeshVolumeRegion.num_samples"),
    "MeshRegion.mesh": (R, "MeshRegion.mesh"),
    "MeshRegion._transform": (R, "MeshRegion._transform"),
    "MeshRegion._shapeTransform": (R, "MeshRegion._shapeTransform"),
    "MeshRegion._boundingPolygon": (R, "MeshRegion._boundingPolygon"),
    "MeshRegion._boundingPolygonHull": (R, "MeshRegion._boundingPolygonHull"),
    "PolygonalFootprintRegion.containsObject": (R, "PolygonalFootprintRegion.containsObject"),
    "PolygonalFootprintRegion.approxBoundFootprint": (R, "PolygonalFootprintRegion.approxBoundFootprint"),
    "PolygonalFootprintRegion.boundFootprint": (R, "PolygonalFootprintRegion.boundFootprint"),
    "MeshVolumeRegion.containsRegionInner": (R, "MeshVolumeRegion.containsRegionInner"),
    "SurfaceCollisionTrimesh": (R, "SurfaceCollisionTrimesh"),
    "Region.__contains__": (R, "Region.__contains__"),
    "Object.intersects": (O, "Object.intersects"),
    "Object.minimumDistanceTo": (O, "Object.minimumDistanceTo"),
    "Object._isPlanarBox": (O, "Object._isPlanarBox"),
    "Object._boundingPolygon": (O, "Object._boundingPolygon"),
    "Object.occupiedSpace": (O, "Object.occupiedSpace"),
    "Object._scaledShape": (O, "Object._scaledShape"),
    "Object.boundingBox": (O, "Object.boundingBox"),
    "shapes.Shape": ("src/scenic/core/shapes.py", "Shape"),
    "shapes.MeshShape": ("src/scenic/core/shapes.py", "MeshShape"),
    "utils.findMeshInteriorPoint": ("src/scenic/core/utils.py", "findMeshInteriorPoint"),
}

MARGIN = Fr(1, 1000)      # configurations within this margin of touching are UNDECIDED and never compared
TALL = Fr(10 ** 4)        # half-height of the boxes standing for a footprint cylinder
DIST_TOL = 2e-5           # accepted |reported distance - certified gap|  (FCL's GJK tolerance is 1e-6)


# =========================================================================== exact rational geometry
def fr(x):
    return x if isinstance(x, Fr) else Fr(x)


def vadd(a, b):
    return (a[0] + b[0], a[1] + b[1], a[2] + b[2])


def vsub(a, b):
    return (a[0] - b[0], a[1] - b[1], a[2] - b[2])


def vscale(t, a):
    return (t * a[0], t * a[1], t * a[2])


def vdot(a, b):
    return a[0] * b[0] + a[1] * b[1] + a[2] * b[2]


def vcross(a, b):
    return (a[1] * b[2] - a[2] * b[1], a[2] * b[0] - a[0] * b[2], a[0] * b[1] - a[1] * b[0])


def quat_matrix(q):
    """exactly orthonormal rational rotation matrix of the (non-normalised) quaternion (w, x, y, z); columns returned"""
    w, x, y, z = (fr(t) for t in q)
    n = w * w + x * x + y * y + z * z
    rows = (
        ((w * w + x * x - y * y - z * z) / n, 2 * (x * y - w * z) / n, 2 * (x * z + w * y) / n),
        (2 * (x * y + w * z) / n, (w * w - x * x + y * y - z * z) / n, 2 * (y * z - w * x) / n),
        (2 * (x * z - w * y) / n, 2 * (y * z + w * x) / n, (w * w - x * x - y * y + z * z) / n),
    )
    return rows


def mat_vec(rows, v):
    return tuple(vdot(r, v) for r in rows)


def rat(x):
    x = fr(x)
    return f"{x.numerator}/{x.denominator}"


class XBox:
    """oriented box: centre c, orthonormal rational axes u[k], half extents h[k]"""

    def __init__(self, c, u, h):
        self.c, self.u, self.h = tuple(c), tuple(u), tuple(h)
        self.a = tuple(vscale(h[k], u[k]) for k in range(3))

    def grow(self, m):
        return XBox(self.c, self.u, tuple(hk + m for hk in self.h))

    def shrinkable(self, m):
        return all(hk > 2 * m for hk in self.h)

    def corners(self):
        out = []
        for s0 in (1, -1):
            for s1 in (1, -1):
                for s2 in (1, -1):
                    out.append(vadd(self.c, vadd(vscale(s0, self.a[0]), vadd(vscale(s1, self.a[1]), vscale(s2, self.a[2])))))
        return out

    def has(self, x):
        d = vsub(x, self.c)
        return all(abs(vdot(d, self.a[k])) <= vdot(self.a[k], self.a[k]) for k in range(3))

    def coeffs(self, n):
        """n = sum_k coeffs[k] * a[k]   (the axes are orthogonal)"""
        return tuple(vdot(n, self.a[k]) / vdot(self.a[k], self.a[k]) for k in range(3))

    def support(self, t):
        return sum(abs(t[k]) * vdot(self.a[k], self.a[k]) for k in range(3))

    def tokens(self):
        return " ".join(rat(t) for v in (self.c,) + self.a for t in v)

    def point(self, t):
        return vadd(self.c, vadd(vscale(t[0], self.a[0]), vadd(vscale(t[1], self.a[1]), vscale(t[2], self.a[2]))))


def vtok(v):
    return " ".join(rat(t) for t in v)


def sep_gap(A, B, n):
    al, be = A.coeffs(n), B.coeffs(n)
    return vdot(n, vsub(B.c, A.c)) - A.support(al) - B.support(be), al, be


def candidate_axes(A, B):
    axes = list(A.u) + list(B.u)
    for i in range(3):
        for j in range(3):
            c = vcross(A.u[i], B.u[j])
            if any(c):
                axes.append(c)
    return axes


def box_sep(A, B):
    """-> (n, alpha, beta, gap) with the largest positive normalised gap over the 15 SAT axes, or None"""
    best = None
    for n in candidate_axes(A, B):
        for s in (1, -1):
            ns = vscale(s, n)
            g, al, be = sep_gap(A, B, ns)
            if g > 0:
                q = g * g / vdot(ns, ns)
                if best is None or q > best[4]:
                    best = (ns, al, be, g, q)
    return best


def chebyshev_point(boxes):
    """float LP: a point deep inside the intersection of the boxes (or None)"""
    import numpy as np
    from scipy.optimize import linprog
    rows, rhs = [], []
    for b in boxes:
        c = [float(t) for t in b.c]
        for k in range(3):
            u = [float(t) for t in b.u[k]]
            h = float(b.h[k])
            cu = sum(ci * ui for ci, ui in zip(c, u))
            rows.append(u + [1.0]); rhs.append(cu + h)
            rows.append([-t for t in u] + [1.0]); rhs.append(-cu + h)
    res = linprog([0, 0, 0, -1.0], A_ub=np.array(rows), b_ub=np.array(rhs), bounds=[(None, None)] * 3 + [(0, 100.0)], method="highs")
    if res.status != 0 or res.x[3] <= 0:
        return None
    return tuple(Fr(float(t)).limit_denominator(10 ** 9) for t in res.x[:3])


class Verdict:
    def __init__(self, kind, certs=()):
        self.kind = kind          # 'YES' | 'NO' | 'UNDECIDED'
        self.certs = list(certs)  # driver lines that must all answer "1"


def overlap_verdict(As, Bs, m=MARGIN):
    """YES = the unions share a point with depth > m (witness); NO = every pair separated by > 2m (axes)."""
    if any(isinstance(X, XHull) for X in list(As) + list(Bs)):
        return overlap_verdict_hull(As, Bs, m)
    certs = []
    all_sep = True
    for A in As:
        for B in Bs:
            s = box_sep(A.grow(m), B.grow(m))
            if s is None:
                all_sep = False
                break
            n, al, be, g, q = s
            certs.append(f"sep {A.grow(m).tokens()} {B.grow(m).tokens()} {vtok(n)} {vtok(al)} {vtok(be)}")
        if not all_sep:
            break
    if all_sep:
        return Verdict("NO", certs)
    for A in As:
        for B in Bs:
            if not (A.shrinkable(m) and B.shrinkable(m)):
                continue
            Ash, Bsh = A.grow(-m), B.grow(-m)
            if box_sep(Ash, Bsh) is not None:
                continue
            x = chebyshev_point([Ash, Bsh])
            if x is not None and Ash.has(x) and Bsh.has(x):
                return Verdict("YES", [f"wit {Ash.tokens()} {Bsh.tokens()} {vtok(x)}"])
    return Verdict("UNDECIDED")


def contain_verdict(As, Bs, m=MARGIN):
    """is union(Bs) inside union(As)?  YES: every piece of Bs, grown by m, inside one piece of As.
    NO: a point of a piece of Bs shrunk by m outside every piece of As grown by m."""
    if any(isinstance(X, XHull) for X in list(As) + list(Bs)):
        return contain_verdict_hull(As, Bs, m)
    certs = []
    ok = True
    for B in Bs:
        Bg = B.grow(m)
        found = False
        for A in As:
            betas = [Bg.coeffs(A.a[k]) for k in range(3)]
            if all(abs(vdot(vsub(Bg.c, A.c), A.a[k])) + Bg.support(betas[k]) <= vdot(A.a[k], A.a[k]) for k in range(3)):
                certs.append(f"cin {A.tokens()} {Bg.tokens()} " + " ".join(vtok(b) for b in betas))
                found = True
                break
        if not found:
            ok = False
            break
    if ok:
        return Verdict("YES", certs)
    Ag = [A.grow(m) for A in As]
    for B in Bs:
        if not B.shrinkable(m):
            continue
        Bsh = B.grow(-m)
        pts = Bsh.corners() + [Bsh.c]
        for k in range(3):
            for s in (1, -1):
                pts.append(vadd(Bsh.c, vscale(s, Bsh.a[k])))
        for x in pts:
            if not any(A.has(x) for A in Ag):
                return Verdict("NO", [f"has {Bsh.tokens()} {vtok(x)}"] + [f"nin {A.tokens()} {Bsh.tokens()} {vtok(x)}" for A in Ag])
    return Verdict("UNDECIDED")


def closest_points(A, B):
    """float bounded least squares -> exact rational points x in A, y in B (approximately closest)"""
    import numpy as np
    from scipy.optimize import lsq_linear
    M = np.array([[float(A.a[k][i]) for k in range(3)] + [-float(B.a[k][i]) for k in range(3)] for i in range(3)])
    d = np.array([float(B.c[i] - A.c[i]) for i in range(3)])
    res = lsq_linear(M, d, bounds=(-1, 1), method="bvls", tol=1e-14)
    z = [min(Fr(1), max(Fr(-1), Fr(float(t)).limit_denominator(10 ** 12))) for t in res.x]
    return A.point(z[:3]), B.point(z[3:])


def distance_bounds(As, Bs):
    """-> (lo2, hi2, certs): certified bounds on the squared gap between the unions (lo2 may be 0)"""
    certs = []
    lo2 = None
    hi2 = None
    hi_cert = None
    for A in As:
        for B in Bs:
            x, y = closest_points(A, B)
            d2 = vdot(vsub(y, x), vsub(y, x))
            if hi2 is None or d2 < hi2:
                hi2, hi_cert = d2, f"dhi {A.tokens()} {B.tokens()} {vtok(x)} {vtok(y)} {rat(d2)}"
            n = vsub(y, x)
            best = None
            cands = [n] if any(n) else []
            cands += candidate_axes(A, B)
            for c in cands:
                for s in (1, -1):
                    ns = vscale(s, c)
                    g, al, be = sep_gap(A, B, ns)
                    if g >= 0:
                        q = g * g / vdot(ns, ns)
                        if best is None or q > best[0]:
                            best = (q, ns, al, be)
            if best is None:
                pair_lo = Fr(0)
            else:
                pair_lo = best[0]
                certs.append(("pair", A, B, best))
            if lo2 is None or pair_lo < lo2:
                lo2 = pair_lo
    lines = []
    if lo2 is not None and lo2 > 0:
        for _, A, B, (q, ns, al, be) in certs:
            lines.append(f"dlo {A.tokens()} {B.tokens()} {vtok(ns)} {vtok(al)} {vtok(be)} {rat(lo2)}")
    lines.append(hi_cert)
    return lo2, hi2, lines



# =========================================================================== convex hulls (cylinders, cones, spheroids)
ROUND = ("cylinder", "cone", "spheroid")


class XHull:
    """convex polytope given by exact rational vertices (in the order of the real mesh) and its triangles"""

    def __init__(self, verts, faces):
        import numpy as np
        self.verts = [tuple(v) for v in verts]
        self.faces = [tuple(int(i) for i in f) for f in faces]
        n = len(self.verts)
        self.c = tuple(sum(v[i] for v in self.verts) / n for i in range(3))   # centroid: weights 1/n each
        self.fv = np.array([[float(t) for t in v] for v in self.verts])
        self.fc = np.array([float(t) for t in self.c])
        f = np.array(self.faces)
        a, b, c = self.fv[f[:, 0]], self.fv[f[:, 1]], self.fv[f[:, 2]]
        nrm = np.cross(b - a, c - a)
        ln = np.linalg.norm(nrm, axis=1)
        self.ok = ln > 1e-14
        self.fn = nrm / np.where(self.ok, ln, 1.0)[:, None]
        self.fb = np.einsum("ij,ij->i", self.fn, a)
        side = self.fb - self.fn @ self.fc          # orient every face plane away from the centroid
        flip = np.where(side < 0, -1.0, 1.0)
        self.fn, self.fb = self.fn * flip[:, None], self.fb * flip
        self.ok &= np.abs(side) > 1e-12

    def corners(self):
        return self.verts

    def depth(self, x):
        """float: distance from x to the nearest face plane (negative outside)"""
        import numpy as np
        return float(np.min((self.fb - self.fn @ np.array([float(t) for t in x]))[self.ok]))

    def vtokens(self):
        return f"{len(self.verts)} " + " ".join(rat(t) for v in self.verts for t in v)

    def weights(self, x):
        """exact convex weights of the rational point x (None if x is not inside): x is written in the
        tetrahedron spanned by the centroid and the face hit by the ray centroid -> x"""
        import numpy as np
        xf = np.array([float(t) for t in x])
        d = xf - self.fc
        n = len(self.verts)
        if float(np.linalg.norm(d)) < 1e-12:
            cands = [0]
        else:
            # faces ordered by how well the ray through x hits them
            denom = self.fn @ d
            with np.errstate(divide="ignore", invalid="ignore"):
                t = (self.fb - self.fn @ self.fc) / denom
            t[~self.ok | (denom <= 1e-15)] = np.inf
            cands = list(np.argsort(t)[:6])
        g = self.c
        for fi in cands:
            i, j, k = self.faces[fi]
            e1, e2, e3 = vsub(self.verts[i], g), vsub(self.verts[j], g), vsub(self.verts[k], g)
            det = vdot(e1, vcross(e2, e3))
            if det == 0:
                continue
            r = vsub(x, g)
            al = vdot(r, vcross(e2, e3)) / det
            be = vdot(e1, vcross(r, e3)) / det
            ga = vdot(e1, vcross(e2, r)) / det
            s0 = 1 - al - be - ga
            if al >= 0 and be >= 0 and ga >= 0 and s0 >= 0:
                w = [s0 / n] * n
                w[i] += al
                w[j] += be
                w[k] += ga
                return w
        return None


def as_hull(X):
    if isinstance(X, XHull):
        return X
    if not hasattr(X, "_hull"):
        c = X.corners()   # order: (+++), (++-), (+-+), (+--), (-++), (-+-), (--+), (---)
        quads = [(0, 1, 3, 2), (4, 6, 7, 5), (0, 4, 5, 1), (2, 3, 7, 6), (0, 2, 6, 4), (1, 5, 7, 3)]
        faces = []
        for q in quads:
            faces += [(q[0], q[1], q[2]), (q[0], q[2], q[3])]
        h = XHull(c, faces)
        X._hull = h
    return X._hull


def hull_sep(A, B, margin):
    """-> (n, lo, hi) exact, with (hi - lo) > 2*margin*|n|, or None  (float LP proposes n)"""
    import numpy as np
    from scipy.optimize import linprog
    na, nb = len(A.verts), len(B.verts)
    # variables n(3), a, b ; maximise b - a ; n.v <= a ; n.w >= b ; |n_i| <= 1
    Aub = np.zeros((na + nb, 5))
    Aub[:na, :3] = A.fv
    Aub[:na, 3] = -1
    Aub[na:, :3] = -B.fv
    Aub[na:, 4] = 1
    res = linprog([0, 0, 0, 1, -1], A_ub=Aub, b_ub=np.zeros(na + nb), bounds=[(-1, 1)] * 3 + [(None, None)] * 2, method="highs")
    if res.status != 0 or res.x[4] - res.x[3] <= 0:
        return None
    n = tuple(Fr(float(t)).limit_denominator(10 ** 6) for t in res.x[:3])
    if not any(n):
        return None
    lo = max(vdot(n, v) for v in A.verts)
    hi = min(vdot(n, w) for w in B.verts)
    if hi <= lo or (hi - lo) ** 2 <= (2 * margin) ** 2 * vdot(n, n):
        return None
    return n, lo, hi


def hull_common_point(A, B, margin):
    """-> (x, wa, wb) exact common point at float depth >= 2*margin in both, or None"""
    import numpy as np
    from scipy.optimize import linprog
    # Chebyshev centre of the intersection of the two H-representations (floats)
    rows = np.vstack([np.hstack([A.fn[A.ok], np.ones((int(A.ok.sum()), 1))]), np.hstack([B.fn[B.ok], np.ones((int(B.ok.sum()), 1))])])
    rhs = np.concatenate([A.fb[A.ok], B.fb[B.ok]])
    res = linprog([0, 0, 0, -1.0], A_ub=rows, b_ub=rhs, bounds=[(None, None)] * 3 + [(0, 100.0)], method="highs")
    if res.status != 0 or res.x[3] < 2 * float(margin):
        return None
    x = tuple(Fr(float(t)).limit_denominator(10 ** 9) for t in res.x[:3])
    if A.depth(x) < 2 * float(margin) or B.depth(x) < 2 * float(margin):
        return None
    wa, wb = A.weights(x), B.weights(x)
    if wa is None or wb is None:
        return None
    return x, wa, wb


def wtok(w):
    return " ".join(rat(t) for t in w)


def overlap_verdict_hull(As, Bs, m=MARGIN):
    certs, all_sep = [], True
    for A in As:
        for B in Bs:
            HA, HB = as_hull(A), as_hull(B)
            s = hull_sep(HA, HB, m)
            if s is None:
                all_sep = False
                break
            n, lo, hi = s
            certs.append(f"hsep {len(HA.verts)} {len(HB.verts)} {HA.vtokens().split(' ', 1)[1]} {HB.vtokens().split(' ', 1)[1]} {vtok(n)} {rat(lo)} {rat(hi)}")
        if not all_sep:
            break
    if all_sep:
        return Verdict("NO", certs)
    for A in As:
        for B in Bs:
            HA, HB = as_hull(A), as_hull(B)
            r = hull_common_point(HA, HB, m)
            if r is not None:
                x, wa, wb = r
                return Verdict("YES", [f"hwit {len(HA.verts)} {len(HB.verts)} {HA.vtokens().split(' ', 1)[1]} {HB.vtokens().split(' ', 1)[1]} {wtok(wa)} {wtok(wb)} {vtok(x)}"])
    return Verdict("UNDECIDED")


def contain_verdict_hull(As, Bs, m=MARGIN):
    """containers As are boxes; objects Bs are hulls (or boxes)"""
    if any(isinstance(A, XHull) for A in As):
        return Verdict("UNDECIDED")
    certs, ok = [], True
    for B in Bs:
        HB = as_hull(B)
        hit = None
        for A in As:
            if not A.shrinkable(m):
                continue
            Ash = A.grow(-m)
            if all(Ash.has(v) for v in HB.verts):
                hit = f"hinb {Ash.tokens()} {HB.vtokens()}"
                break
        if hit is None:
            ok = False
            break
        certs.append(hit)
    if ok:
        return Verdict("YES", certs)
    Ag = [A.grow(m) for A in As]
    for B in Bs:
        HB = as_hull(B)
        for i, v in enumerate(HB.verts):
            if not any(A.has(v) for A in Ag):
                w = [Fr(0)] * len(HB.verts)
                w[i] = Fr(1)
                return Verdict("NO", [f"hout {A.tokens()} {HB.vtokens()} {wtok(w)} {vtok(v)}" for A in Ag])
    return Verdict("UNDECIDED")


def distance_bounds_hull(real, As, Bs, regA, regB):
    """certified bounds on the squared gap; FCL's exact triangle-level BVH distance only *proposes* the nearest
    points (they are re-expressed exactly and verified by the certificates)"""
    import numpy as np
    fcl = real.fcl

    def bvh(reg):
        mm = reg.mesh
        g = fcl.BVHModel()
        g.beginModel(len(mm.faces), len(mm.vertices))
        g.addSubModel(mm.vertices, mm.faces)
        g.endModel()
        return fcl.CollisionObject(g, fcl.Transform())
    req = fcl.DistanceRequest(enable_nearest_points=True)
    res = fcl.DistanceResult()
    fcl.distance(bvh(regA), bvh(regB), req, res)
    p, q = (np.array(t, dtype=float) for t in res.nearest_points)

    def exact_on(pieces, pt):
        best = None
        for X in pieces:
            H = as_hull(X)
            # nearest face by float point-plane distance among faces whose plane is close
            d = np.abs(H.fb - H.fn @ pt)
            for fi in np.argsort(d)[:8]:
                i, j, k = H.faces[fi]
                a, b, c = H.fv[i], H.fv[j], H.fv[k]
                M = np.array([b - a, c - a]).T
                sol, *_ = np.linalg.lstsq(M, pt - a, rcond=None)
                u, v = float(sol[0]), float(sol[1])
                u, v = max(0.0, u), max(0.0, v)
                if u + v > 1:
                    u, v = u / (u + v), v / (u + v)
                err = float(np.linalg.norm(a + u * (b - a) + v * (c - a) - pt))
                if best is None or err < best[0]:
                    best = (err, H, (i, j, k), (u, v))
        err, H, (i, j, k), (u, v) = best
        uq, vq = Fr(u).limit_denominator(10 ** 12), Fr(v).limit_denominator(10 ** 12)
        if uq + vq > 1:
            vq = 1 - uq
        w = [Fr(0)] * len(H.verts)
        w[i] += 1 - uq - vq
        w[j] += uq
        w[k] += vq
        x = tuple(sum(w[t] * H.verts[t][c] for t in (i, j, k)) for c in range(3))
        return H, w, x
    HA, wa, x = exact_on(As, p)
    HB, wb, y = exact_on(Bs, q)
    d2 = vdot(vsub(y, x), vsub(y, x))
    lines = [f"hdhi {len(HA.verts)} {len(HB.verts)} {HA.vtokens().split(' ', 1)[1]} {HB.vtokens().split(' ', 1)[1]} {wtok(wa)} {wtok(wb)} {vtok(x)} {vtok(y)} {rat(d2)}"]
    n = vsub(y, x)
    lo2 = None
    pend = []
    if any(n):
        for A in As:
            for B in Bs:
                GA, GB = as_hull(A), as_hull(B)
                lo = max(vdot(n, v) for v in GA.verts)
                hi = min(vdot(n, w) for w in GB.verts)
                g2 = (hi - lo) ** 2 / vdot(n, n) if hi >= lo else Fr(0)
                if hi < lo:
                    s = hull_sep(GA, GB, Fr(0))
                    if s is not None:
                        n2, lo, hi = s
                        g2 = (hi - lo) ** 2 / vdot(n2, n2)
                        pend.append((GA, GB, n2, lo, hi))
                    else:
                        g2 = Fr(0)
                else:
                    pend.append((GA, GB, n, lo, hi))
                lo2 = g2 if lo2 is None or g2 < lo2 else lo2
    lo2 = lo2 or Fr(0)
    if lo2 > 0:
        for GA, GB, nn, lo, hi in pend:
            lines.append(f"hdlo {len(GA.verts)} {len(GB.verts)} {GA.vtokens().split(' ', 1)[1]} {GB.vtokens().split(' ', 1)[1]} {vtok(nn)} {rat(lo)} {rat(hi)} {rat(lo2)}")
    return lo2, d2, lines

# =========================================================================== solid specifications
QUATS_GENERIC = [(3, 1, 2, -1), (2, 1, 0, 1), (1, 1, 1, 1), (4, 1, -2, 2), (5, 2, 1, 3), (1, 2, 3, 4), (7, -1, 2, 0),
                 (3, 0, 1, 1), (2, -3, 1, 1), (9, 2, -1, 4), (1, 0, 2, 0), (2, 1, 0, 0), (6, 1, 1, 0), (8, 0, 3, -1)]
QUATS_YAW = [(1, 0, 0, 0), (2, 0, 0, 1), (3, 0, 0, 1), (3, 0, 0, -2), (1, 0, 0, 1), (5, 0, 0, 2), (7, 0, 0, -1), (4, 0, 0, 3)]
HALF = [Fr(1, 4), Fr(1, 2), Fr(3, 4), Fr(1), Fr(3, 2), Fr(2)]

# compound shapes: axis-aligned pieces (centre, half extents) in the mesh frame.  The pieces of the single-body shapes
# OVERLAP (they do not merely touch): a composed region `BoxRegion.union(BoxRegion)` of exactly touching, rotated
# boxes is a degenerate composition (see `touching_union_witness`).
COMPOUNDS = {
    "twobody": ("concat", [((Fr(-1), 0, 0), (Fr(1, 2), Fr(1, 2), Fr(1, 2))), ((Fr(1), 0, 0), (Fr(1, 2), Fr(1, 2), Fr(1, 2)))]),
    "threebody": ("concat", [((Fr(-3, 2), 0, 0), (Fr(1, 2), Fr(1), Fr(1, 2))), ((0, 0, 0), (Fr(1, 2), Fr(1, 2), Fr(1))),
                             ((Fr(3, 2), 0, Fr(1, 2)), (Fr(1, 2), Fr(1), Fr(1, 2)))]),
    "lshape": ("union", [((Fr(1), Fr(1, 2), Fr(1, 2)), (Fr(1), Fr(1, 2), Fr(1, 2))), ((Fr(1, 2), Fr(1), Fr(1, 2)), (Fr(1, 2), Fr(1), Fr(1, 2)))]),
    "ushape": ("union", [((0, Fr(-1), 0), (Fr(3, 2), Fr(1, 2), Fr(1, 2))), ((Fr(-1), 0, 0), (Fr(1, 2), Fr(3, 2), Fr(1, 2))),
                         ((Fr(1), 0, 0), (Fr(1, 2), Fr(3, 2), Fr(1, 2)))]),
    # the same L as two boxes that merely touch (only used by `touching_union_witness`)
    "lshape_touching": ("union", [((Fr(1), Fr(1, 2), Fr(1, 2)), (Fr(1), Fr(1, 2), Fr(1, 2))), ((Fr(1, 2), Fr(3, 2), Fr(1, 2)), (Fr(1, 2), Fr(1, 2), Fr(1, 2)))]),
}
GENERATED_COMPOUNDS = ["twobody", "threebody", "lshape", "ushape"]


def centred_pieces(name):
    how, pieces = COMPOUNDS[name]
    pieces = [(tuple(fr(t) for t in c), tuple(fr(t) for t in h)) for c, h in pieces]
    lo = [min(c[i] - h[i] for c, h in pieces) for i in range(3)]
    hi = [max(c[i] + h[i] for c, h in pieces) for i in range(3)]
    mid = tuple((lo[i] + hi[i]) / 2 for i in range(3))
    ext = tuple(hi[i] - lo[i] for i in range(3))
    return how, [(vsub(c, mid), h) for c, h in pieces], ext


def spec_offset(spec):
    """mesh-frame offset of a region built with centerMesh=False (mode region_offcenter); zero otherwise"""
    return tuple(fr(t) for t in spec.get("offset", (0, 0, 0)))


def spec_pieces(spec):
    """-> list of (centre, half extents) in the solid's own frame (bounding-box centre at the origin, plus the
    mesh-frame offset of an off-centre region)"""
    off = spec_offset(spec)
    if spec["shape"] == "box" or spec["shape"] in ROUND:
        return [(off, tuple(fr(t) for t in spec["half"]))]
    _, pieces, _ = centred_pieces(spec["shape"])
    s = fr(spec.get("scale", 1))
    return [(vadd(off, vscale(s, c)), vscale(s, h)) for c, h in pieces]


_UNIT = {}


def unit_mesh(shape):
    """vertices (exact rationals of the floats) and faces of Scenic's unit-scaled shape mesh"""
    if shape not in _UNIT:
        from scenic.core import shapes
        sh = {"cylinder": shapes.CylinderShape, "cone": shapes.ConeShape, "spheroid": shapes.SpheroidShape}[shape]()
        _UNIT[shape] = (sh, [tuple(Fr(float(t)) for t in v) for v in sh.mesh.vertices], [tuple(int(i) for i in f) for f in sh.mesh.faces])
    return _UNIT[shape]


def exact_solid(spec):
    rows = quat_matrix(spec["quat"])
    u = tuple(tuple(rows[i][k] for i in range(3)) for k in range(3))  # columns
    pos = tuple(fr(t) for t in spec["pos"])
    if spec["shape"] in ROUND:
        _, verts, faces = unit_mesh(spec["shape"])
        dims = [2 * fr(t) for t in spec["half"]]
        off = spec_offset(spec)
        return [XHull([vadd(pos, mat_vec(rows, vadd(off, (v[0] * dims[0], v[1] * dims[1], v[2] * dims[2])))) for v in verts], faces)]
    return [XBox(vadd(pos, mat_vec(rows, c)), u, h) for c, h in spec_pieces(spec)]


def is_convex_spec(spec):
    return spec["shape"] == "box" or spec["shape"] in ROUND


def spec_json(spec):
    return {"shape": spec["shape"], "half": [str(fr(t)) for t in spec.get("half", [])], "scale": str(fr(spec.get("scale", 1))),
            "pos": [str(fr(t)) for t in spec["pos"]], "quat": [int(t) for t in spec["quat"]], "mode": spec["mode"],
            "offset": [str(t) for t in spec_offset(spec)]}


def spec_from_json(j):
    return {"shape": j["shape"], "half": [Fr(t) for t in j.get("half", [])], "scale": Fr(j.get("scale", "1")),
            "pos": [Fr(t) for t in j["pos"]], "quat": tuple(j["quat"]), "mode": j["mode"],
            "offset": [Fr(t) for t in j.get("offset", ["0", "0", "0"])]}


# =========================================================================== real Scenic objects
class Real:
    """lazy imports and cached shapes"""

    def __init__(self):
        import numpy, trimesh, fcl, shapely  # noqa
        import scenic  # noqa
        from scenic.core import object_types, regions, shapes, vectors, distributions
        from scipy.spatial.transform import Rotation
        self.np, self.trimesh, self.fcl, self.shapely = numpy, trimesh, fcl, shapely
        self.ot, self.rg, self.sh, self.vec, self.dist = object_types, regions, shapes, vectors, distributions
        self.Rotation = Rotation
        self._meshes = {}
        self._shapes = {}

    def orientation(self, quat):
        w, x, y, z = quat
        n = math.sqrt(w * w + x * x + y * y + z * z)
        return self.vec.Orientation(self.Rotation.from_quat([x / n, y / n, z / n, w / n]))

    def compound_mesh(self, name, scale):
        key = (name, scale)
        if key not in self._meshes:
            how, pieces, _ = centred_pieces(name)
            boxes = []
            for c, h in pieces:
                b = self.trimesh.creation.box([float(2 * t * scale) for t in h])
                b.apply_translation([float(t * scale) for t in c])
                boxes.append(b)
            if how == "concat":
                mesh = self.trimesh.util.concatenate(boxes)
            else:
                mesh = self.trimesh.boolean.union(boxes, engine="manifold")
            if not mesh.is_volume:
                raise Infra(f"cannot build compound mesh {name}")
            self._meshes[key] = mesh
        return self._meshes[key]

    def shape(self, spec):
        if spec["shape"] == "box":
            if "box" not in self._shapes:
                self._shapes["box"] = self.sh.BoxShape()
            return self._shapes["box"]
        if spec["shape"] in ROUND:
            return unit_mesh(spec["shape"])[0]
        key = (spec["shape"], fr(spec.get("scale", 1)))
        if key not in self._shapes:
            self._shapes[key] = self.sh.MeshShape(self.compound_mesh(*key))
        return self._shapes[key]

    def dims(self, spec):
        if spec["shape"] == "box" or spec["shape"] in ROUND:
            return [float(2 * fr(t)) for t in spec["half"]]
        _, _, ext = centred_pieces(spec["shape"])
        return [float(t * fr(spec.get("scale", 1))) for t in ext]

    def build(self, spec):
        """-> (thing, region) : thing is an Object (modes object / object_noscale) or a MeshVolumeRegion (mode region)"""
        ori = self.orientation(spec["quat"])
        pos = self.vec.Vector(*[float(fr(t)) for t in spec["pos"]])
        w, l, h = self.dims(spec)
        if spec["mode"] == "region_union" and spec["shape"] != "box":
            # composed region: the union (mesh boolean) of one BoxRegion per piece
            rows = quat_matrix(spec["quat"])
            reg = None
            for c, hx in spec_pieces(spec):
                wc = vadd(tuple(fr(t) for t in spec["pos"]), mat_vec(rows, c))
                piece = self.rg.BoxRegion(dimensions=tuple(float(2 * t) for t in hx),
                                          position=self.vec.Vector(*[float(t) for t in wc]), rotation=ori)
                reg = piece if reg is None else reg.union(piece)
            return reg, reg
        if spec["mode"] == "region_offcenter":
            # a plain MeshVolumeRegion whose mesh is NOT centred on `position` (centerMesh=False): the solid is
            # position + R(mesh), the mesh lying `offset` away from the origin of its own frame
            if spec["shape"] == "box":
                mesh = self.trimesh.creation.box((w, l, h))
            else:
                mesh = self.compound_mesh(spec["shape"], fr(spec.get("scale", 1))).copy()
            mesh.apply_translation([float(t) for t in spec_offset(spec)])
            reg = self.rg.MeshVolumeRegion(mesh, position=pos, rotation=ori, centerMesh=False)
            return reg, reg
        if spec["mode"] in ("region", "region_union"):
            if spec["shape"] == "box":
                reg = self.rg.BoxRegion(dimensions=(w, l, h), position=pos, rotation=ori)
            else:
                reg = self.rg.MeshVolumeRegion(self.compound_mesh(spec["shape"], fr(spec.get("scale", 1))), position=pos, rotation=ori)
            return reg, reg
        planar = spec["quat"][1] == 0 and spec["quat"][2] == 0
        kw = dict(position=pos, shape=self.shape(spec), allowCollisions=True)
        if planar:
            kw["yaw"] = ori.yaw
        else:
            kw.update(yaw=ori.yaw, pitch=ori.pitch, roll=ori.roll)
        if spec["mode"] == "object_noscale":
            # a sample of an object with a random dimension has no precomputed `_scaledShape`
            par = self.ot.Object._with(width=self.dist.Range(w, w), length=l, height=h, **kw)
            obj = par.sample()
        else:
            obj = self.ot.Object._with(width=w, length=l, height=h, **kw)
        return obj, obj.occupiedSpace


class Trace:
    """records the calls the real code makes to its back-ends while answering one query"""

    def __init__(self, real):
        self.real = real
        self.log = []

    def __enter__(self):
        r = self.real
        MV = r.rg.MeshVolumeRegion
        PQ = r.trimesh.proximity.ProximityQuery
        self.saved = (r.fcl.collide, MV._containsPointExact, MV.intersect, MV.difference, r.trimesh.sample.volume_mesh,
                      MV.containsPoint, PQ.signed_distance)
        log = self.log
        oc, ocp, oi, od, ovm, ocpt, osd = self.saved
        depth = [0]      # > 0 while inside MeshVolumeRegion.containsPoint (its own signed-distance query is not an observation)

        def collide(a, b, *args, **kw):
            res = oc(a, b, *args, **kw)
            log.append(("collide", bool(res)))
            return res

        def cpe(self_, point):
            res = ocp(self_, point)
            log.append(("containsPointExact", id(self_), bool(res)))
            return res

        def intersect(self_, other, *a, **kw):
            res = oi(self_, other, *a, **kw)
            log.append(("intersect", type(res).__name__))
            return res

        def difference(self_, other, *a, **kw):
            res = od(self_, other, *a, **kw)
            log.append(("difference", type(res).__name__))
            return res

        def volume_mesh(mesh, count):
            res = ovm(mesh, count)
            log.append(("sample", id(mesh), [list(map(float, p)) for p in res[:1]]))
            return res

        def contains_point(self_, point, *a, **kw):
            depth[0] += 1
            try:
                res = ocpt(self_, point, *a, **kw)
            finally:
                depth[0] -= 1
            log.append(("containsPoint", id(self_), tuple(float(t) for t in point), bool(res)))
            return res

        def signed_distance(self_, points):
            res = osd(self_, points)
            if depth[0] == 0:
                log.append(("sd", id(self_._mesh), len(points), [float(t) for t in res]))
            return res

        r.fcl.collide = collide
        MV._containsPointExact = cpe
        MV.intersect = intersect
        MV.difference = difference
        r.trimesh.sample.volume_mesh = volume_mesh
        MV.containsPoint = contains_point
        PQ.signed_distance = signed_distance
        return self

    def __exit__(self, *exc):
        r = self.real
        MV = r.rg.MeshVolumeRegion
        (r.fcl.collide, MV._containsPointExact, MV.intersect, MV.difference, r.trimesh.sample.volume_mesh,
         MV.containsPoint, r.trimesh.proximity.ProximityQuery.signed_distance) = self.saved
        return False

    def names(self):
        return [e[0] for e in self.log]


class DistTrace:
    """records what `MeshVolumeRegion.minimumDistanceTo` reads: the value of fcl.distance, the kind of the two
    FCL geometries it was given, and the answer of the nested-volume test `self.intersects(other)` if evaluated"""

    def __init__(self, real):
        self.real = real
        self.fcl_dist = None
        self.geoms = None
        self.intersects = None

    def __enter__(self):
        r = self.real
        MV = r.rg.MeshVolumeRegion
        self.saved = (r.fcl.distance, MV.intersects, r.fcl.CollisionObject)
        od, oi, oco = self.saved
        kinds = {}

        def collision_object(geom, *a, **kw):
            obj = oco(geom, *a, **kw)
            kinds[id(obj)] = type(geom).__name__
            self._keep = getattr(self, "_keep", []) + [obj]
            return obj

        def distance(a, b, *args, **kw):
            res = od(a, b, *args, **kw)
            if self.fcl_dist is None:
                self.fcl_dist = float(res)
                self.geoms = (kinds.get(id(a), "?"), kinds.get(id(b), "?"))
            return res

        def intersects(self_, other, *a, **kw):
            res = oi(self_, other, *a, **kw)
            if self.intersects is None:
                self.intersects = bool(res)
            return res

        r.fcl.distance, MV.intersects, r.fcl.CollisionObject = distance, intersects, collision_object
        return self

    def __exit__(self, *exc):
        r = self.real
        r.fcl.distance, r.rg.MeshVolumeRegion.intersects, r.fcl.CollisionObject = self.saved
        return False


def b01(b):
    return "1" if b else "0"


def frf(x):
    return rat(Fr(float(x)))


# =========================================================================== observation vectors from the real objects
def intersect_obs(real, A, B, trace_log):
    """what `MeshVolumeRegion.intersects` reads, through the same attributes; values that the real run did not
    evaluate are returned as None (the model is then run with both fillings and must not depend on them)"""
    np = real.np
    o = {}
    o["centerDist"] = float(np.linalg.norm(A.position - B.position))
    o["circS"], o["circO"] = float(A._circumradius), float(B._circumradius)
    o["scaledS"], o["scaledO"] = bool(A._scaledShape), bool(B._scaledShape)
    if o["scaledS"] and o["scaledO"]:
        o["pointDist"] = float(np.linalg.norm(A._interiorPoint - B._interiorPoint))
        (o["inS"], o["pcircS"]), (o["inO"], o["pcircO"]) = map(lambda t: (float(t[0]), float(t[1])), (A._interiorPointRadii, B._interiorPointRadii))
        o["bbOverlap"] = None
    else:
        o["pointDist"] = o["inS"] = o["inO"] = o["pcircS"] = o["pcircO"] = 0.0
        ba, bb = A.mesh.bounds, B.mesh.bounds
        o["bbOverlap"] = all(ba[0, d] <= bb[1, d] and bb[0, d] <= ba[1, d] for d in range(3))
    col = [e for e in trace_log if e[0] == "collide"]
    o["collide"] = col[0][1] if col else None
    o["convexS"], o["convexO"] = bool(A.isConvex), bool(B.isConvex)
    o["bodiesS"], o["bodiesO"] = int(A._bodyCount), int(B._bodyCount)
    cpe = [e for e in trace_log if e[0] == "containsPointExact"]
    o["sHasO"] = next((e[2] for e in cpe if e[1] == id(A)), None)
    o["oHasS"] = next((e[2] for e in cpe if e[1] == id(B)), None)
    it = [e for e in trace_log if e[0] == "intersect"]
    o["boolEmpty"] = (it[0][1] == "EmptyRegion") if it else None
    return o


ISECT_ORDER = ["centerDist", "circS", "circO", "scaledS", "scaledO", "pointDist", "inS", "inO", "pcircS", "pcircO", "bbOverlap",
               "collide", "convexS", "convexO", "bodiesS", "bodiesO", "sHasO", "oHasS", "boolEmpty"]
ISECT_BOOL = {"scaledS", "scaledO", "bbOverlap", "collide", "convexS", "convexO", "sHasO", "oHasS", "boolEmpty"}
ISECT_INT = {"bodiesS", "bodiesO"}


def isect_lines(o):
    """one driver line per filling of the unobserved booleans (at most 2: all-false / all-true)"""
    out = []
    for fill in (False, True):
        toks = []
        for k in ISECT_ORDER:
            v = o[k]
            if k in ISECT_BOOL:
                toks.append(b01(fill if v is None else v))
            elif k in ISECT_INT:
                toks.append(str(v))
            else:
                toks.append(frf(v))
        out.append("isect " + " ".join(toks))
    return out


def isect_exit_class(names):
    if "intersect" in names:
        return {"p5"}
    if "containsPointExact" in names:
        return {"p4"}
    if "collide" in names:
        return {"p3Hit", "p3Convex"}
    return {"p1", "p2aIn", "p2aCirc", "p2b"}


def contain_obs(real, reg, obj, trace_log):
    """what `MeshVolumeRegion.containsObject` read during the traced call: point-containment answers and signed
    distances are taken from the trace (trimesh's inside test draws random ray directions on degenerate meshes, so
    recomputing them could observe something else); vertex radii are recomputed through the same numpy expressions"""
    np = real.np
    space = obj.occupiedSpace
    o = {}
    ba, bb = reg.mesh.bounds, space.mesh.bounds
    o["bbOverlap"] = all(ba[0, d] <= bb[1, d] and bb[0, d] <= ba[1, d] for d in range(3))
    o["convex"] = bool(reg.isConvex)
    o.update(minCornerSd=0.0, minVertexSd=0.0, candAvail=False, regionHasCand=None, objCirc=0.0, sdCand=0.0,
             regCandAvail=False, regCirc=0.0, objMaxDist=0.0, diffEmpty=None)
    if not o["bbOverlap"]:
        return o
    sds = [e for e in trace_log if e[0] == "sd" and e[1] == id(reg.mesh)]
    if o["convex"]:
        if not sds or sds[0][2] != len(obj.boundingBox.mesh.vertices):
            return None
        o["minCornerSd"] = min(sds[0][3])
        if len(sds) > 1:
            o["minVertexSd"] = min(sds[1][3])
        return o
    samples = [e for e in trace_log if e[0] == "sample"]
    cps = [e for e in trace_log if e[0] == "containsPoint"]
    pos = tuple(float(t) for t in obj.position)
    own = [e for e in cps if e[1] == id(space) and e[2] == pos]
    if not own:
        return None
    cand = None
    if own[0][3]:
        cand = obj.position
    else:
        s = [e for e in samples if e[1] == id(space.mesh)]
        if s and s[0][2]:
            cand = real.vec.Vector(*s[0][2][0])
        elif not s:
            return None
    regcps = [e for e in cps if e[1] == id(reg)]
    if cand is not None:
        o["candAvail"] = True
        ct = tuple(float(t) for t in cand)
        hit = [e for e in regcps if e[2] == ct]
        if not hit:
            return None
        o["regionHasCand"] = hit[0][3]
        regcps.remove(hit[0])
        o["objCirc"] = float(np.max(np.linalg.norm(space.mesh.vertices - np.array(cand), axis=1)))
        one = [e for e in sds if e[2] == 1]
        o["sdCand"] = one[0][3][0] if one else 0.0
    com = real.vec.Vector(*reg.mesh.bounding_box.center_mass)
    comt = tuple(float(t) for t in com)
    hit = [e for e in regcps if e[2] == comt]
    rc = None
    if hit and hit[0][3]:
        rc = com
    elif hit:
        s = [e for e in samples if e[1] == id(reg.mesh)]
        if s and s[0][2]:
            rc = real.vec.Vector(*s[0][2][0])
    if rc is not None:
        o["regCandAvail"] = True
        o["regCirc"] = float(np.max(np.linalg.norm(reg.mesh.vertices - np.array(rc), axis=1)))
        o["objMaxDist"] = float(np.max(np.linalg.norm(space.mesh.vertices - np.array(rc), axis=1)))
    d = [e for e in trace_log if e[0] == "difference"]
    o["diffEmpty"] = (d[0][1] == "EmptyRegion") if d else None
    return o


CONT_ORDER = ["bbOverlap", "convex", "minCornerSd", "minVertexSd", "candAvail", "regionHasCand", "objCirc", "sdCand",
              "regCandAvail", "regCirc", "objMaxDist", "diffEmpty"]
CONT_BOOL = {"bbOverlap", "convex", "candAvail", "regionHasCand", "regCandAvail", "diffEmpty"}


def cont_lines(o):
    out = []
    for fill in (False, True):
        toks = [b01(fill if o[k] is None else o[k]) if k in CONT_BOOL else frf(o[k]) for k in CONT_ORDER]
        out.append("cont " + " ".join(toks))
    return out


# =========================================================================== case generation
def rand_pos(rng, spread=3):
    return [Fr(rng.randint(-8 * spread, 8 * spread), 8) for _ in range(3)]


def rand_spec(rng, family, mode=None):
    shape = "box"
    if family == "round":
        shape = rng.choice(["cylinder", "cylinder", "cone", "cone", "spheroid"])
    if family in ("compound", "nonconvex_container"):
        shape = rng.choice(GENERATED_COMPOUNDS)
        if mode == "region_union" and rng.random() < 0.3:
            shape = "lshape_touching"     # a composition of two boxes that exactly touch
    quat = rng.choice(QUATS_YAW if family in ("planar", "axis") else QUATS_GENERIC + QUATS_YAW[:2])
    if family == "axis":
        quat = (1, 0, 0, 0)
    spec = {"shape": shape, "quat": quat, "pos": rand_pos(rng), "mode": mode or "object"}
    if shape == "box" or shape in ROUND:
        spec["half"] = [rng.choice(HALF) for _ in range(3)]
    else:
        spec["scale"] = rng.choice([Fr(1, 2), Fr(1), Fr(3, 2)])
    return spec


def unit_dirs():
    out = []
    for q in QUATS_GENERIC + QUATS_YAW:
        rows = quat_matrix(q)
        for k in range(3):
            out.append(tuple(rows[i][k] for i in range(3)))
    return out


DIRS = unit_dirs()
GAPS = [Fr(-1, 2), Fr(-1, 10), Fr(-1, 50), Fr(-1, 200), Fr(1, 200), Fr(1, 50), Fr(1, 10), Fr(1, 2), Fr(2)]


def place_with_gap(rng, sa, sb):
    """move sb so that, along a random rational unit direction d, the two bounding supports are `gap` apart"""
    A, B = exact_solid(sa), exact_solid(dict(sb, pos=[0, 0, 0]))
    d = rng.choice(DIRS)
    if rng.random() < 0.5:
        d = vscale(-1, d)
    supA = max(vdot(d, c) for X in A for c in X.corners())
    infB = min(vdot(d, c) for X in B for c in X.corners())
    gap = rng.choice(GAPS)
    t = supA + gap - infB
    # lateral offset so that the contact is not always centre to centre
    e = rng.choice(DIRS)
    lat = vsub(e, vscale(vdot(e, d), d))
    off = vscale(Fr(rng.randint(-4, 4), 8), lat)
    ca = tuple(fr(t_) for t_ in sa["pos"])
    base = vsub(ca, vscale(vdot(ca, d), d))  # component of A's centre orthogonal to d
    sb = dict(sb)
    sb["pos"] = list(vadd(vadd(base, vscale(t, d)), off))
    return sb, gap


OFFSETS = [Fr(0), Fr(2), Fr(-2), Fr(5), Fr(-5), Fr(8), Fr(-8)]


def offcentre(rng, spec):
    """the same solid written as a region whose mesh is not centred on `position` (centerMesh=False):
    position' = position + R t, mesh-frame offset = -t"""
    t = tuple(rng.choice(OFFSETS) for _ in range(3))
    if not any(t):
        t = (Fr(5), Fr(0), Fr(-2))
    rows = quat_matrix(spec["quat"])
    spec = dict(spec, mode="region_offcenter")
    spec["pos"] = list(vadd(tuple(fr(x) for x in spec["pos"]), mat_vec(rows, t)))
    spec["offset"] = [-x for x in t]
    return spec


def gen_pair(rng, family, real=None):
    """-> (specA, specB, tag); plain regions are, a third of the time, rewritten as off-centre regions
    (same solid, `position` away from the mesh) after the pair has been placed"""
    sa, sb, tag = gen_pair0(rng, family, real)
    if sa["mode"] == "region" and sa["shape"] not in ROUND and rng.random() < 0.35:
        sa = offcentre(rng, sa)
    if sb["mode"] == "region" and sb["shape"] not in ROUND and rng.random() < 0.35:
        sb = offcentre(rng, sb)
    return sa, sb, tag


def gen_pair0(rng, family, real=None):
    modes = ["object", "object", "object_noscale", "region"]
    if family == "planar":
        sa, sb = rand_spec(rng, "planar"), rand_spec(rng, "planar")
        kind = rng.choice(["zgap", "same_z", "slide"])
        if kind == "same_z":
            sb["pos"][2] = sa["pos"][2]
            sb, gap = place_with_gap_xy(rng, sa, sb)
            return sa, sb, "planar:same_z"
        if kind == "zgap":
            sb["pos"][0], sb["pos"][1] = sa["pos"][0] + Fr(rng.randint(-2, 2), 4), sa["pos"][1] + Fr(rng.randint(-2, 2), 4)
            g = rng.choice(GAPS)
            sb["pos"][2] = sa["pos"][2] + (sa["half"][2] + sb["half"][2] + g) * rng.choice([1, -1])
            return sa, sb, "planar:zgap"
        sb, gap = place_with_gap_xy(rng, sa, sb)
        sb["pos"][2] = sa["pos"][2] + Fr(rng.randint(-2, 2), 8)
        return sa, sb, "planar:slide"
    if family == "far":
        sa, sb = rand_spec(rng, "generic", rng.choice(modes)), rand_spec(rng, "generic", rng.choice(modes))
        sb["pos"] = [sa["pos"][0] + rng.choice([-1, 1]) * Fr(rng.randint(8, 20)), sa["pos"][1] + Fr(rng.randint(-5, 5)), sa["pos"][2]]
        return sa, sb, "far"
    if family == "nested":
        sa = rand_spec(rng, "generic", rng.choice(modes))
        sa["half"] = [rng.choice([Fr(3, 2), Fr(2), Fr(3)]) for _ in range(3)]
        sb = rand_spec(rng, "generic", rng.choice(modes))
        sb["half"] = [rng.choice([Fr(1, 8), Fr(1, 4), Fr(1, 2)]) for _ in range(3)]
        sb["pos"] = [sa["pos"][i] + Fr(rng.randint(-3, 3), 8) for i in range(3)]
        if rng.random() < 0.5:
            sa, sb = sb, sa
        return sa, sb, "nested"
    if family == "compound":
        sa = rand_spec(rng, "compound", rng.choice(["object", "object_noscale", "region", "region_union"]))
        sb = rand_spec(rng, rng.choice(["generic", "generic", "compound"]), rng.choice(modes))
        kind = rng.choice(["gap", "inside_hole", "slide"])
        if kind == "inside_hole":
            # a small box at the bounding-box centre of the compound (in the gap of twobody / notch of lshape, ushape)
            sb = rand_spec(rng, "generic", rng.choice(modes))
            sb["half"] = [rng.choice([Fr(1, 16), Fr(1, 8), Fr(1, 4)]) * fr(sa["scale"]) for _ in range(3)]
            rows = quat_matrix(sa["quat"])
            local = {"twobody": (0, 0, 0), "threebody": (Fr(3, 4), 0, Fr(-3, 4)), "lshape": (Fr(1, 2), Fr(1, 2), 0),
                     "lshape_touching": (Fr(1, 2), Fr(1, 2), 0), "ushape": (0, Fr(1, 2), 0)}[sa["shape"]]
            local = vscale(fr(sa["scale"]), tuple(fr(t) for t in local))
            sb["pos"] = list(vadd(tuple(fr(t) for t in sa["pos"]), mat_vec(rows, local)))
            return sa, sb, "compound:hole"
        sb, gap = place_with_gap(rng, sa, sb)
        return sa, sb, "compound:slide"
    if family == "round":
        # cylinders / cones / spheroids (through their mesh vertices) against each other and against boxes
        kind = rng.choice(["slide", "slide", "inside", "far"])
        sa = rand_spec(rng, rng.choice(["round", "round", "generic"]), rng.choice(["object", "object_noscale"]) )
        sb = rand_spec(rng, "round", rng.choice(["object", "object_noscale"]))
        if kind == "inside":
            sa = rand_spec(rng, "generic", rng.choice(["region", "object", "object_noscale"]))
            sa["half"] = [rng.choice([Fr(1), Fr(3, 2), Fr(2)]) for _ in range(3)]
            sb["half"] = [rng.choice([Fr(1, 8), Fr(1, 4), Fr(1, 2)]) for _ in range(3)]
            A = exact_solid(sa)[0]
            k = rng.randrange(3)
            d = vscale(rng.choice([1, -1]), A.u[k])
            B0 = exact_solid(dict(sb, pos=[0, 0, 0]))
            supB = max(vdot(d, c) for X in B0 for c in X.corners())
            t = vdot(A.c, d) + A.h[k] + rng.choice(GAPS) - supB
            sb["pos"] = list(vadd(vsub(A.c, vscale(vdot(A.c, d), d)), vscale(t, d)))
            return sa, sb, "round:inside"
        if kind == "far":
            sb["pos"] = [sa["pos"][0] + rng.choice([-1, 1]) * Fr(rng.randint(6, 12)), sa["pos"][1] + Fr(rng.randint(-3, 3)), sa["pos"][2]]
            return sa, sb, "round:far"
        sb, gap = place_with_gap(rng, sa, sb)
        return sa, sb, "round:slide"
    if family == "inside":
        # a small box near a face of one piece of a (convex or non-convex, possibly composed) container
        if rng.random() < 0.4:
            sa = rand_spec(rng, "generic", rng.choice(["region", "object", "object_noscale"]))
            sa["half"] = [rng.choice([Fr(1), Fr(3, 2), Fr(2)]) for _ in range(3)]
        else:
            sa = rand_spec(rng, "compound", rng.choice(["region", "region_union", "object", "object_noscale"]))
            sa["scale"] = rng.choice([Fr(1), Fr(3, 2), Fr(2)])
        A = exact_solid(sa)
        piece = rng.choice(A)
        sb = rand_spec(rng, "generic", rng.choice(["object", "object", "object_noscale"]))
        hmin = min(piece.h)
        sb["half"] = [hmin * rng.choice([Fr(1, 8), Fr(1, 6), Fr(1, 4)]) for _ in range(3)]
        if sa["shape"] != "box" and rng.random() < 0.2:
            # a long bar through the container: its far end leaves the container's bounding sphere (PASS 4 of containsObject)
            sb["half"][rng.randrange(3)] = fr(sa["scale"]) * rng.choice([Fr(3), Fr(4), Fr(6)])
        k = rng.randrange(3)
        d = vscale(rng.choice([1, -1]), piece.u[k])
        B0 = exact_solid(dict(sb, pos=[0, 0, 0]))
        supB = max(vdot(d, c) for X in B0 for c in X.corners())
        gap = rng.choice(GAPS)
        t = vdot(piece.c, d) + piece.h[k] + gap - supB
        p = vadd(vsub(piece.c, vscale(vdot(piece.c, d), d)), vscale(t, d))
        for j in range(3):
            if j != k:
                p = vadd(p, vscale(piece.h[j] * Fr(rng.randint(-3, 3), 8), piece.u[j]))
        sb["pos"] = list(p)
        return sa, sb, "inside:" + ("convex" if sa["shape"] == "box" else "nonconvex")
    if family == "compound_far" and real is not None and rng.random() < 0.6:
        # targeted: bounding spheres about the positions still touch, those about the interior points do not
        # (the second test of PASS 2A); found by trying a few poses with the real precomputed geometry
        np = real.np
        for _ in range(12):
            sa, sb = rand_spec(rng, "compound", "object"), rand_spec(rng, "compound", "object")
            sb["pos"] = list(sa["pos"])
            ra, rb = real.build(sa)[1], real.build(sb)[1]
            qa, qb = np.array(ra._interiorPoint), np.array(rb._interiorPoint)
            cs, co = float(ra._circumradius), float(rb._circumradius)
            pa, pb = float(ra._interiorPointRadii[1]), float(rb._interiorPointRadii[1])
            for d in rng.sample(DIRS, len(DIRS)):
                dv = np.array([float(x) for x in d])
                D = Fr((cs + co) * rng.choice([0.97, 0.99, 0.995])).limit_denominator(256)
                if np.linalg.norm(float(D) * dv + qb - qa) > pa + pb + 1e-6:
                    sb["pos"] = list(vadd(tuple(fr(t) for t in sa["pos"]), vscale(D, d)))
                    return sa, sb, "compound_far:interior-spheres-apart"
    if family == "compound_far":
        # two compound shapes whose bounding spheres about the positions just (do not) touch: passes 1 / 2A
        sa, sb = rand_spec(rng, "compound", "object"), rand_spec(rng, "compound", "object")
        A, B = exact_solid(sa), exact_solid(dict(sb, pos=[0, 0, 0]))
        ra = math.sqrt(max(float(vdot(vsub(c, tuple(fr(t) for t in sa["pos"])), vsub(c, tuple(fr(t) for t in sa["pos"])))) for X in A for c in X.corners()))
        rb = math.sqrt(max(float(vdot(c, c)) for X in B for c in X.corners()))
        f = rng.choice([0.6, 0.75, 0.85, 0.92, 0.97, 1.03])
        D = Fr(f * (ra + rb)).limit_denominator(64)
        d = rng.choice(DIRS)
        sb["pos"] = list(vadd(tuple(fr(t) for t in sa["pos"]), vscale(D, d)))
        return sa, sb, "compound_far"
    # generic / axis: slide to a prescribed gap
    sa, sb = rand_spec(rng, family, rng.choice(modes)), rand_spec(rng, family, rng.choice(modes))
    sb, gap = place_with_gap(rng, sa, sb)
    return sa, sb, f"{family}:slide"


def place_with_gap_xy(rng, sa, sb):
    """as place_with_gap but with a horizontal direction (keeps z)"""
    A, B = exact_solid(sa), exact_solid(dict(sb, pos=[0, 0, sb["pos"][2]]))
    d = rng.choice([d_ for d_ in DIRS if d_[2] == 0])
    supA = max(vdot(d, c) for X in A for c in X.corners())
    infB = min(vdot(d, c) for X in B for c in X.corners())
    gap = rng.choice(GAPS)
    t = supA + gap - infB
    lat = (-d[1], d[0], Fr(0))
    ca = A[0].c
    base = vadd(vscale(vdot(ca, lat), lat), vscale(Fr(rng.randint(-3, 3), 8), lat))
    p = vadd(base, vscale(t, d))
    sb = dict(sb)
    sb["pos"] = [p[0], p[1], sb["pos"][2]]
    return sb, gap


FAMILIES = ["generic", "generic", "generic", "axis", "planar", "planar", "nested", "compound", "compound", "far",
            "inside", "inside", "inside", "compound_far", "round", "round"]


# =========================================================================== contracts of the observations (exact)
def check_observation_contracts(ctx, real, tag, spec, thing, region, solid, viol, lean_jobs):
    """`_circumradius` is an upper bound about `position`; the interior point is interior with the stated inradius;
    body count and convexity flags are those of the constructed shape."""
    np = real.np
    pos = tuple(Fr(float(t)) for t in region.position)
    verts = [c for X in solid for c in X.corners()]
    r = Fr(float(region._circumradius))
    far2 = max(vdot(vsub(v, pos), vsub(v, pos)) for v in verts)
    composed = spec["mode"] == "region_union"
    slack = Fr(1, 10 ** 5) if composed else Fr(1, 10 ** 7)
    if (r + slack) ** 2 < far2:
        viol("circumradius-not-upper-bound:" + ("fallback" if spec["mode"].startswith("region") else spec["mode"]),
             f"_circumradius={float(r)} is smaller than the farthest vertex from position ({math.sqrt(float(far2))})")
    ctx.hist("contract", "circumradius-upper-bound")
    precomputed_correspondence(ctx, real, region, lean_jobs)
    if not composed and int(region._bodyCount) != (len(solid) if COMPOUNDS.get(spec["shape"], ("", 0))[0] == "concat" else 1):
        viol("bodycount:" + spec["shape"], f"_bodyCount={region._bodyCount} for shape {spec['shape']}")
    if bool(region.isConvex) != is_convex_spec(spec):
        viol("isconvex-wrong:" + ("composed" if composed else spec["mode"]) + ":" + ("says-convex" if region.isConvex else "says-nonconvex"),
             f"isConvex={region.isConvex} for shape {spec['shape']} ({spec['mode']}; mesh volume {region.mesh.volume}, "
             f"convex hull volume {region.mesh.convex_hull.volume})")
    p = tuple(Fr(float(t)) for t in region._interiorPoint)
    inr, circ = (Fr(float(t)) for t in region._interiorPointRadii)
    if any(isinstance(X, XHull) for X in solid):
        H = solid[0]
        if H.depth(p) < float(inr) - 1e-7:
            viol("inradius-too-large:" + spec["shape"], f"ball of radius {float(inr)} about the interior point leaves the solid (depth {H.depth(p)})")
        else:
            ctx.hist("contract", "inball-inside")
        if any(vdot(vsub(v, p), vsub(v, p)) > (circ + slack) ** 2 for v in verts):
            viol("point-circumradius-too-small:" + spec["shape"], "a vertex is further from the interior point than the stated circumradius")
        return
    inside = [X for X in solid if X.has(p)]
    if not inside:
        viol("interior-point-outside:" + spec["shape"], f"_interiorPoint {tuple(map(float, p))} is not inside the solid")
    else:
        # inscribed ball inside one piece (sufficient); a ball spanning several pieces is left undecided
        ok = any(all(abs(vdot(vsub(p, X.c), X.u[k])) + inr <= X.h[k] + slack for k in range(3)) for X in inside)
        if ok:
            ctx.hist("contract", "inball-inside")
        elif len(solid) == 1:
            viol("inradius-too-large:" + spec["shape"], f"ball of radius {float(inr)} about the interior point leaves the box")
        else:
            ctx.hist("contract", "inball-undecided")
    if any(vdot(vsub(v, p), vsub(v, p)) > (circ + slack) ** 2 for v in verts):
        viol("point-circumradius-too-small:" + spec["shape"], "a vertex is further from the interior point than the stated circumradius")
    # the real mesh is the exact solid up to rounding: every mesh vertex lies in the (slightly grown) union of the
    # boxes and the bounding boxes agree (mesh booleans of composed regions work in single precision)
    tol = Fr(1, 10 ** 5) if composed else Fr(1, 10 ** 9)
    grown = [X.grow(tol) for X in solid]
    for v in region.mesh.vertices:
        q = tuple(Fr(float(t)) for t in v)
        if not any(X.has(q) for X in grown):
            viol("mesh-vertices-differ:" + spec["shape"], f"mesh vertex {tuple(map(float, v))} is outside the exact solid")
            break
    b = region.mesh.bounds
    for i in range(3):
        lo, hi = min(v[i] for v in verts), max(v[i] for v in verts)
        if abs(Fr(float(b[0][i])) - lo) > tol or abs(Fr(float(b[1][i])) - hi) > tol:
            viol("mesh-bounds-differ:" + spec["shape"], f"mesh bounds {b.tolist()} differ from the exact bounds in dimension {i}")
            break


# =========================================================================== precomputed geometry: model vs code
def vlist(verts):
    return f"{len(verts)} " + " ".join(frf(t) for v in verts for t in v)


def precomputed_correspondence(ctx, real, region, lean_jobs):
    """(C) `_circumradius` through the branch the real region takes, in exact arithmetic on the exact values of its
    float vertices, against the float the real code returns; `isConvex` of the model on what the real property reads."""
    np = real.np
    if region._scaledShape:
        sv = region._scaledShape.mesh.vertices
        line, branch = "circsq scaled " + vlist(sv), "scaled"
    elif region._shape:
        dims = region.dimensions or region._mesh.extents
        uv = region._shape.mesh.vertices
        line, branch = "circsq shape " + " ".join(frf(t) for t in dims) + " " + vlist(uv), "shape"
    else:
        line, branch = "circsq fallback " + " ".join(frf(t) for t in region.position) + " " + vlist(region.mesh.vertices), "fallback"
    got = float(region._circumradius)

    def after_circ(outs, got=got, branch=branch):
        ctx.hist("circumradius_branch", branch)
        if outs[0] == "bad-op":
            ctx.broken("correspondence", "circumradius line rejected by the driver", branch)
            return
        want = math.sqrt(float(Fr(outs[0])))
        if abs(want - got) > 1e-9 * max(1.0, want):
            ctx.broken("correspondence", "three-branch _circumradius model vs MeshVolumeRegion._circumradius",
                       f"branch {branch}: lean sqrt={want} python={got}")
    lean_jobs.append(([line], after_circ))
    if type(region) is real.rg.MeshVolumeRegion:      # BoxRegion / SpheroidRegion override isConvex
        ov = region._isConvex
        if ov is None:
            m = region.mesh
            cl = "convex none " + " ".join([b01(bool(m.is_convex)), frf(m.volume), frf(m.convex_hull.volume)])
        else:
            cl = "convex " + b01(bool(ov)) + " 0 0/1 0/1"
        flag = bool(region.isConvex)

        def after_cvx(outs, flag=flag, cl=cl):
            ctx.hist("isconvex_path", ("override" if " none " not in cl else "computed") + ":" + outs[0])
            if (outs[0] == "1") != flag:
                ctx.broken("correspondence", "isConvex model vs MeshVolumeRegion.isConvex", f"{cl}: lean={outs[0]} python={flag}")
        lean_jobs.append(([cl], after_cvx))


# =========================================================================== minimum distance
def check_distance(ctx, real, level, d, dt, fast, pd, planar, ov, SA, SB, regA, regB, tag, lean_jobs, viol, composed=False):
    """(C) the compiled model of Object / MeshVolumeRegion.minimumDistanceTo on what the real call read;
    (S) the reported distance against the oracle: never positive on overlap, the certified gap otherwise"""
    fd = dt.fcl_dist if dt.fcl_dist is not None else 0.0
    model_ok = True
    if not fast and dt.fcl_dist is None:
        # the real code answered without FCL although the fast-path condition of the model does not hold:
        # the tie is broken; the answer is still compared with the oracle below (S)
        ctx.broken("correspondence", "minimumDistanceTo did not call fcl.distance off the planar fast path", tag)
        model_ok = False
    fills = [dt.intersects] if (dt.intersects is not None or fast) else [False, True]
    if level == "object":
        pa, pb, za, zb = planar
        lines = ["mdist " + " ".join([b01(pa), b01(pb), frf(za), frf(zb), frf(pd), frf(fd), b01(bool(f))]) for f in fills]
    else:
        lines = ["vmdist " + " ".join([frf(fd), b01(bool(f))]) for f in fills]

    def after(outs, d=d, fast=fast, lines=lines, nested=dt.intersects):
        if len(set(outs)) != 1:
            ctx.broken("correspondence", "minimumDistanceTo model depends on `intersects`, which the real code did not evaluate",
                       f"{lines} -> {outs}")
            return
        v, path = outs[0].split()
        ctx.hist("distance_path", f"{level}:{path}")
        # the real code evaluates `self.intersects(other)` only inside the nested-volume guard
        want = "fast" if fast else "nested" if nested is True else "fcl"
        if path != want or Fr(v) != Fr(d):
            ctx.broken("correspondence", "minimumDistanceTo model vs the real minimumDistanceTo",
                       f"{lines[0]}: lean={outs[0]} python={d} fcl.distance={dt.fcl_dist} intersects={nested} fast={fast}")
    if model_ok:
        lean_jobs.append((lines, after))
    geoms = dt.geoms or ("-", "-")
    if not fast:
        ctx.hist("distance_geometry", "/".join(geoms))
    gname = "planar" if fast else "no-fcl" if dt.fcl_dist is None else "fcl:" + ("bvh" if set(geoms) <= {"BVHModel"} else "gjk")
    if level == "region" and composed:
        # PARKED (see notes/design/C04.md, next steps): the property speaks of distances between objects; on composed
        # regions (single-precision mesh booleans) the region-level distance is only tied to the model (C), not yet
        # compared with the oracle
        ctx.hist("distance_oracle_skipped", "composed-region")
        return
    if ov.kind == "YES" and d > DIST_TOL:   # a rounding-level positive value (1e-16) counts as zero
        cvx = "convex" if regA.isConvex and regB.isConvex else "nonconvex"
        touch = bool(real.fcl.collide(real.fcl.CollisionObject(*regA._fclData), real.fcl.CollisionObject(*regB._fclData)))
        viol(f"distance-positive-on-overlap:{level}:" + ("planar" if fast else "fcl") + f":{cvx}:" + ("crossing" if touch else "nested"),
             f"minimumDistanceTo = {d} > 0 for overlapping solids ({tag}; {cvx}, surfaces {'cross' if touch else 'do not touch: one solid is nested in the other'})", "distance")
    if ov.kind == "NO":
        if any(isinstance(X, XHull) for X in SA + SB):
            lo2, hi2, dl = distance_bounds_hull(real, SA, SB, regA, regB)
        else:
            lo2, hi2, dl = distance_bounds(SA, SB)
        lean_jobs.append((dl, certificate_job(ctx, "distance bounds")))
        lo, hi = math.sqrt(float(lo2)), math.sqrt(float(hi2))
        ctx.hist("distance_bound_width", "tight" if hi - lo < 1e-6 else "loose")
        if d <= 0 or d < lo - DIST_TOL or d > hi + DIST_TOL:
            how = "nonpositive" if d <= 0 else "under" if d < lo else "over"
            viol(f"distance-wrong:{level}:{gname}:{how}",
                 f"minimumDistanceTo = {d} but the certified gap lies in [{lo}, {hi}] ({tag}; FCL geometries {geoms})", "distance")


# =========================================================================== one pair
def run_pair(ctx, real, sa, sb, tag, lean_jobs, found, contracts=None):
    """all queries on one pair; appends (lines, callback) jobs for the Lean driver; returns nothing"""
    pair_json = {"A": spec_json(sa), "B": spec_json(sb), "tag": tag}
    SA, SB = exact_solid(sa), exact_solid(sb)
    try:
        thingA, regA = real.build(sa)
        thingB, regB = real.build(sb)
    except Infra:
        raise
    ctx.hist("family", tag)
    ctx.hist("modes", f"{sa['mode']}/{sb['mode']}")
    ctx.hist("shapes", f"{sa['shape']}/{sb['shape']}")

    def viol(key, what, query="contract"):
        if report(ctx, key, what, dict(pair_json, kind="pair", query=query)):
            found.append(key)

    if contracts or (contracts is None and ctx.rng.random() < 0.35):
        check_observation_contracts(ctx, real, tag, sa, thingA, regA, SA, lambda k, w: viol(k, w), lean_jobs)
        check_observation_contracts(ctx, real, tag, sb, thingB, regB, SB, lambda k, w: viol(k, w), lean_jobs)

    ov = overlap_verdict(SA, SB)
    ctx.hist("oracle_overlap", ov.kind)
    # a non-convex solid whose region claims to be convex (trimesh's is_convex on the output of a mesh boolean)
    misflag = ":misflagged-convex" if any(bool(rg.isConvex) and not is_convex_spec(sp) for rg, sp in ((regA, sa), (regB, sb))) else ""
    if misflag:
        ctx.hist("misflagged_convex", sa["mode"] + "/" + sb["mode"])
    # ---------------- region-level intersects, traced
    with Trace(real) as tr:
        ans = bool(regA.intersects(regB))
    names = tr.names()
    obs = intersect_obs(real, regA, regB, tr.log)
    lines = isect_lines(obs)
    klass = isect_exit_class(names)
    nontrivial = not (names == [] and obs["centerDist"] > obs["circS"] + obs["circO"])
    ctx.case(("isect", json.dumps(pair_json, sort_keys=True)), nontrivial=nontrivial)

    def after_isect(outs, ans=ans, klass=klass, lines=lines, obs=obs):
        if len(set(outs)) != 1:
            ctx.broken("correspondence", "intersects model depends on an observation the real code did not evaluate",
                       f"{lines[0]} -> {outs}")
            return
        a, ex = outs[0].split()
        ctx.hist("intersects_exit", ex)
        if (a == "1") != ans or ex not in klass:
            ctx.broken("correspondence", "five-pass intersects model vs MeshVolumeRegion.intersects",
                       f"{lines[0]}: lean={outs[0]} python={b01(ans)} calls={sorted(klass)} pair={json.dumps(pair_json)}")
    lean_jobs.append((lines, after_isect))

    # contracts of the back-end answers against the oracle
    if obs["collide"] is True and ov.kind == "NO":
        viol("fcl-collide-unsound" + misflag, "fcl.collide reported a collision for solids separated by more than the margin", "intersects")
    if obs["collide"] is False and obs["convexS"] and obs["convexO"] and ov.kind == "YES":
        viol("fcl-collide-misses-convex-overlap", "fcl.collide reported no collision for two convex solids overlapping deeper than the margin", "intersects")
    if obs["boolEmpty"] is not None and ov.kind != "UNDECIDED" and obs["boolEmpty"] != (ov.kind == "NO"):
        viol("boolean-intersection-wrong", f"mesh boolean intersection empty={obs['boolEmpty']} but the solids are {ov.kind}", "intersects")
    if ov.kind != "UNDECIDED":
        lean_jobs.append((ov.certs, certificate_job(ctx, "overlap " + ov.kind)))
        if ans != (ov.kind == "YES"):
            ex = sorted(klass)
            key = "intersects-wrong:" + "/".join(ex) + ":" + ("says-disjoint" if not ans else "says-overlap") + misflag
            viol(key, f"MeshVolumeRegion.intersects = {ans} but the solids certainly {'overlap' if ov.kind == 'YES' else 'are disjoint'} "
                      f"(exit {ex}, {tag})", "region_intersects")
    else:
        ctx.hist("undecided", "overlap")

    # ---------------- object-level intersects (planar fast paths) and minimum distance
    isobjA, isobjB = not sa["mode"].startswith("region"), not sb["mode"].startswith("region")
    if isobjA:
        ans2 = bool(thingA.intersects(thingB))
        ctx.evaluations += 1
        planarA = bool(thingA._isPlanarBox)
        planarB = bool(isobjB and thingB._isPlanarBox)
        # model of the dispatch
        if isobjB:
            poly = bool(thingA._boundingPolygon.intersects(thingB._boundingPolygon)) if planarA and planarB else False
            zS, zO, hS, hO = thingA.position.z, thingB.position.z, thingA.height, thingB.height
        else:
            poly, zS, zO, hS, hO = False, thingA.position.z, 0.0, thingA.height, 0.0
        ol = "obj " + " ".join([b01(planarA), b01(isobjB), b01(planarB), "0", frf(zS), frf(zO), frf(hS), frf(hO), b01(poly), b01(ans)])

        def after_obj(outs, ans2=ans2, ol=ol):
            a, ex = outs[0].split()
            ctx.hist("object_exit", ex)
            if (a == "1") != ans2:
                ctx.broken("correspondence", "Object.intersects dispatch model vs Object.intersects", f"{ol}: lean={outs[0]} python={b01(ans2)}")
        lean_jobs.append(([ol], after_obj))
        pl = []
        for th, sp in ((thingA, sa), (thingB, sb)):
            if not sp["mode"].startswith("region"):
                pl.append(("planar " + " ".join([b01(sp["shape"] == "box"), frf(th.orientation.pitch), frf(th.orientation.roll)]), bool(th._isPlanarBox)))

        def after_planar(outs, pl=pl):
            for (ln, want), got in zip(pl, outs):
                if (got == "1") != want:
                    ctx.broken("correspondence", "_isPlanarBox model vs Object._isPlanarBox", f"{ln}: lean={got} python={b01(want)}")
        lean_jobs.append(([p[0] for p in pl], after_planar))
        if ov.kind != "UNDECIDED" and ans2 != (ov.kind == "YES"):
            path = "planar" if planarA and planarB else "volume"
            viol(f"object-intersects-wrong:{path}:" + ("says-disjoint" if not ans2 else "says-overlap") + misflag,
                 f"Object.intersects = {ans2} but the solids certainly {'overlap' if ov.kind == 'YES' else 'are disjoint'} ({tag})", "object_intersects")
        if isobjB:
            with DistTrace(real) as dt:
                d = float(thingA.minimumDistanceTo(thingB))
            ctx.evaluations += 1
            fast = planarA and planarB and thingA.position.z == thingB.position.z
            pd = float(thingA._boundingPolygon.distance(thingB._boundingPolygon)) if fast else 0.0
            check_distance(ctx, real, "object", d, dt, fast, pd, (planarA, planarB, thingA.position.z, thingB.position.z),
                           ov, SA, SB, regA, regB, tag, lean_jobs, viol)
    if not (isobjA and isobjB):
        # region-level minimum distance (plain / off-centre / composed regions: the `_fclDistanceData` fall-back branch)
        with DistTrace(real) as dt:
            d = float(regA.minimumDistanceTo(regB))
        ctx.evaluations += 1
        check_distance(ctx, real, "region", d, dt, False, 0.0, None, ov, SA, SB, regA, regB, tag, lean_jobs, viol,
                       composed=(sa["mode"] == "region_union" or sb["mode"] == "region_union"))

    # ---------------- containment: is B inside A ?
    cv = contain_verdict(SA, SB)
    ctx.hist("oracle_contain", cv.kind)
    if isobjB:
        container = regA
        with Trace(real) as tr:
            cans = bool(container.containsObject(thingB))
        cnames = tr.names()
        ctx.case(("contain", json.dumps(pair_json, sort_keys=True)), nontrivial=True)
        co = contain_obs(real, container, thingB, tr.log)
        if co is not None:
            cl = cont_lines(co)

            def after_cont(outs, cans=cans, cl=cl, cnames=cnames):
                if len(set(outs)) != 1:
                    ctx.broken("correspondence", "containsObject model depends on an observation the real code did not evaluate", f"{cl[0]} -> {outs}")
                    return
                a, ex = outs[0].split()
                ctx.hist("contains_exit", ex)
                if (a == "1") != cans or (ex == "p5") != ("difference" in cnames):
                    ctx.broken("correspondence", "five-pass containsObject model vs MeshVolumeRegion.containsObject",
                               f"{cl[0]}: lean={outs[0]} python={b01(cans)} calls={cnames} pair={json.dumps(pair_json)}")
            lean_jobs.append((cl, after_cont))
        if contracts or ctx.rng.random() < 0.3:
            if bool(thingB in container) != cans:
                viol("in-operator-differs", "`obj in region` differs from region.containsObject(obj)", "contains")
        if cv.kind != "UNDECIDED":
            lean_jobs.append((cv.certs, certificate_job(ctx, "containment " + cv.kind)))
            if cans != (cv.kind == "YES"):
                if sa["mode"] == "region_union" and sa["shape"].endswith("_touching") and not cans:
                    # a composition of boxes that exactly touch keeps coincident internal faces (two bodies)
                    key = "composed-touching-union:contains-says-out"
                else:
                    key = ("containsObject-wrong:" + ("convex" if regA.isConvex else "nonconvex") + ":" + ("says-out" if not cans else "says-in")
                           + (":misflagged-convex" if bool(regA.isConvex) and not is_convex_spec(sa) else ""))
                viol(key, f"containsObject = {cans} but the object is certainly {'inside' if cv.kind == 'YES' else 'not inside'} "
                          f"({tag}; container {sa['shape']} / {sa['mode']}, bodies={regA._bodyCount})", "contains")
        else:
            ctx.hist("undecided", "contain")


_known_written = set()


def report(ctx, key, what, rep):
    """ctx.violation, and for keys listed as known findings also a replay file `replays/C04/known_<key>.json`
    (ctx.violation writes replay files only for unlisted violations)"""
    r = ctx.violation(key, what, rep)
    if not r and key not in _known_written:
        _known_written.add(key)
        import re as _re
        ctx.write_replay("known_" + _re.sub(r"[^A-Za-z0-9_.-]+", "_", key)[:80],
                         {"property": ctx.prop, "key": key, "what": what, "replay": rep, "known_finding": True,
                          "how_to_replay": f"./check {ctx.prop} --replay <this file>"})
    return r


def certificate_job(ctx, what):
    def cb(outs):
        bad = [o for o in outs if o != "1"]
        if bad:
            ctx.broken("correspondence", "oracle certificate rejected by the proved Lean checker", f"{what}: {bad[:3]}")
        else:
            ctx.hist("certificates_checked_by_lean", what, len(outs))
    return cb


# =========================================================================== footprints
def footprint_cases(ctx, real, found, lean_jobs):
    n = ctx.budget(60, 1500)
    rng = ctx.rng
    for i in range(n):
        quat = rng.choice(QUATS_YAW)
        W, L = Fr(rng.choice([4, 6, 8])), Fr(rng.choice([4, 6, 8]))
        holes = []
        if rng.random() < 0.7:
            holes.append(((Fr(rng.randint(-4, 4), 4), Fr(rng.randint(-4, 4), 4)), (Fr(rng.choice([1, 2, 3]), 4), Fr(rng.choice([1, 2, 3]), 4))))
        origin = (Fr(rng.randint(-8, 8), 4), Fr(rng.randint(-8, 8), 4))
        rows = quat_matrix(quat)

        def world(p):
            return vadd((origin[0], origin[1], Fr(0)), mat_vec(rows, (p[0], p[1], Fr(0))))
        # object: near the outer boundary, near a hole, or anywhere
        so = rand_spec(rng, rng.choice(["generic", "planar", "compound"]), rng.choice(["object", "object_noscale"]))
        if so["shape"] == "box":
            so["half"] = [rng.choice([Fr(1, 4), Fr(1, 2), Fr(3, 4)]) for _ in range(3)]
        else:
            so["scale"] = Fr(1, 2)
        where = rng.choice(["edge", "hole", "any"])
        if where == "hole" and holes:
            c = holes[0][0]
            p = world((c[0] + Fr(rng.randint(-6, 6), 4), c[1] + Fr(rng.randint(-6, 6), 4)))
        elif where == "edge":
            p = world((W / 2 * rng.choice([1, -1]) + Fr(rng.randint(-8, 8), 8), Fr(rng.randint(-8, 8), 4)))
        else:
            p = world((Fr(rng.randint(-16, 16), 4), Fr(rng.randint(-16, 16), 4)))
        so["pos"] = [p[0], p[1], Fr(rng.randint(-8, 8), 4)]
        rep = {"kind": "footprint", "quat": list(quat), "W": str(W), "L": str(L), "origin": [str(t) for t in origin],
               "holes": [[[str(t) for t in c], [str(t) for t in h]] for c, h in holes], "obj": spec_json(so)}
        ctx.hist("footprint_where", where + (":holes" if holes else ":plain"))
        footprint_case(ctx, real, rep, found, lean_jobs)


def footprint_case(ctx, real, rep, found, lean_jobs, verbose=False):
    """one footprint / object pair (from its replay dict): model correspondence, `in`, oracle"""
    shp = real.shapely
    quat = tuple(rep["quat"])
    rows = quat_matrix(quat)
    u = tuple(tuple(rows[i][k] for i in range(3)) for k in range(3))
    origin = tuple(Fr(t) for t in rep["origin"])
    W, L = Fr(rep["W"]), Fr(rep["L"])
    holes = [((Fr(c[0]), Fr(c[1])), (Fr(h[0]), Fr(h[1]))) for c, h in rep["holes"]]

    def world(p):
        return vadd((origin[0], origin[1], Fr(0)), mat_vec(rows, (p[0], p[1], Fr(0))))

    def rect(c, h):
        return [world((c[0] + sx * h[0], c[1] + sy * h[1])) for sx, sy in ((1, 1), (-1, 1), (-1, -1), (1, -1))]
    outer = XBox(world((0, 0)), u, (W / 2, L / 2, TALL))
    hole_boxes = [XBox(world(c), u, (h[0], h[1], TALL)) for c, h in holes]
    poly = shp.geometry.Polygon([(float(p[0]), float(p[1])) for p in rect((0, 0), (W / 2, L / 2))],
                                [[(float(p[0]), float(p[1])) for p in rect(c, h)] for c, h in holes])
    F = real.rg.PolygonalFootprintRegion(poly)
    so = spec_from_json(rep["obj"])
    SO = exact_solid(so)
    obj, space = real.build(so)
    ans = bool(F.containsObject(obj))
    ctx.case(("foot", json.dumps(rep, sort_keys=True)))
    if verbose:
        print("footprint polygon:", poly.wkt)
        print("object bounding polygon:", obj._boundingPolygon.wkt)
        print("footprint.containsObject(obj) =", ans, " obj._isConvex =", bool(obj._isConvex))
    # model
    fo = [bool(obj._isConvex), bool(F.polygons.contains(obj._boundingPolygon)),
          bool(F.polygons.contains(obj.occupiedSpace._boundingPolygonHull))]
    fl = "foot " + " ".join(b01(t) for t in fo)

    def after_foot(outs, ans=ans, fl=fl):
        a, ex = outs[0].split()
        ctx.hist("footprint_exit", ex)
        if (a == "1") != ans:
            ctx.broken("correspondence", "footprint containsObject model vs PolygonalFootprintRegion.containsObject", f"{fl}: lean={outs[0]} python={b01(ans)}")
    lean_jobs.append(([fl], after_foot))
    if (verbose or ctx.rng.random() < 0.3) and bool(obj in F) != ans:
        if report(ctx, "in-operator-differs:footprint", "`obj in footprint` differs from containsObject", rep):
            found.append("in")
    # oracle: inside the outer prism and clear of every hole prism
    inside = contain_verdict([outer], SO)
    verdict, certs = "UNDECIDED", []
    if inside.kind == "NO":
        verdict, certs = "NO", inside.certs
    elif inside.kind == "YES":
        clear = [overlap_verdict([hb], SO) for hb in hole_boxes]
        if all(c.kind == "NO" for c in clear):
            verdict, certs = "YES", inside.certs + [ln for c in clear for ln in c.certs]
        elif any(c.kind == "YES" for c in clear):
            c = next(c for c in clear if c.kind == "YES")
            verdict, certs = "NO", c.certs
    ctx.hist("oracle_footprint", verdict)
    if verbose:
        print("oracle:", verdict)
    if verdict != "UNDECIDED":
        lean_jobs.append((certs, certificate_job(ctx, "footprint " + verdict)))
        if ans != (verdict == "YES"):
            key = "footprint-contains-wrong:" + ("convex" if fo[0] else "nonconvex") + ":" + ("says-out" if not ans else "says-in")
            if report(ctx, key, f"PolygonalFootprintRegion.containsObject = {ans} but the object is certainly "
                                  f"{'inside' if verdict == 'YES' else 'not inside'} the footprint", rep):
                found.append(key)


# =========================================================================== planar box vs PolygonalRegion
def polyregion_cases(ctx, real, found, lean_jobs):
    """`Object.intersects(PolygonalRegion)`: the fast path (|dz| <= h/2 -> polygon test) and the default path."""
    rng = ctx.rng
    for i in range(ctx.budget(50, 1200)):
        sa = rand_spec(rng, "planar", rng.choice(["object", "object_noscale"]))
        quat = rng.choice(QUATS_YAW)
        half = [rng.choice(HALF), rng.choice(HALF), sa["half"][2]]
        pseudo = {"shape": "box", "quat": quat, "pos": [0, 0, sa["pos"][2]], "half": half, "mode": "object"}
        pseudo, gap = place_with_gap_xy(rng, sa, pseudo)
        g = rng.choice(GAPS)
        kind = rng.choice(["inside_z", "edge_z", "edge_z", "same_z"])
        dz = {"inside_z": sa["half"][2] * Fr(rng.randint(-3, 3), 4), "same_z": Fr(0),
              "edge_z": (sa["half"][2] + g) * rng.choice([1, -1])}[kind]
        zR = sa["pos"][2] + dz
        rep = {"kind": "polyregion", "A": spec_json(sa), "poly": spec_json(pseudo), "z": str(zR), "zkind": kind}
        polyregion_case(ctx, real, rep, found, lean_jobs)


def polyregion_case(ctx, real, rep, found, lean_jobs, verbose=False):
    shp = real.shapely
    sa, pseudo = spec_from_json(rep["A"]), spec_from_json(rep["poly"])
    zR = Fr(rep["z"])
    kind = rep.get("zkind", "?")
    dz = zR - fr(sa["pos"][2])
    B2 = exact_solid(pseudo)[0]        # the polygon's footprint over the object's own z-range
    A = exact_solid(sa)
    corners = [B2.point((sx, sy, 0)) for sx, sy in ((1, 1), (-1, 1), (-1, -1), (1, -1))]
    P = real.rg.PolygonalRegion(polygon=shp.geometry.Polygon([(float(c[0]), float(c[1])) for c in corners]), z=float(zR))
    obj, space = real.build(sa)
    ans = bool(obj.intersects(P))
    ctx.case(("polyregion", json.dumps(rep, sort_keys=True)))
    planar = bool(obj._isPlanarBox)
    fast = planar and abs(obj.position.z - P.z) <= obj.height / 2
    poly = bool(obj._boundingPolygon.intersects(P.polygons)) if fast else False
    vol = ans if not fast else False
    if verbose:
        print("object z =", obj.position.z, "height =", obj.height, "region z =", P.z, "planar box:", planar)
        print("obj.intersects(PolygonalRegion) =", ans)
    ol = "obj " + " ".join([b01(planar), "0", "0", "1", frf(obj.position.z), frf(P.z), frf(obj.height), "0/1", b01(poly), b01(vol)])

    def after(outs, ans=ans, ol=ol, fast=fast):
        a, ex = outs[0].split()
        ctx.hist("object_exit", ex)
        if (a == "1") != ans or (ex == "planarRegion") != fast:
            ctx.broken("correspondence", "Object.intersects(PolygonalRegion) dispatch model", f"{ol}: lean={outs[0]} python={b01(ans)} fast={fast}")
    lean_jobs.append(([ol], after))
    # oracle: |dz| against h/2 with margin, then the footprints over a common z-range
    hz = fr(sa["half"][2])
    verdict, certs = "UNDECIDED", []
    if abs(dz) >= hz + MARGIN:
        thin = XBox((B2.c[0], B2.c[1], zR), B2.u, (B2.h[0], B2.h[1], Fr(1, 10 ** 6)))
        v = overlap_verdict(A, [thin], m=Fr(1, 10 ** 4))
        if v.kind == "NO":
            verdict, certs = "NO", v.certs
    elif abs(dz) <= hz - MARGIN:
        v = overlap_verdict(A, [B2])
        if v.kind == "NO":
            verdict, certs = "NO", v.certs
        elif v.kind == "YES":
            x = tuple(Fr(t) for t in v.certs[0].split()[-3:])
            x = (x[0], x[1], zR)
            if A[0].has(x) and B2.has((x[0], x[1], B2.c[2])):
                thick = XBox((B2.c[0], B2.c[1], zR), B2.u, (B2.h[0], B2.h[1], Fr(1)))
                verdict, certs = "YES", [f"has {A[0].tokens()} {vtok(x)}", f"has {thick.tokens()} {vtok(x)}"]
    ctx.hist("oracle_polyregion", f"{kind}:{verdict}")
    if verbose:
        print("oracle:", verdict)
    if verdict != "UNDECIDED":
        lean_jobs.append((certs, certificate_job(ctx, "polyregion " + verdict)))
        if ans != (verdict == "YES"):
            key = "object-intersects-polygonalregion-wrong:" + ("fast" if fast else "default") + ":" + ("says-disjoint" if not ans else "says-overlap")
            if report(ctx, key, f"Object.intersects(PolygonalRegion) = {ans} but they certainly "
                                  f"{'intersect' if verdict == 'YES' else 'are disjoint'} (dz={float(dz)}, height={float(2 * hz)})", rep):
                found.append(key)


# =========================================================================== round 4: volume vs surface / footprint / region in region
class SurfTrace:
    """records the collision-manager answer and the point-containment calls of MeshVolumeRegion.intersects(MeshSurfaceRegion)"""

    def __init__(self, real):
        self.real, self.log = real, []

    def __enter__(self):
        CM, MV = self.real.trimesh.collision.CollisionManager, self.real.rg.MeshVolumeRegion
        self.saved = (CM.in_collision_internal, MV.containsPoint)
        oc, ocp, log = self.saved[0], self.saved[1], self.log

        def in_collision_internal(self_, *a, **k):
            res = oc(self_, *a, **k)
            log.append(("collide", bool(res)))
            return res

        def contains_point(self_, point, *a, **k):
            res = ocp(self_, point, *a, **k)
            log.append(("containsPoint", bool(res)))
            return res
        CM.in_collision_internal, MV.containsPoint = in_collision_internal, contains_point
        return self

    def __exit__(self, *exc):
        CM, MV = self.real.trimesh.collision.CollisionManager, self.real.rg.MeshVolumeRegion
        CM.in_collision_internal, MV.containsPoint = self.saved
        return False


def _box_spec(rng, half_choices, mode="region", quats=None):
    return {"shape": "box", "quat": rng.choice(quats or (QUATS_GENERIC + QUATS_YAW[:3])), "pos": rand_pos(rng),
            "half": [rng.choice(half_choices) for _ in range(3)], "mode": mode}


def surface_cases(ctx, real, found, lean_jobs):
    rng = ctx.rng
    for i in range(ctx.budget(45, 900)):
        fam = rng.choice(["gap", "gap", "gap", "surface_inside", "volume_inside", "far"])
        sa = _box_spec(rng, HALF)
        sb = _box_spec(rng, HALF)
        if fam == "gap":
            sb, _ = place_with_gap(rng, sa, sb)
        elif fam == "surface_inside":
            sa["half"] = [Fr(2), Fr(2), Fr(2)]
            sb["half"] = [rng.choice([Fr(1, 4), Fr(1, 2)]) for _ in range(3)]
            sb["pos"] = [fr(t) + Fr(rng.randint(-3, 3), 8) for t in sa["pos"]]
        elif fam == "volume_inside":
            sb["half"] = [Fr(2), Fr(2), Fr(2)]
            sa["half"] = [rng.choice([Fr(1, 4), Fr(1, 2)]) for _ in range(3)]
            sa["pos"] = [fr(t) + Fr(rng.randint(-3, 3), 8) for t in sb["pos"]]
        else:
            sb["pos"] = [fr(t) + 9 for t in sa["pos"]]
        surface_case(ctx, real, {"kind": "surface", "family": fam, "A": spec_json(sa), "B": spec_json(sb)}, found, lean_jobs)


def surface_case(ctx, real, rep, found, lean_jobs, verbose=False):
    """a box volume against the *surface* of a box: model correspondence and oracle"""
    sa, sb = spec_from_json(rep["A"]), spec_from_json(rep["B"])
    SA, SB = exact_solid(sa), exact_solid(sb)
    _, A = real.build(sa)
    w, l, h = real.dims(sb)
    S = real.rg.MeshSurfaceRegion(real.trimesh.creation.box((w, l, h)), position=real.vec.Vector(*[float(fr(t)) for t in sb["pos"]]),
                                  rotation=real.orientation(sb["quat"]))
    ctx.case(("surface", json.dumps(rep, sort_keys=True)))
    # the surface mesh must be the boundary of the exact box
    cs = [tuple(float(t) for t in c) for c in SB[0].corners()]
    for v in S.mesh.vertices:
        if min(max(abs(v[k] - c[k]) for k in range(3)) for c in cs) > 1e-9:
            if report(ctx, "surface-mesh-misplaced", "vertices of a MeshSurfaceRegion are not the corners of the box it was built from", rep):
                found.append("surface-mesh-misplaced")
            return
    with SurfTrace(real) as tr:
        ans = bool(A.intersects(S))
    calls = [e[0] for e in tr.log]
    b, ob = A.mesh.bounds, S.mesh.bounds
    bb = all(b[0, d] <= ob[1, d] and ob[0, d] <= b[1, d] for d in range(3))
    col = next((e[1] for e in tr.log if e[0] == "collide"), None)
    hf = next((e[1] for e in tr.log if e[0] == "containsPoint"), None)
    want_exit = "p1" if "collide" not in calls else "p2Hit" if "containsPoint" not in calls else "p3"
    lines = [f"surf {b01(bb)} {b01(c)} {b01(f)}" for c in ([col] if col is not None else [False, True])
             for f in ([hf] if hf is not None else [False, True])]
    if verbose:
        print("volume.intersects(surface) =", ans, " calls:", calls, " bounding boxes overlap:", bb)

    def after(outs, ans=ans, want_exit=want_exit, lines=lines):
        if any(o != f"{b01(ans)} {want_exit}" for o in outs):
            ctx.broken("correspondence", "intersectsSurface model vs MeshVolumeRegion.intersects(MeshSurfaceRegion)",
                       f"{lines}: lean={outs} python={b01(ans)} exit={want_exit}")
        ctx.hist("surface_exit", want_exit)
    lean_jobs.append((lines, after))
    ov, b_in_a, a_in_b = overlap_verdict(SA, SB), contain_verdict(SA, SB), contain_verdict(SB, SA)
    verdict, certs = "UNDECIDED", []
    if ov.kind == "NO":
        verdict, certs = "NO", ov.certs
    elif b_in_a.kind == "YES":
        verdict, certs = "YES", b_in_a.certs
    elif a_in_b.kind == "YES":
        verdict, certs = "NO", a_in_b.certs          # the volume lies strictly inside the closed surface
    elif ov.kind == "YES" and a_in_b.kind == "NO":
        verdict, certs = "YES", ov.certs + a_in_b.certs   # a connected volume with points inside and outside the closed surface
    ctx.hist("oracle_surface", f"{rep.get('family')}:{verdict}")
    if verbose:
        print("oracle:", verdict)
    if verdict != "UNDECIDED":
        lean_jobs.append((certs, certificate_job(ctx, "surface " + verdict)))
        if col and ov.kind == "NO":
            if report(ctx, "surface-collide-unsound", "the collision manager reports a collision of a volume and a surface that are certainly disjoint", rep):
                found.append("surface-collide-unsound")
        if ans != (verdict == "YES"):
            key = f"surface-intersects-wrong:{want_exit}:" + ("says-disjoint" if not ans else "says-overlap")
            if report(ctx, key, f"MeshVolumeRegion.intersects(MeshSurfaceRegion) = {ans} but the volume certainly "
                                  f"{'meets' if verdict == 'YES' else 'does not meet'} the surface", rep):
                found.append(key)


ZS = [Fr(0), Fr(0), Fr(1), Fr(-3), Fr(3), Fr(40), Fr(150), Fr(-150), Fr(400), Fr(149), Fr(101), Fr(-99)]


def footslab_cases(ctx, real, found, lean_jobs):
    """histories of volumes at very different heights against ONE footprint (the slab cache of approxBoundFootprint)"""
    rng = ctx.rng
    for i in range(ctx.budget(14, 300)):
        quat = rng.choice(QUATS_YAW)
        W, L = Fr(rng.choice([4, 6, 8])), Fr(rng.choice([4, 6, 8]))
        origin = [Fr(rng.randint(-8, 8), 4), Fr(rng.randint(-8, 8), 4)]
        vols = []
        for j in range(rng.choice([2, 3, 4])):
            sa = _box_spec(rng, [Fr(1, 4), Fr(1, 2), Fr(1), Fr(3, 2)])
            where = rng.choice(["edge", "edge", "in", "out"])
            rows = quat_matrix(quat)
            x = {"edge": W / 2 + Fr(rng.randint(-6, 6), 8), "in": Fr(rng.randint(-4, 4), 8), "out": W / 2 + 5}[where]
            p = vadd((origin[0], origin[1], Fr(0)), mat_vec(rows, (x, Fr(rng.randint(-4, 4), 4), Fr(0))))
            sa["pos"] = [p[0], p[1], rng.choice(ZS[:5] if j == 0 else ZS) + Fr(rng.randint(-4, 4), 4)]
            vols.append(spec_json(sa))
        rep = {"kind": "footslab", "quat": list(quat), "W": str(W), "L": str(L), "origin": [str(t) for t in origin], "volumes": vols}
        footslab_case(ctx, real, rep, found, lean_jobs)


def footslab_case(ctx, real, rep, found, lean_jobs, verbose=False):
    shp = real.shapely
    rows = quat_matrix(tuple(rep["quat"]))
    u = tuple(tuple(rows[i][k] for i in range(3)) for k in range(3))
    origin = tuple(Fr(t) for t in rep["origin"])
    W, L = Fr(rep["W"]), Fr(rep["L"])

    def world(p):
        return vadd((origin[0], origin[1], Fr(0)), mat_vec(rows, (p[0], p[1], Fr(0))))
    outer = XBox(world((0, 0)), u, (W / 2, L / 2, TALL))
    poly = shp.geometry.Polygon([(float(p[0]), float(p[1])) for p in
                                 [world((sx * W / 2, sy * L / 2)) for sx, sy in ((1, 1), (-1, 1), (-1, -1), (1, -1))]])
    F = real.rg.PolygonalFootprintRegion(poly)
    ctx.case(("footslab", json.dumps(rep, sort_keys=True)))
    for j, vj in enumerate(rep["volumes"]):
        sa = spec_from_json(vj)
        SA = exact_solid(sa)
        _, A = real.build(sa)
        prev = F._bounded_cache
        ans = bool(A.intersects(F))
        cur = F._bounded_cache
        lo, hi = Fr(float(A.mesh.bounds[0][2])), Fr(float(A.mesh.bounds[1][2]))
        reused = prev is not None and cur is not None and cur[2] is prev[2]
        line = "slab " + (f"{Fr(float(prev[0]))} {Fr(float(prev[1]))}" if prev is not None else "none none") + f" {lo} {hi}"
        ctx.hist("footslab_cache", ("first" if prev is None else "reused" if reused else "rebuilt"))
        if verbose:
            print(f"query {j}: z-range [{float(lo)}, {float(hi)}] cache before {prev and prev[:2]} after {cur and cur[:2]} reused={reused} answer={ans}")
        bad_cover = cur is None or not (cur[0] - cur[1] / 2 <= float(lo) and float(hi) <= cur[0] + cur[1] / 2)

        def after(outs, cur=cur, reused=reused, line=line):
            try:
                c, hgt, ru = outs[0].split()
                ok = (ru == "1") == reused and cur is not None and abs(float(Fr(c)) - cur[0]) <= 1e-9 * (1 + abs(cur[0])) \
                    and abs(float(Fr(hgt)) - cur[1]) <= 1e-9 * (1 + abs(cur[1]))
            except Exception:
                ok = False
            if not ok:
                ctx.broken("correspondence", "footprintSlab / approxBound model vs approxBoundFootprint (slab and cache)",
                           f"{line}: lean={outs} python cache={cur and cur[:2]} reused={reused}")
        lean_jobs.append(([line], after))
        if bad_cover:
            if report(ctx, "footprint-slab-does-not-cover", f"the bounded footprint handed back for a mesh of z-range [{float(lo)}, {float(hi)}] "
                      f"spans only {cur and (cur[0] - cur[1] / 2, cur[0] + cur[1] / 2)}", rep):
                found.append("footprint-slab-does-not-cover")
        v = overlap_verdict(SA, [outer])
        ctx.hist("oracle_footslab", v.kind)
        if v.kind != "UNDECIDED":
            lean_jobs.append((v.certs, certificate_job(ctx, "footslab " + v.kind)))
            if ans != (v.kind == "YES"):
                key = "footprint-intersects-wrong:" + ("first" if prev is None else "reused" if reused else "rebuilt") + ":" + ("says-disjoint" if not ans else "says-overlap")
                if report(ctx, key, f"MeshVolumeRegion.intersects(PolygonalFootprintRegion) = {ans} (query {j} of the history) but the volume certainly "
                                      f"{'meets' if v.kind == 'YES' else 'does not meet'} the footprint", rep):
                    found.append(key)


def inner_cases(ctx, real, found, lean_jobs):
    rng = ctx.rng
    for i in range(ctx.budget(20, 400)):
        sa = _box_spec(rng, [Fr(1), Fr(3, 2), Fr(2)])
        sb = _box_spec(rng, [Fr(1, 4), Fr(1, 2), Fr(3, 4)])
        fam = rng.choice(["inside", "inside", "gap", "reversed"])
        if fam == "gap":
            sb, _ = place_with_gap(rng, sa, sb)
        else:
            sb["pos"] = [fr(t) + Fr(rng.randint(-6, 6), 8) for t in sa["pos"]]
        if fam == "reversed":
            sa, sb = sb, sa
        inner_case(ctx, real, {"kind": "inner", "family": fam, "A": spec_json(sa), "B": spec_json(sb)}, found, lean_jobs)


def inner_case(ctx, real, rep, found, lean_jobs, verbose=False):
    sa, sb = spec_from_json(rep["A"]), spec_from_json(rep["B"])
    SA, SB = exact_solid(sa), exact_solid(sb)
    _, A = real.build(sa)
    _, B = real.build(sb)
    ctx.case(("inner", json.dumps(rep, sort_keys=True)))
    E = real.rg.EmptyRegion
    ans = bool(A.containsRegionInner(B, 0))
    e1, e2 = isinstance(B.difference(A), E), isinstance(A.difference(B), E)
    line = f"inner {b01(e1)} {b01(e2)}"
    if verbose:
        print("A.containsRegionInner(B) =", ans, " B-A empty:", e1, " A-B empty:", e2)

    def after(outs, ans=ans, line=line):
        if outs[0] != b01(ans):
            ctx.broken("correspondence", "containsRegionInner model vs MeshVolumeRegion.containsRegionInner", f"{line}: lean={outs[0]} python={b01(ans)}")
    lean_jobs.append(([line], after))
    v = contain_verdict(SA, SB)
    ctx.hist("oracle_inner", f"{rep.get('family')}:{v.kind}")
    if v.kind != "UNDECIDED":
        lean_jobs.append((v.certs, certificate_job(ctx, "inner " + v.kind)))
        if ans != (v.kind == "YES"):
            key = "containsRegionInner-wrong:" + ("says-out" if not ans else "says-in")
            if report(ctx, key, f"MeshVolumeRegion.containsRegionInner = {ans} but the region is certainly "
                                  f"{'inside' if v.kind == 'YES' else 'not inside'}", rep):
                found.append(key)


# =========================================================================== fixed scenarios (regressions of repaired defects)
def build_scenario(real, name):
    """-> dict of the real answers of one fixed scenario (each was a defect of /repo, repaired by a `fix:` commit)"""
    tm = real.trimesh
    if name == "offcentre_cubes":
        # two regions occupying the same cube [-1,1]^3, written around the positions (5,0,0) / (-5,0,0)
        mA = tm.creation.box((2, 2, 2)); mA.apply_translation((-5, 0, 0))
        mB = tm.creation.box((2, 2, 2)); mB.apply_translation((5, 0, 0))
        A = real.rg.MeshVolumeRegion(mA, position=(5, 0, 0), centerMesh=False)
        B = real.rg.MeshVolumeRegion(mB, position=(-5, 0, 0), centerMesh=False)
        return {"intersects": bool(A.intersects(B)), "want_intersects": True,
                "circumradii": [float(A._circumradius), float(B._circumradius)], "bounds": A.mesh.bounds.tolist()}
    if name == "view_region":
        V = real.rg.ViewRegion(visibleDistance=10, viewAngles=(math.radians(40), math.radians(20)), position=real.vec.Vector(0, -5, 0))
        o = real.ot.Object._with(position=real.vec.Vector(0, 4.5, 0), width=0.5, length=0.5, height=0.5)
        inside = bool(V.containsObject(o))
        return {"containsObject": inside, "intersects": bool(o.intersects(V)), "want_intersects": inside,
                "circumradius": float(V._circumradius)}
    raise KeyError(name)


SCENARIOS = {
    "offcentre_cubes": ("scenario:offcentre-cubes:intersects-says-disjoint",
                        "MeshVolumeRegion.intersects is False for two regions occupying the same cube [-1,1]^3 "
                        "(centerMesh=False, positions (5,0,0) / (-5,0,0)): `_circumradius` is not an upper bound about `position`"),
    "view_region": ("scenario:view-region:contains-but-does-not-intersect",
                    "an object contained in a ViewRegion (containsObject=True) does not intersect it (Object.intersects=False)"),
}


def fixed_scenarios(ctx, real, found, lean_jobs):
    for name, (key, what) in SCENARIOS.items():
        r = build_scenario(real, name)
        ctx.case(("scenario", name))
        ctx.hist("scenario", name + (":ok" if r["intersects"] == r["want_intersects"] else ":WRONG"))
        if r["intersects"] != r["want_intersects"]:
            if report(ctx, key, what + f" (observed {r})", {"kind": "scenario", "name": name}):
                found.append(key)
    # the exact circumradius² of the off-centre cube through the fall-back expression as written in /repo
    lean_jobs.append((["center", "circsq fallback 5 0 0 8 " + " ".join(f"{x} {y} {z}" for x in (6, 4) for y in (1, -1) for z in (1, -1))],
                      lambda outs: (ctx.hist("fallback_center_in_source", outs[0]),
                                    ctx.broken("correspondence", "fall-back circumradius² of the off-centre cube is not 3", str(outs))
                                    if outs[1] != "3/1" and outs[1] != "3" else None)))


TOUCHING = {
    # a composed region made of two rotated boxes that exactly touch (an L): the mesh boolean leaves duplicated
    # vertices along the reflex edge / two bodies with coincident faces
    "notch": ({"shape": "lshape_touching", "scale": Fr(3, 2), "quat": (4, 1, -2, 2), "pos": [Fr(-3, 4), Fr(-17, 8), Fr(5, 4)], "mode": "region_union"},
              None),
    "inside": ({"shape": "lshape_touching", "scale": Fr(3, 2), "quat": (3, 1, 2, -1), "pos": [Fr(7, 4), Fr(11, 4), Fr(-21, 8)], "mode": "region_union"},
               {"shape": "box", "half": [Fr(1, 8)] * 3, "quat": (1, 0, 0, 0), "pos": [Fr(541, 288), Fr(59, 18), Fr(-281, 144)], "mode": "object"}),
}


def touching_union_cases(ctx, real, found, lean_jobs):
    """Two deterministic pairs found by the generator in round 1 (the generator also draws such compositions):
    a box in the notch of the L (was: `intersects` answered for the convex hull, repaired by the hull-volume guard of
    `isConvex`), and a small box deep inside one piece (trimesh's nearest-triangle signed distance on the coincident
    internal faces: known finding)."""
    sa, _ = TOUCHING["notch"]
    rows = quat_matrix(sa["quat"])
    notch = vadd(tuple(sa["pos"]), mat_vec(rows, vscale(Fr(3, 2), (Fr(1, 2), Fr(1, 2), Fr(0)))))
    sb = {"shape": "box", "half": [Fr(1, 8)] * 3, "quat": sa["quat"], "pos": list(notch), "mode": "object"}
    run_pair(ctx, real, sa, sb, "touching-union:notch", lean_jobs, found, contracts=True)
    sa2, sb2 = TOUCHING["inside"]
    run_pair(ctx, real, sa2, sb2, "touching-union:inside", lean_jobs, found, contracts=True)


# =========================================================================== main
def run(ctx):
    ctx.rule = ("cases = (pair of solids x query: Region.intersects, Object.intersects, containsObject / in, minimumDistanceTo) with solids = "
                "boxes, multi-body and single-body non-convex unions of boxes, cylinders / cones / spheroids (hulls of their mesh vertices); "
                "rational-quaternion poses (generic 3-D, yaw-only, axis-aligned); built as objects with and without precomputed geometry, as "
                "regions and as composed regions (unions of BoxRegions); positions chosen so that the support gap along a rational direction "
                "is one of +-{1/200,1/50,1/10,1/2,2}, or nested / far / in a notch / bounding spheres just touching; plus footprints of rotated "
                "rectangles with holes and planar boxes against PolygonalRegions; non-trivial = not answered by the first bounding-sphere test; "
                "distinct by content hash")
    ctx.assumptions += [
        "contracts of FCL / trimesh / shapely / manifold3d (IntersectContract, ContainContract, ObjContract, FootContract, DistContract) "
        "are assumptions of the theorems; they are validated on every run against the exact oracle, not proved",
        "the solid of a mesh is the union of its exact boxes / the hull of its exact vertices (the harness builds the meshes from those boxes and checks vertices and bounds)",
        "the depth of a common point of two convex hulls is computed in floating point (its membership is exact and Lean-checked)",
        "configurations within 1/1000 of touching are excluded (three-valued oracle; the undecided count is reported)",
    ]
    ctx.trusted_base += ["tools/translate/solid.py (template extraction of the pass data)",
                         "tools/props/c04.py (exact-rational oracle search + harness; every verdict's certificate is re-checked by the proved Lean checkers)",
                         "scipy linprog / lsq_linear only propose witnesses (verified exactly afterwards)"]
    ctx.fingerprint(FINGERPRINTS)
    from translate import solid as tsolid
    # (T) every section of the anchored source is extracted independently; a section whose template no longer matches
    # falls back to the pinned data of the source the model was written against (Gen/Solid.lean always builds, never
    # stale) and the tie of that section then rests on the correspondence run at the escalated budget
    data, terrs = tsolid.extract_tolerant()
    ctx.gen("Solid", tsolid.to_lean(data))
    for e in terrs:
        ctx.escalated.append(f"translator tie lost (solid): {e}")
        ctx.notes.append(f"translator tie lost: {e}; that section uses pinned data and relies on the correspondence at thorough budget")
    ctx.extra["translator_sections"] = {"extracted": len(tsolid.SECTIONS) - len(terrs), "pinned": len(terrs)}
    timing = {}
    t_ = time.time()
    pr = ctx.prove(THEOREMS, side_conditions=SIDE)
    timing["prove_s"] = round(time.time() - t_, 1)
    if ctx.tier == "thorough" and pr.build_ok:
        t_ = time.time()
        ctx.leanchecker(MODULES)
        timing["leanchecker_s"] = round(time.time() - t_, 1)
    random.seed(ctx.rng.getrandbits(32))
    real = Real()
    real.np.random.seed(ctx.rng.getrandbits(32))
    found, lean_jobs = [], []
    nlines = [0]

    def flush():
        """one batch through the compiled Lean model / certificate checkers"""
        if pr.build_ok and lean_jobs:
            lines = [ln for job, _ in lean_jobs for ln in job]
            outs = ctx.driver(lines) if lines else []
            k = 0
            for job, cb in lean_jobs:
                cb(outs[k:k + len(job)])
                k += len(job)
            nlines[0] += len(lines)
        del lean_jobs[:]

    fixed_scenarios(ctx, real, found, lean_jobs)
    touching_union_cases(ctx, real, found, lean_jobs)
    t_ = time.time()
    surface_cases(ctx, real, found, lean_jobs)
    footslab_cases(ctx, real, found, lean_jobs)
    inner_cases(ctx, real, found, lean_jobs)
    timing["surface_footslab_inner_s"] = round(time.time() - t_, 1)
    n = ctx.budget(700, 14000)
    t0 = time.time()
    t_driver = 0.0
    # time box of the pair loop: quick 100 s; quick but escalated (fingerprint / translator change) 420 s; thorough 1300 s
    limit = 1300 if ctx.tier == "thorough" else 420 if ctx.escalated else 100
    for i in range(n):
        fam = ctx.rng.choice(FAMILIES)
        sa, sb, tag = gen_pair(ctx.rng, fam, real)
        run_pair(ctx, real, sa, sb, tag, lean_jobs, found)
        if i % 250 == 249:
            t_ = time.time()
            flush()
            t_driver += time.time() - t_
        if time.time() - t0 - t_driver > limit:
            ctx.notes.append(f"pair loop stopped by its time box after {i + 1} of {n} pairs")
            break
        if found and ctx.escalated and i >= 60 and ctx.tier != "thorough":
            # an escalated quick run is a search for a concrete failing input: stop once one has been found
            ctx.notes.append(f"pair loop stopped after {i + 1} pairs: a concrete failing input was found ({found[0]})")
            break
    timing["pairs_s"] = round(time.time() - t0 - t_driver, 1)
    t_ = time.time()
    footprint_cases(ctx, real, found, lean_jobs)
    polyregion_cases(ctx, real, found, lean_jobs)
    timing["footprint_polyregion_s"] = round(time.time() - t_, 1)
    t_ = time.time()
    flush()
    timing["lean_driver_s"] = round(t_driver + time.time() - t_, 1)
    ctx.extra["lean_driver_lines"] = nlines[0]
    ctx.extra["timing"] = timing
    ctx.resolve_brokens(bool(found))


# =========================================================================== replay
class ReplayCtx:
    """stand-in for Ctx during a replay: runs the same per-case code as the check, collects what it reports"""

    def __init__(self, ctx):
        self.ctx = ctx
        self.rng = random.Random(0)
        self.prop, self.tier, self.escalated = ctx.prop, "quick", []
        self.evaluations = 0
        self.reported, self.brokens = [], []

    def hist(self, *a, **k):
        pass

    def case(self, *a, **k):
        return True

    def budget(self, q, t):
        return q

    def broken(self, kind, name, detail=""):
        self.brokens.append((kind, name, str(detail)[:600]))

    def violation(self, key, what, rep, no_input=False):
        self.reported.append((key, what))
        return True

    def write_replay(self, *a, **k):
        return None

    def driver(self, lines):
        return self.ctx.driver(lines)


def replay(ctx, path):
    """re-executes the recorded input on the real code (of $SCENIC_REPO); exit 1 if the violation reproduces, 0 if not"""
    body = json.load(open(path))
    rep = body.get("replay", body)
    if "broken" in rep and "kind" not in rep:
        print("this replay file records obligations that no longer check (no concrete input was found):")
        print(json.dumps(rep, indent=1)[:3000])
        return 0
    real = Real()
    rc = ReplayCtx(ctx)
    found, jobs = [], []
    kind = rep.get("kind")
    if kind == "pair":
        sa, sb = spec_from_json(rep["A"]), spec_from_json(rep["B"])
        SA, SB = exact_solid(sa), exact_solid(sb)
        ta, ra = real.build(sa)
        tb, rb = real.build(sb)
        print("query:", rep.get("query"), "tag:", rep.get("tag"))
        print("A:", json.dumps(rep["A"]))
        print("B:", json.dumps(rep["B"]))
        ov = overlap_verdict(SA, SB)
        print("oracle overlap:", ov.kind, " oracle B-inside-A:", contain_verdict(SA, SB).kind)
        with Trace(real) as tr:
            print("regionA.intersects(regionB) =", bool(ra.intersects(rb)), " calls:", tr.names())
        print("circumradii:", float(ra._circumradius), float(rb._circumradius), " isConvex:", bool(ra.isConvex), bool(rb.isConvex),
              " bodies:", int(ra._bodyCount), int(rb._bodyCount))
        if not sa["mode"].startswith("region"):
            print("A.intersects(B) =", bool(ta.intersects(tb)))
            if not sb["mode"].startswith("region"):
                print("A.minimumDistanceTo(B) =", float(ta.minimumDistanceTo(tb)))
        else:
            print("regionA.minimumDistanceTo(regionB) =", float(ra.minimumDistanceTo(rb)))
        if ov.kind == "NO" and not any(isinstance(X, XHull) for X in SA + SB):
            lo2, hi2, _ = distance_bounds(SA, SB)
            print("certified gap in", [math.sqrt(float(lo2)), math.sqrt(float(hi2))])
        if not sb["mode"].startswith("region"):
            print("regionA.containsObject(B) =", bool(ra.containsObject(tb)))
        # the same checks as in the run (fresh objects: Object methods are cached)
        run_pair(rc, real, sa, sb, rep.get("tag", "replay"), jobs, found, contracts=True)
    elif kind == "scenario":
        r = build_scenario(real, rep["name"])
        print(rep["name"], "->", r)
        if r["intersects"] != r["want_intersects"]:
            rc.reported.append((SCENARIOS[rep["name"]][0], SCENARIOS[rep["name"]][1]))
    elif kind in ("fallback_cubes", "fallback_view"):     # replay files written by earlier versions of the check
        name = {"fallback_cubes": "offcentre_cubes", "fallback_view": "view_region"}[kind]
        r = build_scenario(real, name)
        print(name, "->", r)
        if r["intersects"] != r["want_intersects"]:
            rc.reported.append((SCENARIOS[name][0], SCENARIOS[name][1]))
    elif kind == "footprint":
        footprint_case(rc, real, rep, found, jobs, verbose=True)
    elif kind == "polyregion":
        polyregion_case(rc, real, rep, found, jobs, verbose=True)
    elif kind == "surface":
        surface_case(rc, real, rep, found, jobs, verbose=True)
    elif kind == "footslab":
        footslab_case(rc, real, rep, found, jobs, verbose=True)
    elif kind == "inner":
        inner_case(rc, real, rep, found, jobs, verbose=True)
    else:
        print(json.dumps(rep, indent=1)[:3000])
        return 0
    # certificates / model lines of this one case through the Lean driver
    try:
        lines = [ln for job, _ in jobs for ln in job]
        outs = ctx.driver(lines) if lines else []
        k = 0
        for job, cb in jobs:
            cb(outs[k:k + len(job)])
            k += len(job)
    except Infra as e:
        print("(Lean driver not available for the replay:", str(e)[:200], ")")
    for kind_, name, detail in rc.brokens:
        print(f"model/code disagreement: {kind_} {name}: {detail}")
    want = body.get("key")
    if rc.reported:
        for key, what in rc.reported:
            print(f"REPRODUCED [{key}]: {what}")
        if want and want not in [k for k, _ in rc.reported]:
            print(f"(the recorded key was [{want}])")
        return 1
    print("not reproduced: the property holds on this input" + (f" (recorded key [{want}])" if want else ""))
    return 0
