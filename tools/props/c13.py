"""C13 — interrupts pre-empt and resume as documented; guards are checked when promised.

Proof:  lean/ScenicModel/Props/C13*.lean  (scheduler priority, exact resumption, control outcomes,
        sub-behaviour stop balance, guard-check timing) about lean/ScenicModel/Model/Interrupts.lean,
        instantiated on the configuration regenerated from /repo by translate/interrupts.py.
Tie:    (T) translate/interrupts.py (shape of runTryInterrupt, visit_TryInterrupt, generateInvocation,
        _checkAllPreconditions, _invokeInner) -> Gen/Interrupts.lean, side conditions re-decided;
        (C) generated programs of the interrupt fragment x truth tables: real Scenic (DummySimulator)
        vs the Lean model run with the generated configuration; and vs the *specified* configuration
        (the one the theorems are about) -- a difference there is a concrete failing input;
        (S) direct oracles on the real code that use no model (labelled actions: priority, resumption,
        guard timing, control statements).
"""
import json
import os
import random
import signal
import sys
import types

from vlib.ctx import Infra, TemplateMismatch

THEOREMS = []
SIDE = []

FINGERPRINTS = {
    "runTryInterrupt": ("src/scenic/core/dynamics/invocables.py", "runTryInterrupt"),
    "InterruptBlock": ("src/scenic/core/dynamics/invocables.py", "InterruptBlock"),
    "BlockConclusion": ("src/scenic/core/dynamics/invocables.py", "BlockConclusion"),
    "_invokeSubBehavior": ("src/scenic/core/dynamics/invocables.py", "Invocable._invokeSubBehavior"),
    "_checkAllPreconditions": ("src/scenic/core/dynamics/invocables.py", "Invocable._checkAllPreconditions"),
    "Behavior._start": ("src/scenic/core/dynamics/behaviors.py", "Behavior._start"),
    "Behavior._step": ("src/scenic/core/dynamics/behaviors.py", "Behavior._step"),
    "Behavior._stop": ("src/scenic/core/dynamics/behaviors.py", "Behavior._stop"),
    "Behavior._invokeInner": ("src/scenic/core/dynamics/behaviors.py", "Behavior._invokeInner"),
    "guards.py": ("src/scenic/core/dynamics/guards.py", None),
    "visit_TryInterrupt": ("src/scenic/syntax/compiler.py", "ScenicToPythonTransformer.visit_TryInterrupt"),
    "visit_Break": ("src/scenic/syntax/compiler.py", "ScenicToPythonTransformer.visit_Break"),
    "visit_Continue": ("src/scenic/syntax/compiler.py", "ScenicToPythonTransformer.visit_Continue"),
    "visit_Return": ("src/scenic/syntax/compiler.py", "ScenicToPythonTransformer.visit_Return"),
    "visit_Abort": ("src/scenic/syntax/compiler.py", "ScenicToPythonTransformer.visit_Abort"),
    "visit_For": ("src/scenic/syntax/compiler.py", "ScenicToPythonTransformer.visit_For"),
    "visit_While": ("src/scenic/syntax/compiler.py", "ScenicToPythonTransformer.visit_While"),
    "generateInvocation": ("src/scenic/syntax/compiler.py", "ScenicToPythonTransformer.generateInvocation"),
    "makeDoLike": ("src/scenic/syntax/compiler.py", "ScenicToPythonTransformer.makeDoLike"),
    "makeGuardCheckers": ("src/scenic/syntax/compiler.py", "ScenicToPythonTransformer.makeGuardCheckers"),
    "makeBehaviorLikeDef": ("src/scenic/syntax/compiler.py", "ScenicToPythonTransformer.makeBehaviorLikeDef"),
    "visit_Take": ("src/scenic/syntax/compiler.py", "ScenicToPythonTransformer.visit_Take"),
    "visit_DoUntil": ("src/scenic/syntax/compiler.py", "ScenicToPythonTransformer.visit_DoUntil"),
    "_runSingleSimulation": ("src/scenic/core/simulators.py", "Simulator._runSingleSimulation"),
}

CFG_FIELDS = ["condsReversed", "handlersReversed", "useEnabled", "useRunning", "firstWins", "finishedContinues",
              "tiCheck", "tiCheckSkipsSub", "checkAfterInvoke", "checkBeforeInvoke", "startPre", "startInv",
              "stopInFinally", "nestedFlow", "nestedNames"]
SPEC = dict(condsReversed=True, handlersReversed=True, useEnabled=True, useRunning=True, firstWins=True,
            finishedContinues=True, tiCheck=True, tiCheckSkipsSub=True, checkAfterInvoke=True,
            checkBeforeInvoke=False, startPre=True, startInv=True, stopInFinally=True, nestedFlow=True, nestedNames=True)
FUEL = 400


def cfg_bits(cfg):
    return "".join("1" if cfg[f] else "0" for f in CFG_FIELDS)


# --------------------------------------------------------------------------- programs
# prog = {"behs": [{"pre": [g..], "inv": [g..], "body": [stmt..]}, ..], "main": 0}
# stmt = ["take", a] | ["do", b] | ["dountil", b, c] | ["try", body, [[c, handler], ..]] | ["for", n, body]
#      | ["while", body] | ["abort"] | ["break"] | ["continue"] | ["return"]

def enc_block(stmts, out):
    out.append("[")
    for s in stmts:
        k = s[0]
        if k == "take":
            out += ["T", str(s[1])]
        elif k == "do":
            out += ["D", str(s[1])]
        elif k == "dountil":
            out += ["U", str(s[1]), str(s[2])]
        elif k == "try":
            out.append("Y")
            enc_block(s[1], out)
            out.append(str(len(s[2])))
            for c, h in s[2]:
                out.append(str(c))
                enc_block(h, out)
        elif k == "for":
            out += ["F", str(s[1])]
            enc_block(s[2], out)
        elif k == "while":
            out.append("W")
            enc_block(s[1], out)
        else:
            out.append({"abort": "A", "break": "B", "continue": "C", "return": "R"}[k])
    out.append("]")


def enc_prog(prog):
    out = [str(len(prog["behs"]))]
    for b in prog["behs"]:
        pre, inv = b.get("pre", []), b.get("inv", [])
        out += ["P", str(len(pre))] + [str(g) for g in pre] + ["I", str(len(inv))] + [str(g) for g in inv]
        enc_block(b["body"], out)
    return " ".join(out)


def enc_rows(rows):
    return " ".join("".join(str(int(v)) for v in r) or "-" for r in rows)


def run_line(cfg, prog, ctab, gtab, steps):
    return (f"C13 run {cfg} {steps} {FUEL} {prog.get('main', 0)} {enc_prog(prog)} "
            f"C {len(ctab)} {enc_rows(ctab)} G {len(gtab)} {enc_rows(gtab)}").replace("  ", " ")


def emit(stmts, ind, out):
    p = "    " * ind
    if not stmts:
        out.append(p + "pass")
    for s in stmts:
        k = s[0]
        if k == "take":
            out.append(f"{p}take {s[1]}")
        elif k == "do":
            out.append(f"{p}do B{s[1]}()")
        elif k == "dountil":
            out.append(f"{p}do B{s[1]}() until E.c({s[2]})")
        elif k == "try":
            out.append(p + "try:")
            emit(s[1], ind + 1, out)
            for cnd, h in s[2]:
                out.append(f"{p}interrupt when E.c({cnd}):")
                emit(h, ind + 1, out)
        elif k == "for":
            out.append(f"{p}for _i{ind} in range({s[1]}):")
            emit(s[2], ind + 1, out)
        elif k == "while":
            out.append(f"{p}while True:")
            emit(s[1], ind + 1, out)
        elif k in ("abort", "break", "continue", "return"):
            out.append(p + k)
        else:
            raise ValueError(k)


def source(prog):
    out = ["import c13env as E"]
    for i, b in enumerate(prog["behs"]):
        out.append(f"behavior B{i}():")
        # guards mention `self`, so a guard evaluated with the wrong agent argument crashes
        for gd in b.get("pre", []):
            out.append(f"    precondition: E.g({gd}, self.position)")
        for gd in b.get("inv", []):
            out.append(f"    invariant: E.g({gd}, self.position)")
        emit(b["body"], 1, out)
    out.append(f"ego = new Object with behavior B{prog.get('main', 0)}()")
    return "\n".join(out) + "\n"


# --------------------------------------------------------------------------- the real code
class Hang(Exception):
    pass


def _alarm(*a):
    raise Hang()


_ENV = None


def env():
    """Module `c13env` imported by the generated Scenic programs: step-indexed truth tables."""
    global _ENV
    if _ENV is not None:
        return _ENV
    import scenic  # noqa
    import scenic.syntax.veneer as veneer
    from scenic.core.distributions import RejectionException
    from scenic.core.dynamics.behaviors import Behavior

    E = types.ModuleType("c13env")
    E.ctab, E.gtab, E.log, E.dead, E.main = [], [], [], False, "B0"

    def now():
        return veneer.currentSimulation.currentTime if veneer.currentSimulation else -1

    def c(k):
        t = now()
        row = E.ctab[k] if k < len(E.ctab) else []
        return bool(row[t]) if 0 <= t < len(row) else False

    def g(k, _pos=None):
        t = now()
        row = E.gtab[k] if k < len(E.gtab) else []
        v = row[t] if 0 <= t < len(row) else 1
        if not E.dead:
            E.log.append((t, f"c{k}"))
        if v != 1:
            E.dead = True
        if v == 2:
            raise RejectionException("rejection raised inside a guard")
        return v == 1

    E.c, E.g, E.now = c, g, now
    sys.modules["c13env"] = E
    orig_start, orig_stop = Behavior._start, Behavior._stop

    def _start(self, agent):
        n = type(self).__name__
        if n != E.main and not E.dead and n[:1] == "B" and n[1:].isdigit():
            E.log.append((now(), "+" + n[1:]))
        return orig_start(self, agent)

    def _stop(self, reason=None):
        n = type(self).__name__
        if n != E.main and not E.dead and n[:1] == "B" and n[1:].isdigit():
            E.log.append((now(), "-" + n[1:]))
        return orig_stop(self, reason)

    Behavior._start, Behavior._stop = _start, _stop
    _ENV = E
    return E


_compiled = {}


def compile_prog(prog):
    """-> (scene, None) or (None, error class)."""
    import scenic
    import scenic.syntax.veneer as veneer
    env()
    src = source(prog)
    if src in _compiled:
        return _compiled[src]
    veneer.currentBehavior = None  # see notes/design/C13.md (stale state after an abandoned generator is finalised late)
    try:
        sc = scenic.scenarioFromString(src)
        scene, _ = sc.generate(maxIterations=5)
        res = (scene, None)
    except Exception as e:
        res = (None, type(e).__name__ + ": " + str(e)[:120])
    if len(_compiled) > 200:
        _compiled.clear()
    _compiled[src] = res
    return res


def run_real(prog, ctab, gtab, steps, raise_gv=True):
    """Canonical observation of the real code: same format as canon(lean line)."""
    from scenic.core.dynamics import GuardViolation, InvariantViolation, PreconditionViolation
    from scenic.core.simulators import DummySimulator
    import scenic.syntax.veneer as veneer
    E = env()
    scene, err = compile_prog(prog)
    if scene is None:
        return {"outcome": "compile-error", "detail": err, "actions": [], "events": []}
    E.ctab, E.gtab, E.log, E.dead, E.main = ctab, gtab, [], False, f"B{prog.get('main', 0)}"
    veneer.currentBehavior = None
    old = signal.signal(signal.SIGALRM, _alarm)
    signal.alarm(10)
    actions = []
    try:
        sim = DummySimulator().simulate(scene, maxSteps=steps, maxIterations=1, raiseGuardViolations=raise_gv)
        if sim is None:
            outcome = "rejected"
        else:
            outcome = "ok"
            for a in sim.result.actions:
                v = list(a.values())[0] if a else ()
                actions.append(str(v[0]) if v else "-")
    except GuardViolation as e:
        kind = "pre" if isinstance(e, PreconditionViolation) else "inv" if isinstance(e, InvariantViolation) else "guard"
        outcome = f"viol:{kind}:{e.behaviorName[1:]}:{e.simulation.currentTime}"
    except Hang:
        outcome = "hang"
    except Exception as e:
        outcome = "crash:" + type(e).__name__ + ":" + str(e)[:80]
    finally:
        signal.alarm(0)
        signal.signal(signal.SIGALRM, old)
    E.dead = True
    return {"outcome": outcome, "actions": actions, "events": canon_events(E.log, steps)}


def canon_events(log, steps):
    """per time step: set of guards evaluated + sorted multiset of sub-behaviour starts/stops"""
    ticks = {}
    for t, ev in log:
        if t < 0 or (steps and t >= steps):
            continue
        ticks.setdefault(t, []).append(ev)
    out = []
    for t in range(max(list(ticks) + [-1]) + 1):
        evs = ticks.get(t, [])
        out.append(sorted(set(e for e in evs if e[0] == "c")) + sorted(e for e in evs if e[0] != "c"))
    while out and not out[-1]:
        out.pop()
    return out


def canon_lean(line):
    """parse a driver answer into the canonical observation"""
    if line in ("compile-error", "bad-op"):
        return {"outcome": line, "actions": [], "events": []}
    outcome, acts, evs = [x.strip() for x in line.split("|")]
    log = []
    for t, tick in enumerate(evs.split(";")):
        for ev in tick.strip().split(","):
            ev = ev.strip()
            if not ev:
                continue
            if ev[0] == "c":
                ev = "c" + ev.split(".")[1]  # guard ids are unique over the program
            log.append((t, ev))
    return {"outcome": outcome, "actions": acts.split() if outcome == "ok" else [], "events": canon_events(log, 0)}


def same(a, b, events=True):
    if a["outcome"] != b["outcome"]:
        return False
    if a["outcome"] == "ok" and a["actions"] != b["actions"]:
        return False
    return not events or a["events"] == b["events"]


def first_diff(a, b):
    if a["outcome"] != b["outcome"]:
        return "outcome"
    if a["actions"] != b["actions"]:
        return "actions"
    return "events"


# --------------------------------------------------------------------------- generator
class Gen:
    """Structured random programs of the interrupt fragment (mostly valid, boundary-dense)."""

    def __init__(self, rng, max_depth, max_handlers=3, flow_safe=False):
        self.rng, self.max_depth, self.max_handlers, self.flow_safe = rng, max_depth, max_handlers, flow_safe

    def program(self):
        rng = self.rng
        self.action = 0
        self.nconds = 0
        self.nguards = 0
        self.shared_conds = rng.random() < 0.25
        nb = rng.choice([1, 1, 2, 2, 3])
        behs = [None] * nb
        for i in reversed(range(nb)):
            self.cur, self.nb = i, nb
            self.budget = rng.choice([4, 6, 8, 10]) if i == 0 else rng.choice([2, 3, 5])
            body = self.block(0, False, False, False, top=True)
            if not self.yields(body):
                body.append(self.take())
            b = {"body": body}
            if rng.random() < (0.5 if i else 0.4):
                b["inv"] = [self.guard() for _ in range(rng.choice([1, 1, 2]))]
            if rng.random() < (0.4 if i else 0.15):
                b["pre"] = [self.guard()]
            behs[i] = b
        return {"behs": behs, "main": 0}

    def guard(self):
        self.nguards += 1
        return self.nguards - 1

    def cond(self):
        if self.shared_conds and self.nconds and self.rng.random() < 0.4:
            return self.rng.randrange(self.nconds)
        self.nconds += 1
        return self.nconds - 1

    def take(self):
        self.action += 1
        return ["take", self.action]

    def yields(self, stmts):
        return any(s[0] in ("take", "do", "dountil") or (s[0] == "try" and (self.yields(s[1]) or any(self.yields(h) for _, h in s[2])))
                   or (s[0] in ("for", "while") and self.yields(s[-1])) for s in stmts)

    def block(self, depth, in_block, in_loop, loop_avail, top=False, handler=False):
        """in_block: inside a try-interrupt block; in_loop: a loop encloses us inside the current block function;
        loop_avail: some loop of the behaviour encloses us (break/continue are meaningful)"""
        rng = self.rng
        n = rng.choice([1, 1, 2, 2, 3]) if not top else rng.choice([1, 2, 3])
        out = []
        for i in range(n):
            last = i == n - 1
            self.budget -= 1
            opts = ["take"] * 4
            if self.cur + 1 < self.nb:
                opts += ["do", "do", "dountil"]
            if depth < self.max_depth and self.budget > 0:
                opts += ["try"] * (4 if depth == 0 else 3)
            if self.budget > 0:
                opts += ["for", "for", "while"]
            if last and (handler or rng.random() < 0.3):
                if in_block:
                    opts += ["abort"] * 2
                if in_loop or (loop_avail and in_block):
                    opts += ["break"] * 2 + ["continue"] * 2
                opts += ["return"]
            k = rng.choice(opts)
            if k == "take":
                out.append(self.take())
            elif k == "do":
                out.append(["do", rng.randrange(self.cur + 1, self.nb)])
            elif k == "dountil":
                out.append(["dountil", rng.randrange(self.cur + 1, self.nb), self.cond()])
            elif k == "try":
                body = self.block(depth + 1, True, False, loop_avail)
                hs = []
                for _ in range(rng.choice([1, 1, 2, 2, 3][: 2 + self.max_handlers])):
                    if len(hs) >= self.max_handlers:
                        break
                    h = self.block(depth + 1, True, False, loop_avail, handler=True)
                    if not self.yields(h) and h[-1][0] not in ("abort", "break", "continue", "return") and rng.random() < 0.85:
                        h.insert(0, self.take())  # a handler that finishes without acting while enabled loops forever
                    hs.append([self.cond(), h])
                out.append(["try", body, hs])
            elif k == "for":
                out.append(["for", rng.choice([0, 1, 2, 2, 3]), self.block(depth, in_block, True, True)])
            elif k == "while":
                body = self.block(depth, in_block, True, True)
                if rng.random() < 0.9 and not (body and body[0][0] == "take"):
                    body.insert(0, self.take())
                out.append(["while", body])
            else:
                out.append([k])
        return out

    def tables(self, prog, steps):
        rng = self.rng
        style = rng.choice(["pulse", "pulse", "dense", "sparse", "const"])
        ctab = []
        for _ in range(self.nconds):
            if style == "pulse":
                row = [0] * steps
                for _ in range(rng.choice([1, 1, 2])):
                    s = rng.randrange(steps)
                    for t in range(s, min(steps, s + rng.choice([1, 1, 2, 3]))):
                        row[t] = 1
            elif style == "dense":
                row = [int(rng.random() < 0.6) for _ in range(steps)]
            elif style == "sparse":
                row = [int(rng.random() < 0.2) for _ in range(steps)]
            else:
                row = [rng.choice([0, 1])] * steps
            ctab.append(row)
        gtab = []
        bad = rng.random() < 0.5
        for _ in range(self.nguards):
            row = [1] * (steps + 1)
            if bad and rng.random() < 0.5:
                row[rng.randrange(steps + 1)] = rng.choice([0, 0, 2])
            gtab.append(row)
        return ctab, gtab


def all_tables(nconds, steps, limit, rng):
    """every truth table of nconds x steps if there are at most `limit`, else None"""
    bits = nconds * steps
    if bits > 20 or 2 ** bits > limit:
        return None
    out = []
    for m in range(2 ** bits):
        out.append([[(m >> (c * steps + t)) & 1 for t in range(steps)] for c in range(nconds)])
    return out


def count_nodes(stmts, kind):
    n = 0
    for s in stmts:
        if s[0] == kind:
            n += 1
        if s[0] == "try":
            n += count_nodes(s[1], kind) + sum(count_nodes(h, kind) for _, h in s[2])
        elif s[0] in ("for", "while"):
            n += count_nodes(s[-1], kind)
    return n


def try_depth(stmts):
    d = 0
    for s in stmts:
        if s[0] == "try":
            d = max(d, 1 + max([try_depth(s[1])] + [try_depth(h) for _, h in s[2]]))
        elif s[0] in ("for", "while"):
            d = max(d, try_depth(s[-1]))
    return d
