"""C13 — interrupts pre-empt and resume as documented; guards are checked when promised.

Proof:  lean/ScenicModel/Props/C13*.lean  (scheduler priority, exact resumption, control outcomes,
        sub-behaviour stop balance, guard-check timing) about lean/ScenicModel/Model/Interrupts.lean,
        instantiated on the configuration regenerated from /repo by translate/interrupts.py.
Tie:    (T) translate/interrupts.py (shape of runTryInterrupt, visit_TryInterrupt, generateInvocation,
        _checkAllPreconditions, _invokeInner) -> Gen/Interrupts.lean, side conditions re-decided;
        (C) generated programs of the interrupt fragment x truth tables: real Scenic (DummySimulator)
        vs the Lean model run with the generated configuration; and vs the *specified* configuration
        (the one the theorems are about) -- a difference there is a concrete failing input;
        (S) direct oracles on the real code that use no model (labelled actions: priority, resumption,
        guard timing, control statements).
"""
import json
import os
import random
import signal
import sys
import types

from vlib.ctx import Infra, TemplateMismatch

THEOREMS = []
SIDE = []

FINGERPRINTS = {
    "runTryInterrupt": ("src/scenic/core/dynamics/invocables.py", "runTryInterrupt"),
    "InterruptBlock": ("src/scenic/core/dynamics/invocables.py", "InterruptBlock"),
    "BlockConclusion": ("src/scenic/core/dynamics/invocables.py", "BlockConclusion"),
    "_invokeSubBehavior": ("src/scenic/core/dynamics/invocables.py", "Invocable._invokeSubBehavior"),
    "_checkAllPreconditions": ("src/scenic/core/dynamics/invocables.py", "Invocable._checkAllPreconditions"),
    "Behavior._start": ("src/scenic/core/dynamics/behaviors.py", "Behavior._start"),
    "Behavior._step": ("src/scenic/core/dynamics/behaviors.py", "Behavior._step"),
    "Behavior._stop": ("src/scenic/core/dynamics/behaviors.py", "Behavior._stop"),
    "Behavior._invokeInner": ("src/scenic/core/dynamics/behaviors.py", "Behavior._invokeInner"),
    "guards.py": ("src/scenic/core/dynamics/guards.py", None),
    "visit_TryInterrupt": ("src/scenic/syntax/compiler.py", "ScenicToPythonTransformer.visit_TryInterrupt"),
    "visit_Break": ("src/scenic/syntax/compiler.py", "ScenicToPythonTransformer.visit_Break"),
    "visit_Continue": ("src/scenic/syntax/compiler.py", "ScenicToPythonTransformer.visit_Continue"),
    "visit_Return": ("src/scenic/syntax/compiler.py", "ScenicToPythonTransformer.visit_Return"),
    "visit_Abort": ("src/scenic/syntax/compiler.py", "ScenicToPythonTransformer.visit_Abort"),
    "visit_For": ("src/scenic/syntax/compiler.py", "ScenicToPythonTransformer.visit_For"),
    "visit_While": ("src/scenic/syntax/compiler.py", "ScenicToPythonTransformer.visit_While"),
    "generateInvocation": ("src/scenic/syntax/compiler.py", "ScenicToPythonTransformer.generateInvocation"),
    "makeDoLike": ("src/scenic/syntax/compiler.py", "ScenicToPythonTransformer.makeDoLike"),
    "makeGuardCheckers": ("src/scenic/syntax/compiler.py", "ScenicToPythonTransformer.makeGuardCheckers"),
    "makeBehaviorLikeDef": ("src/scenic/syntax/compiler.py", "ScenicToPythonTransformer.makeBehaviorLikeDef"),
    "visit_Take": ("src/scenic/syntax/compiler.py", "ScenicToPythonTransformer.visit_Take"),
    "visit_DoUntil": ("src/scenic/syntax/compiler.py", "ScenicToPythonTransformer.visit_DoUntil"),
    "_runSingleSimulation": ("src/scenic/core/simulators.py", "Simulator._runSingleSimulation"),
}

CFG_FIELDS = ["condsReversed", "handlersReversed", "useEnabled", "useRunning", "firstWins", "finishedContinues",
              "tiCheck", "tiCheckSkipsSub", "checkAfterInvoke", "checkBeforeInvoke", "startPre", "startInv",
              "stopInFinally", "nestedFlow", "nestedNames", "closeBlocks"]
SPEC = dict(condsReversed=True, handlersReversed=True, useEnabled=True, useRunning=True, firstWins=True,
            finishedContinues=True, tiCheck=True, tiCheckSkipsSub=True, checkAfterInvoke=True,
            checkBeforeInvoke=False, startPre=True, startInv=True, stopInFinally=True, nestedFlow=True, nestedNames=True,
            closeBlocks=True)
FUEL = 400


def cfg_bits(cfg):
    return "".join("1" if cfg[f] else "0" for f in CFG_FIELDS)


# --------------------------------------------------------------------------- programs
# prog = {"behs": [{"pre": [g..], "inv": [g..], "body": [stmt..]}, ..], "main": 0}
# stmt = ["take", a] | ["do", b] | ["dountil", b, c] | ["try", body, [[c, handler], ..]] | ["for", n, body]
#      | ["while", body] | ["abort"] | ["break"] | ["continue"] | ["return"]

def enc_block(stmts, out):
    out.append("[")
    for s in stmts:
        k = s[0]
        if k == "take":
            out += ["T", str(s[1])]
        elif k == "do":
            out += ["D", str(s[1])]
        elif k == "dountil":
            out += ["U", str(s[1]), str(s[2])]
        elif k == "try":
            out.append("Y")
            enc_block(s[1], out)
            out.append(str(len(s[2])))
            for c, h in s[2]:
                out.append(str(c))
                enc_block(h, out)
        elif k == "for":
            out += ["F", str(s[1])]
            enc_block(s[2], out)
        elif k == "while":
            out.append("W")
            enc_block(s[1], out)
        else:
            out.append({"abort": "A", "break": "B", "continue": "C", "return": "R"}[k])
    out.append("]")


def enc_prog(prog):
    if "src" in prog:
        return prog["src"]
    out = [str(len(prog["behs"]))]
    for b in prog["behs"]:
        pre, inv = b.get("pre", []), b.get("inv", [])
        out += ["P", str(len(pre))] + [str(g) for g in pre] + ["I", str(len(inv))] + [str(g) for g in inv]
        enc_block(b["body"], out)
    return " ".join(out)


def enc_rows(rows):
    return " ".join("".join(str(int(v)) for v in r) or "-" for r in rows)


def run_line(cfg, prog, ctab, gtab, steps):
    return (f"C13 run {cfg} {steps} {FUEL} {prog.get('main', 0)} {enc_prog(prog)} "
            f"C {len(ctab)} {enc_rows(ctab)} G {len(gtab)} {enc_rows(gtab)}").replace("  ", " ")


def emit(stmts, ind, out):
    p = "    " * ind
    if not stmts:
        out.append(p + "pass")
    for s in stmts:
        k = s[0]
        if k == "take":
            out.append(f"{p}take {s[1]}")
        elif k == "do":
            out.append(f"{p}do B{s[1]}()")
        elif k == "dountil":
            out.append(f"{p}do B{s[1]}() until E.c({s[2]})")
        elif k == "try":
            out.append(p + "try:")
            emit(s[1], ind + 1, out)
            for cnd, h in s[2]:
                out.append(f"{p}interrupt when E.c({cnd}):")
                emit(h, ind + 1, out)
        elif k == "for":
            out.append(f"{p}for _i{ind} in range({s[1]}):")
            emit(s[2], ind + 1, out)
        elif k == "while":
            out.append(f"{p}while True:")
            emit(s[1], ind + 1, out)
        elif k in ("abort", "break", "continue", "return"):
            out.append(p + k)
        else:
            raise ValueError(k)


def source(prog):
    if "src" in prog:
        return prog["src"]
    out = ["import c13env as E"]
    for i, b in enumerate(prog["behs"]):
        out.append(f"behavior B{i}():")
        # guards mention `self`, so a guard evaluated with the wrong agent argument crashes
        for gd in b.get("pre", []):
            out.append(f"    precondition: E.g({gd}, self.position)")
        for gd in b.get("inv", []):
            out.append(f"    invariant: E.g({gd}, self.position)")
        emit(b["body"], 1, out)
    out.append(f"ego = new Object with behavior B{prog.get('main', 0)}()")
    return "\n".join(out) + "\n"


# --------------------------------------------------------------------------- the real code
class Hang(Exception):
    pass


def _alarm(*a):
    raise Hang()


_ENV = None


def env():
    """Module `c13env` imported by the generated Scenic programs: step-indexed truth tables."""
    global _ENV
    if _ENV is not None:
        return _ENV
    for v in ("OMP_NUM_THREADS", "OPENBLAS_NUM_THREADS", "MKL_NUM_THREADS", "NUMEXPR_NUM_THREADS"):
        os.environ.setdefault(v, "1")  # no numeric work here; thread pools only cost start-up time in every process
    import scenic  # noqa
    import scenic.syntax.veneer as veneer
    from scenic.core.distributions import RejectionException
    from scenic.core.dynamics.behaviors import Behavior

    E = types.ModuleType("c13env")
    E.ctab, E.gtab, E.log, E.dead, E.main = [], [], [], False, "B0"

    def now():
        return veneer.currentSimulation.currentTime if veneer.currentSimulation else -1

    def c(k):
        t = now()
        row = E.ctab[k] if k < len(E.ctab) else []
        return bool(row[t]) if 0 <= t < len(row) else False

    def g(k, _pos=None):
        t = now()
        row = E.gtab[k] if k < len(E.gtab) else []
        v = row[t] if 0 <= t < len(row) else 1
        if not E.dead:
            E.log.append((t, f"c{k}"))
        if v != 1:
            E.dead = True
        if v == 2:
            raise RejectionException("rejection raised inside a guard")
        return v == 1

    E.c, E.g, E.now = c, g, now
    sys.modules["c13env"] = E
    orig_start, orig_stop = Behavior._start, Behavior._stop

    def _start(self, agent):
        n = type(self).__name__
        r = orig_start(self, agent)  # raises when a precondition / invariant does not hold: then it did not start
        if n != E.main and n[:1] == "B" and n[1:].isdigit():
            E.log.append((now(), "+" + n[1:]))
        return r

    def _stop(self, reason=None):
        n = type(self).__name__
        if n != E.main and n[:1] == "B" and n[1:].isdigit():
            E.log.append((now(), "-" + n[1:]))
        return orig_stop(self, reason)

    Behavior._start, Behavior._stop = _start, _stop
    _ENV = E
    return E


_compiled = {}


def compile_prog(prog):
    """-> (scene, None) or (None, error class)."""
    import scenic
    import scenic.syntax.veneer as veneer
    env()
    src = source(prog)
    if src in _compiled:
        return _compiled[src]
    try:
        sc = scenic.scenarioFromString(src)
        scene, _ = sc.generate(maxIterations=5)
        res = (scene, None)
    except Exception as e:
        res = (None, type(e).__name__ + ": " + str(e)[:120])
    if len(_compiled) > 200:
        _compiled.clear()
    _compiled[src] = res
    return res


def run_real(prog, ctab, gtab, steps, raise_gv=True, limit=60):
    """Canonical observation of the real code: same format as canon(lean line)."""
    from scenic.core.dynamics import GuardViolation, InvariantViolation, PreconditionViolation
    from scenic.core.simulators import DummySimulator
    import scenic.syntax.veneer as veneer
    E = env()
    scene, err = compile_prog(prog)
    if scene is None:
        return {"outcome": "compile-error", "detail": err, "actions": [], "events": []}
    E.ctab, E.gtab, E.log, E.dead, E.main = ctab, gtab, [], False, f"B{prog.get('main', 0)}"
    old = signal.signal(signal.SIGALRM, _alarm)
    signal.alarm(limit)
    actions = []
    try:
        sim = DummySimulator().simulate(scene, maxSteps=steps, maxIterations=1, raiseGuardViolations=raise_gv)
        if sim is None:
            outcome = "rejected"
        else:
            outcome = "ok"
            for a in sim.result.actions:
                v = list(a.values())[0] if a else ()
                actions.append(str(v[0]) if v else "-")
    except GuardViolation as e:
        kind = "pre" if isinstance(e, PreconditionViolation) else "inv" if isinstance(e, InvariantViolation) else "guard"
        outcome = f"viol:{kind}:{e.behaviorName[1:]}:{e.simulation.currentTime}"
    except Hang:
        outcome = "hang"
    except Exception as e:
        outcome = "crash:" + type(e).__name__ + ":" + str(e)[:80]
    finally:
        signal.alarm(0)
        signal.signal(signal.SIGALRM, old)
    E.dead = True
    # no trace of the simulation may be left in the interpreter's global state (a generator finalised late used to
    # leave veneer.currentBehavior at a dead behaviour: the next scenario of the process then failed to compile)
    if veneer.currentBehavior is not None or veneer.currentSimulation is not None:
        outcome = "stale-global-state:" + outcome
        veneer.currentBehavior = None
    # sub-behaviours of abandoned blocks are stopped when the block is abandoned -- not when the garbage collector
    # gets round to the generator, after the simulation (time -1 here)
    late = sorted(ev for t, ev in E.log if t < 0 and ev[0] == "-")
    if late:
        outcome = "late-stop(" + ",".join(late) + "):" + outcome
    return {"outcome": outcome, "actions": actions, "events": canon_events(E.log, steps)}


def canon_events(log, steps):
    """per time step: set of guards evaluated + sorted multiset of sub-behaviour starts/stops"""
    ticks = {}
    for t, ev in log:
        if t < 0 or (steps and t >= steps):
            continue
        ticks.setdefault(t, []).append(ev)
    out = []
    for t in range(max(list(ticks) + [-1]) + 1):
        evs = ticks.get(t, [])
        out.append(sorted(set(e for e in evs if e[0] == "c")) + sorted(e for e in evs if e[0] != "c"))
    while out and not out[-1]:
        out.pop()
    return out


def canon_lean(line):
    """parse a driver answer into the canonical observation"""
    if line in ("compile-error", "bad-op"):
        return {"outcome": line, "actions": [], "events": []}
    outcome, acts, evs = [x.strip() for x in line.split("|")]
    log = []
    for t, tick in enumerate(evs.split(";")):
        for ev in tick.strip().split(","):
            ev = ev.strip()
            if not ev:
                continue
            if ev[0] == "c":
                ev = "c" + ev.split(".")[1]  # guard ids are unique over the program
            log.append((t, ev))
    return {"outcome": outcome, "actions": acts.split() if outcome == "ok" else [], "events": canon_events(log, 0)}


def same(a, b, events=True):
    if a["outcome"] != b["outcome"]:
        return False
    if a["outcome"] == "ok" and a["actions"] != b["actions"]:
        return False
    return not events or a["events"] == b["events"]


def first_diff(a, b):
    if a["outcome"] != b["outcome"]:
        return "outcome"
    if a["actions"] != b["actions"]:
        return "actions"
    return "events"


# --------------------------------------------------------------------------- generator
class Gen:
    """Structured random programs of the interrupt fragment (mostly valid, boundary-dense)."""

    def __init__(self, rng, max_depth, max_handlers=3, flow_safe=False):
        self.rng, self.max_depth, self.max_handlers, self.flow_safe = rng, max_depth, max_handlers, flow_safe

    def program(self):
        rng = self.rng
        self.action = 0
        self.nconds = 0
        self.nguards = 0
        self.shared_conds = rng.random() < 0.25
        nb = rng.choice([1, 1, 2, 2, 3])
        behs = [None] * nb
        for i in reversed(range(nb)):
            self.cur, self.nb = i, nb
            self.budget = rng.choice([4, 6, 8, 10]) if i == 0 else rng.choice([2, 3, 5])
            body = self.block(0, False, False, False, top=True)
            if not self.yields(body):
                body.append(self.take())
            b = {"body": body}
            if rng.random() < (0.5 if i else 0.4):
                b["inv"] = [self.guard() for _ in range(rng.choice([1, 1, 2]))]
            if rng.random() < (0.4 if i else 0.15):
                b["pre"] = [self.guard()]
            behs[i] = b
        return {"behs": behs, "main": 0}

    def guard(self):
        self.nguards += 1
        return self.nguards - 1

    def cond(self):
        if self.shared_conds and self.nconds and self.rng.random() < 0.4:
            return self.rng.randrange(self.nconds)
        self.nconds += 1
        return self.nconds - 1

    def take(self):
        self.action += 1
        return ["take", self.action]

    def yields(self, stmts):
        return any(s[0] in ("take", "do", "dountil") or (s[0] == "try" and (self.yields(s[1]) or any(self.yields(h) for _, h in s[2])))
                   or (s[0] in ("for", "while") and self.yields(s[-1])) for s in stmts)

    def block(self, depth, in_block, in_loop, loop_avail, top=False, handler=False):
        """in_block: inside a try-interrupt block; in_loop: a loop encloses us inside the current block function;
        loop_avail: some loop of the behaviour encloses us (break/continue are meaningful)"""
        rng = self.rng
        n = rng.choice([1, 1, 2, 2, 3]) if not top else rng.choice([1, 2, 3])
        out = []
        for i in range(n):
            last = i == n - 1
            self.budget -= 1
            opts = ["take"] * 4
            if self.cur + 1 < self.nb:
                opts += ["do", "do", "dountil"]
            if depth < self.max_depth and self.budget > 0:
                opts += ["try"] * (4 if depth == 0 else 3)
            if self.budget > 0:
                opts += ["for", "for", "while"]
            if last and (handler or rng.random() < 0.3):
                if in_block:
                    opts += ["abort"] * 2
                if in_loop or (loop_avail and in_block):
                    opts += ["break"] * 2 + ["continue"] * 2
                opts += ["return"]
            k = rng.choice(opts)
            if k == "take":
                out.append(self.take())
            elif k == "do":
                out.append(["do", rng.randrange(self.cur + 1, self.nb)])
            elif k == "dountil":
                out.append(["dountil", rng.randrange(self.cur + 1, self.nb), self.cond()])
            elif k == "try":
                body = self.block(depth + 1, True, False, loop_avail)
                hs = []
                for _ in range(rng.choice([1, 1, 2, 2, 3][: 2 + self.max_handlers])):
                    if len(hs) >= self.max_handlers:
                        break
                    h = self.block(depth + 1, True, False, loop_avail, handler=True)
                    if not self.yields(h) and h[-1][0] not in ("abort", "break", "continue", "return") and rng.random() < 0.85:
                        h.insert(0, self.take())  # a handler that finishes without acting while enabled loops forever
                    hs.append([self.cond(), h])
                out.append(["try", body, hs])
            elif k == "for":
                out.append(["for", rng.choice([0, 1, 2, 2, 3]), self.block(depth, in_block, True, True)])
            elif k == "while":
                body = self.block(depth, in_block, True, True)
                if rng.random() < 0.9 and not (body and body[0][0] == "take"):
                    body.insert(0, self.take())
                out.append(["while", body])
            else:
                out.append([k])
        return out

    def tables(self, prog, steps):
        rng = self.rng
        style = rng.choice(["pulse", "pulse", "dense", "sparse", "const"])
        ctab = []
        for _ in range(self.nconds):
            if style == "pulse":
                row = [0] * steps
                for _ in range(rng.choice([1, 1, 2])):
                    s = rng.randrange(steps)
                    for t in range(s, min(steps, s + rng.choice([1, 1, 2, 3]))):
                        row[t] = 1
            elif style == "dense":
                row = [int(rng.random() < 0.6) for _ in range(steps)]
            elif style == "sparse":
                row = [int(rng.random() < 0.2) for _ in range(steps)]
            else:
                row = [rng.choice([0, 1])] * steps
            ctab.append(row)
        gtab = []
        bad = rng.random() < 0.5
        for _ in range(self.nguards):
            row = [1] * (steps + 1)
            if bad and rng.random() < 0.5:
                row[rng.randrange(steps + 1)] = rng.choice([0, 0, 2])
            gtab.append(row)
        return ctab, gtab


def all_tables(nconds, steps, limit, rng):
    """every truth table of nconds x steps if there are at most `limit`, else None"""
    bits = nconds * steps
    if bits > 20 or 2 ** bits > limit:
        return None
    out = []
    for m in range(2 ** bits):
        out.append([[(m >> (c * steps + t)) & 1 for t in range(steps)] for c in range(nconds)])
    return out


def count_nodes(stmts, kind):
    n = 0
    for s in stmts:
        if s[0] == kind:
            n += 1
        if s[0] == "try":
            n += count_nodes(s[1], kind) + sum(count_nodes(h, kind) for _, h in s[2])
        elif s[0] in ("for", "while"):
            n += count_nodes(s[-1], kind)
    return n


def try_depth(stmts):
    d = 0
    for s in stmts:
        if s[0] == "try":
            d = max(d, 1 + max([try_depth(s[1])] + [try_depth(h) for _, h in s[2]]))
        elif s[0] in ("for", "while"):
            d = max(d, try_depth(s[-1]))
    return d


# --------------------------------------------------------------------------- theorems
_I = "Scenic.Interrupts."
THEOREMS = [_I + n for n in (
    # selection / priority
    "pickFrom_some_iff", "pickFrom_none_iff", "pick_lt", "preempt_latest_enabled", "body_runs_iff_no_handler_active",
    "zipRuntime_reverse", "zipRuntime_mismatch", "blkActive_spec",
    # one scheduling step: exact resumption
    "loopTI_eq", "handler_step_yields", "preempted_body_kept", "body_step_resumes_saved", "handler_finished_continues",
    # control statements
    "block_concludes", "abort_effect", "break_effect", "break_propagates", "continue_effect", "return_effect",
    "finished_behaviour_is_silent",
    # abandoned sub-behaviours are stopped
    "balance", "simLoop_balance", "simulate_balance", "simLoop_balance_viol", "simulate_balance_viol",
    # guards
    "checkGuards_ok_iff", "checkGuards_log_ok", "rejection_in_guard_is_violation", "invCheck_none_iff", "start_ok_iff",
    "start_violation_kind", "simulate_start_violation", "sub_start_violation", "lowerTake_spec",
    "resume_after_take_checks", "try_resume_checks", "lowerDo_spec", "resume_after_sub_checks",
    "K.subLeaf_hasSub", "no_check_while_sub_runs",
    # compiler bookkeeping
    "lowerS_flags", "lowerList_flags", "lowerHandlers_flags", "lower_try_flags",
    # fuel is only a termination device
    "go_mono", "go_mono_le",
    # multi-step exact resumption (round 4)
    "shape_setSt", "pick_some_of_enabled", "loopTI_body_frozen", "resume_atTry_yielded",
    "body_frozen_while_handlers_active", "preempted_body_resumes_exactly",
)] + ["Scenic.C13." + n for n in (
    "preempt_latest_enabled", "active_means_enabled_or_running", "handlers_in_reverse_source_order",
    "handler_finished_continues", "abandoned_subs_stopped", "abandoned_subs_stopped_run",
    "abandoned_subs_stopped_on_violation", "legacy_violation_leaves_sub_running", "guards_at_start",
    "guards_after_action", "guards_after_sub", "guards_on_try_resume", "guards_not_during_sub", "control_flags_exact",
    "legacy_checks_invariant_during_sub", "example_priority_and_resumption", "legacy_nested_break_lost",
    "legacy_nested_return_lost", "legacy_nested_break_does_not_compile", "legacy_nested_names_do_not_compile",
    "example_abort_stops_subs",
    "body_frozen_multi_step", "preempted_body_resumes_after_any_steps", "example_frozen_body_three_steps",
)]
SIDE = ["Scenic.C13.gen_order", "Scenic.C13.gen_selection", "Scenic.C13.gen_checks", "Scenic.C13.gen_stop",
        "Scenic.C13.gen_repaired", "Scenic.C13.gen_is_spec"]


# --------------------------------------------------------------------------- budgets
# The search runs at the quick budget first; when nothing was found and the run is a thorough one (or escalated by a
# changed fingerprint / lost translator tie / failed proof obligation) it goes on at the thorough budget.
_LEVEL = "quick"


def bud(ctx, quick, thorough):
    return thorough if _LEVEL == "thorough" else quick


# --------------------------------------------------------------------------- running many cases
def _worker(job):
    prog, cases = job
    out = []
    for ctab, gtab, steps in cases:
        if ctab is None:
            out.append(None)
            continue
        try:
            out.append(run_real(prog, ctab, gtab, steps))
        except Exception as e:  # never let one case kill the pool
            out.append({"outcome": "harness:" + type(e).__name__ + ":" + str(e)[:80], "actions": [], "events": []})
    return out


def run_real_many(ctx, jobs):
    """jobs: [(prog, [(ctab, gtab, steps) | (None, None, None)])] -> list of lists of observations"""
    import multiprocessing as mp
    env()  # import Scenic once, before forking (importing it costs ~10 s of CPU: /repo has no byte-code cache)
    n = min(int(os.environ.get("VERIF_C13_WORKERS", "8") or 8), max(1, (os.cpu_count() or 2) // 2), max(1, len(jobs)))
    if len(jobs) <= 2 or os.environ.get("VERIF_C13_SERIAL") == "1":
        return [_worker(j) for j in jobs]
    mpctx = mp.get_context("fork")
    with mpctx.Pool(n) as pool:
        res = pool.map_async(_worker, jobs, chunksize=1)
        try:
            return res.get(timeout=2400)
        except mp.TimeoutError:
            raise Infra("real-code runs timed out")


def gen_cases(ctx, cfgbits, nprog, ntab, steps_choices, max_depth, exhaustive_limit):
    """-> list of (prog, [(ctab, gtab, steps)]) ; programs that do not compile under the current compiler are
    thinned out (the model predicts them through the `lower` query)"""
    rng = ctx.rng
    cands = []
    for i in range(nprog * 3):
        g = Gen(rng, rng.choice([1, 2, 2, max_depth, max_depth]))
        p = g.program()
        cands.append((p, g.nconds, g.nguards, g))
    low = ctx.driver([f"C13 lower {cfgbits} {enc_prog(p)}" for p, _, _, _ in cands])
    progs = []
    for (p, nc, ng, g), r in zip(cands, low):
        if r != "ok" and rng.random() > 0.12:
            ctx.hist("generated_program", "thinned-out (does not compile today)")
            continue
        progs.append((p, nc, ng, g))
        if len(progs) >= nprog:
            break
    jobs = []
    for p, nc, ng, g in progs:
        steps = rng.choice(steps_choices)
        cases = []
        allt = all_tables(nc, steps, exhaustive_limit, rng) if nc else None
        if allt is not None:
            ctx.hist("tables", "exhaustive")
            for ct in allt:
                cases.append((ct, [[1] * (steps + 1) for _ in range(ng)], steps))
            for _ in range(min(ntab, 10)):
                ct, gt = g.tables(p, steps)
                cases.append((ct, gt, steps))
        else:
            ctx.hist("tables", "sampled")
            for _ in range(ntab):
                ct, gt = g.tables(p, steps)
                cases.append((ct, gt, steps))
        jobs.append((p, cases))
    return jobs


def describe(prog):
    body = [s for b in prog["behs"] for s in b["body"]]
    return (f"behs={len(prog['behs'])} depth={max(try_depth(b['body']) for b in prog['behs'])} "
            f"tries={count_nodes(body, 'try')} loops={count_nodes(body, 'for') + count_nodes(body, 'while')}")


def frozen_jobs(ctx):
    """Round 4, the multi-step frozen-body family (ties `body_frozen_while_handlers_active` /
    `preempted_body_resumes_exactly` to the code): a body of labelled actions (plain, inside a sub-behaviour, or itself a
    nested statement) is pre-empted at every position p and held for m = 1..6 time steps by handlers that loop, finish and
    fire again, pre-empt each other or contain a nested statement, then released.  Same compare path as the other cases."""
    rng = ctx.rng
    jobs = []
    for _ in range(bud(ctx, 10, 60)):
        n = rng.choice([2, 3, 4])
        body = [["take", 101 + i] for i in range(n)]
        behs_extra = []
        shp = rng.choice(["loop", "refire", "two", "nested-handler", "sub-body", "nested-body"])
        nc = 1
        if shp == "loop":
            hs = [[0, [["for", rng.choice([2, 3]), [["take", 201], ["take", 202]]]]]]
        elif shp == "refire":
            hs = [[0, [["take", 201]]]]
        elif shp == "two":
            hs = [[0, [["take", 201], ["take", 202], ["take", 203]]], [1, [["take", 301], ["take", 302]]]]
            nc = 2
        elif shp == "nested-handler":
            hs = [[0, [["try", [["take", 201], ["take", 202], ["take", 203]], [[1, [["take", 301]]]]]]]]
            nc = 2
        elif shp == "sub-body":
            behs_extra = [{"body": body}]
            body = [["do", 1]]
            hs = [[0, [["take", 201], ["take", 202]]]]
        else:
            body = [["try", body, [[1, [["take", 301], ["take", 302]]]]]]
            hs = [[0, [["take", 201], ["take", 202]]]]
            nc = 2
        prog = {"behs": [{"body": [["try", body, hs], ["take", 999]]}] + behs_extra}
        cases = []
        for p in range(n + 1):
            for m in sorted(rng.sample(range(1, 7), 3)):
                steps = min(p + m + 3, 10)
                row0 = ([0] * p + [1] * m + [0] * steps)[:steps]
                ct = [row0]
                if nc == 2:
                    style = rng.choice(["off", "pulse", "rand"])
                    if style == "off":
                        row1 = [0] * steps
                    elif style == "pulse":
                        a = rng.randrange(steps)
                        row1 = [int(a <= t < a + 2) for t in range(steps)]
                    else:
                        row1 = [int(rng.random() < 0.4) for _ in range(steps)]
                    ct.append(row1)
                cases.append((ct, [], steps))
                ctx.hist("frozen_family", f"{shp} hold={m}")
        jobs.append((prog, cases))
    return jobs


def correspondence(ctx, cfg, have_model):
    """(C) real code vs model(generated cfg); real code vs model(specified cfg).  Returns True when a concrete
    failing input (not a known finding) was found."""
    jobs = gen_cases(ctx, cfg_bits(cfg) if cfg else "gen",
                     nprog=bud(ctx, 70, 450), ntab=bud(ctx, 24, 50),
                     steps_choices=bud(ctx, [3, 4, 4], [4, 5, 5, 6]), max_depth=bud(ctx, 2, 3),
                     exhaustive_limit=bud(ctx, 256, 4096))
    jobs += frozen_jobs(ctx)
    gbits = cfg_bits(cfg) if cfg else "gen"
    lines_g, lines_s, index = [], [], []
    for pi, (p, cases) in enumerate(jobs):
        for ci, (ct, gt, steps) in enumerate(cases):
            lines_g.append(run_line(gbits, p, ct, gt, steps))
            lines_s.append(run_line("spec", p, ct, gt, steps))
            index.append((pi, ci))
    T = ctx.extra.setdefault("timing", {}).setdefault(_LEVEL, {})
    T["cases_generated_s"] = round(ctx.elapsed(), 1)
    out_g = [canon_lean(x) for x in ctx.driver(lines_g)]
    out_s = [canon_lean(x) for x in ctx.driver(lines_s)]
    # skip the real run where the model says the step never ends (the real code would hang)
    real_jobs = []
    k = 0
    for p, cases in jobs:
        rc = []
        for c in cases:
            div = out_g[k]["outcome"].startswith("diverge") or out_s[k]["outcome"].startswith("diverge")
            rc.append((None, None, None) if div else c)
            k += 1
        real_jobs.append((p, rc))
    T["model_runs_done_s"] = round(ctx.elapsed(), 1)
    real = run_real_many(ctx, real_jobs)
    T["real_runs_done_s"] = round(ctx.elapsed(), 1)
    found = False
    ncorr_bad = nspec_bad = 0
    diffset = [f for f in CFG_FIELDS if cfg and cfg[f] != SPEC[f]]
    attributed = {}
    k = 0
    for (p, cases), robs in zip(jobs, real):
        for (ct, gt, steps), r in zip(cases, robs):
            mg, ms = out_g[k], out_s[k]
            k += 1
            if r is None:
                ctx.hist("case", "model-diverges (real run skipped)")
                ctx.case(("div", enc_prog(p), ct, gt, steps), nontrivial=False)
                continue
            oc = r["outcome"].split(":")[0]
            ctx.hist("case", oc)
            ctx.hist("program_shape", describe(p))
            nontriv = count_nodes([s for b in p["behs"] for s in b["body"]], "try") > 0 and any(any(row) for row in ct)
            ctx.case((enc_prog(p), ct, gt, steps), nontrivial=nontriv)
            rep = {"kind": "run", "prog": p, "ctab": ct, "gtab": gt, "steps": steps}
            if r["outcome"].startswith("hang"):
                r = run_real(p, ct, gt, steps, limit=300)  # confirm with a generous limit (the machine may be loaded)
            if r["outcome"].startswith(("hang", "harness")):
                raise_if = r["outcome"]
                ctx.broken("correspondence", "real code did not finish a step the model finishes", f"{raise_if}: {source(p)}")
                found |= ctx.violation("hang:" + describe(p).split()[1], f"the real code {raise_if} on a program the model finishes",
                                       dict(rep, expected=ms, got=r))
                continue
            ok_g = same(r, mg)
            if not ok_g:
                ncorr_bad += 1
                if ncorr_bad <= 3:
                    ctx.broken("correspondence", "interrupt model (generated configuration) vs real code",
                               f"{first_diff(r, mg)} differ: real={r} model={mg} program:\n{source(p)} ctab={ct} gtab={gt} steps={steps}")
            if same(r, ms):
                continue
            nspec_bad += 1
            # attribute the deviation from the specified behaviour to configuration fields
            what = (f"real code deviates from the specified behaviour ({first_diff(r, ms)}): expected {ms['outcome']} "
                    f"{' '.join(ms['actions'])} got {r['outcome']} {' '.join(r['actions'])}; program:\n{source(p)}"
                    f"ctab={ct} gtab={gt} steps={steps}")
            keys = None
            if ok_g and diffset:
                sig = tuple(sorted(diffset))
                if sum(attributed.values()) < 12 or (nspec_bad % 40 == 0 and sum(attributed.values()) < 40):
                    keys = attribute(ctx, cfg, diffset, p, ct, gt, steps, r)
                    for kk in keys:
                        attributed[kk] = attributed.get(kk, 0) + 1
                else:
                    ctx.hist("deviation_from_spec", "explained by the generated configuration (not attributed individually)")
                    continue
            if keys is None:
                keys = ["deviates:" + first_diff(r, ms)]
            for key in keys:
                ctx.hist("deviation_from_spec", key)
                if ctx.violation(key, what, dict(rep, expected=ms, got=r)):
                    found = True
    ctx.extra.setdefault("correspondence", {})[_LEVEL] = {"cases": k, "model_vs_real_mismatches": ncorr_bad,
                                                          "spec_vs_real_mismatches": nspec_bad, "attributed": attributed}
    return found


def attribute(ctx, cfg, diffset, p, ct, gt, steps, r):
    """smallest set of configuration fields (differing from the specification) that explains the real behaviour"""
    import itertools
    for size in range(1, len(diffset) + 1):
        subsets = list(itertools.combinations(diffset, size))
        lines = []
        for sub in subsets:
            c = dict(SPEC)
            for f in sub:
                c[f] = cfg[f]
            lines.append(run_line(cfg_bits(c), p, ct, gt, steps))
        outs = [canon_lean(x) for x in ctx.driver(lines)]
        for sub, o in zip(subsets, outs):
            if same(r, o):
                return ["cfg:" + f for f in sub]
    return ["cfg:" + "+".join(diffset)]


# --------------------------------------------------------------------------- (S) direct oracles, no model
def _acts(r):
    return [int(a) if a != "-" else None for a in r["actions"]]


def direct_flat_priority(ctx):
    """One try-interrupt statement whose blocks are straight-line labelled actions.  From the documentation alone:
    (i) the block acting at step t is not earlier than the latest clause whose condition is true at t;
    (ii) each block's own actions come out in program order, a handler restarting only after it completed
        (exact resumption), the body never restarting."""
    rng = ctx.rng
    found = False
    jobs, meta = [], []
    for _ in range(bud(ctx, 12, 80)):
        nh = rng.choice([1, 2, 3])
        lens = [rng.choice([1, 2, 3, 4])] + [rng.choice([1, 2, 3]) for _ in range(nh)]
        label = lambda blk, pos: 100 * blk + pos + 1  # block 0 = body, block j+1 = clause j
        body = [["take", label(0, i)] for i in range(lens[0])]
        hs = [[j, [["take", label(j + 1, i)] for i in range(lens[j + 1])]] for j in range(nh)]
        prog = {"behs": [{"body": [["try", body, hs], ["take", 999]]}]}
        steps = rng.choice([5, 6, 7])
        cases = []
        allt = all_tables(nh, steps, bud(ctx, 64, 512), rng)
        tabs = allt if allt is not None else [[[int(rng.random() < rng.choice([0.2, 0.5])) for _ in range(steps)] for _ in range(nh)]
                                              for _ in range(bud(ctx, 40, 150))]
        for ct in tabs:
            cases.append((ct, [], steps))
        jobs.append((prog, cases))
        meta.append((nh, lens))
    res = run_real_many(ctx, jobs)
    for (prog, cases), (nh, lens), robs in zip(jobs, meta, res):
        for (ct, gt, steps), r in zip(cases, robs):
            ctx.case(("flat", enc_prog(prog), ct), nontrivial=any(any(row) for row in ct))
            rep = {"kind": "run", "prog": prog, "ctab": ct, "gtab": gt, "steps": steps, "oracle": "flat-priority", "nh": nh, "lens": lens}
            jd = judge_flat(nh, lens, ct, r)
            if jd:
                found |= ctx.violation(jd[0], jd[1] + f"; program:\n{source(prog)}ctab={ct}", rep)
            ctx.hist("direct_flat", "checked")
    return found


def _expect(ctx, key, prog, ct, gt, steps, want_actions=None, want_outcome="ok", why=""):
    r = run_real(prog, ct, gt, steps)
    ctx.case(("tmpl", key, enc_prog(prog), ct, gt), nontrivial=True)
    ok = r["outcome"] == want_outcome and (want_actions is None or _acts(r)[: len(want_actions)] == want_actions)
    ctx.hist("direct_template", key + (":ok" if ok else ":DEVIATES"))
    if ok:
        return False
    return ctx.violation(key, f"{why}: expected {want_outcome} {want_actions}, got {r['outcome']} {r['actions']}; program:\n{source(prog)}ctab={ct} gtab={gt}",
                         {"kind": "run", "prog": prog, "ctab": ct, "gtab": gt, "steps": steps, "oracle": key,
                          "expected": {"outcome": want_outcome, "actions": want_actions}})


def direct_templates(ctx):
    """Documented effect of abort / break / continue / return, guard timing, stopping of abandoned sub-behaviours,
    on small programs whose expected action sequence is evident from the documentation."""
    rng = ctx.rng
    found = False
    T = lambda a: ["take", a]
    for _ in range(bud(ctx, 2, 8)):
        t0 = rng.choice([1, 2, 3])
        pulse = [[int(t == t0) for t in range(8)]]
        # --- control statements in a handler (loop around the statement)
        loop = lambda handler: {"behs": [{"body": [["while", [T(3), ["try", [["for", 3, [T(1)]]], [[0, handler]]]]], T(9)]}]}
        pre = ([3, 1, 1, 1] * 3)[:t0]
        fresh = [3, 1, 1, 1, 3, 1, 1, 1]
        found |= _expect(ctx, "direct:abort", loop([T(2), ["abort"]]), pulse, [], 8, (pre + [2] + fresh)[:8], why="abort ends the statement, the loop goes on")
        found |= _expect(ctx, "direct:break", loop([T(2), ["break"]]), pulse, [], 8, (pre + [2, 9] + [None] * 8)[:8], why="break leaves the enclosing loop")
        found |= _expect(ctx, "direct:continue", loop([T(2), ["continue"]]), pulse, [], 8, (pre + [2] + fresh)[:8], why="continue starts the next iteration")
        found |= _expect(ctx, "direct:return", loop([T(2), ["return"]]), pulse, [], 8, (pre + [2] + [None] * 8)[:8], why="return ends the behaviour")
        # resumption: handler without control statement
        seq = [3, 1, 1, 1] * 3
        found |= _expect(ctx, "direct:resume", loop([T(2)]), pulse, [], 8, (seq[:t0] + [2] + seq[t0:])[:8], why="the body resumes where it was pre-empted")
        # --- the same control statements in a handler of a statement nested in the body of another one
        nest = lambda handler: {"behs": [{"body": [["for", 2, [T(3), ["try", [["try", [T(1), T(1), T(1)], [[0, handler]]], T(4)], [[1, [T(5)]]]], T(6)]], T(9)]}]}
        c2 = [pulse[0], [0] * 8]
        pre2 = [3, 1, 1, 1, 4, 6, 3][:t0]
        found |= _expect(ctx, "direct:nested-break", nest([T(2), ["break"]]), c2, [], 8, (pre2 + [2, 9] + [None] * 8)[:8], why="break in a nested handler leaves the loop")
        found |= _expect(ctx, "direct:nested-continue", nest([T(2), ["continue"]]), c2, [], 8, (pre2 + [2, 3, 1, 1, 1, 4, 6, 9])[:8], why="continue in a nested handler starts the next iteration")
        found |= _expect(ctx, "direct:nested-return", nest([T(2), ["return"]]), c2, [], 8, (pre2 + [2] + [None] * 8)[:8], why="return in a nested handler ends the behaviour")
        found |= _expect(ctx, "direct:nested-abort", nest([T(2), ["abort"]]), c2, [], 8, (pre2 + [2, 4, 6, 3, 1, 1, 1])[:8], why="abort in a nested handler ends the inner statement only")
        # more handlers inside than outside
        inner3 = {"behs": [{"body": [["try", [["try", [T(1), T(1), T(1)], [[0, [T(2)]], [1, [T(7)]], [2, [T(8)]]]]], [[3, [T(5)]]]], T(9)]}]}
        found |= _expect(ctx, "direct:nested-names", inner3, [pulse[0], [0] * 8, [0] * 8, [0] * 8], [], 6, ([1, 1, 1][:t0] + [2] + [1, 1, 1][t0:] + [9])[:6],
                         why="a nested statement may have more handlers than the enclosing one")
        # the outer break survives a nested statement in a later clause
        clob = {"behs": [{"body": [["for", 3, [["try", [T(1), T(1), T(1)], [[0, [["break"]]], [1, [["try", [T(3)], [[2, [T(4)]]]]]]]], T(8)]], T(9)]}]}
        found |= _expect(ctx, "direct:nested-break-clobbered", clob, [pulse[0], [0] * 8, [0] * 8], [], 8, ([1, 1, 1, 8, 1, 1, 1][:t0] + [9] + [None] * 8)[:8],
                         why="break leaves the loop also when a later clause contains a nested statement")
        # --- guards
        sub3 = {"body": [T(1), T(2), T(3)]}
        plain = {"behs": [{"inv": [0], "body": [["do", 1], T(7)]}, sub3]}
        intry = {"behs": [{"inv": [0], "body": [["try", [["do", 1]], [[0, [T(5)]]]], T(7)]}, sub3]}
        until = {"behs": [{"inv": [0], "body": [["dountil", 1, 0], T(7)]}, sub3]}
        tb = rng.choice([1, 2])  # while the sub-behaviour runs
        for bad in (0, 2):
            g_during = [[1 if t != tb else bad for t in range(8)]]
            g_after = [[1 if t != 3 else bad for t in range(8)]]
            g_start = [[bad] + [1] * 7]
            found |= _expect(ctx, "direct:inv-during-sub:plain", plain, [[0] * 8], g_during, 6, [1, 2, 3, 7], why="invariants are not checked while a sub-behaviour runs")
            found |= _expect(ctx, "direct:inv-during-sub", intry, [[0] * 8], g_during, 6, [1, 2, 3, 7], why="invariants are not checked while a sub-behaviour runs (under try-interrupt)")
            found |= _expect(ctx, "direct:inv-during-sub", until, [[0] * 8], g_during, 6, [1, 2, 3, 7], why="invariants are not checked while a sub-behaviour runs (do-until)")
            for nm, pr in (("plain", plain), ("try", intry), ("until", until)):
                found |= _expect(ctx, "direct:inv-after-sub:" + nm, pr, [[0] * 8], g_after, 6, None, "viol:inv:0:3", why="invariants are checked when the sub-behaviour has finished")
                found |= _expect(ctx, "direct:inv-at-start:" + nm, pr, [[0] * 8], g_start, 6, None, "viol:inv:0:0", why="invariants are checked when the behaviour starts")
            act = {"behs": [{"inv": [0], "body": [["try", [T(1), T(2), T(3), T(4)], [[0, [T(5), T(6)]]]]]}]}
            for tv in (1, 2, 3):
                gv = [[1 if t != tv else bad for t in range(8)]]
                found |= _expect(ctx, "direct:inv-after-action", act, pulse, gv, 6, None, f"viol:inv:0:{tv}", why="invariants are checked at every resumption after an action")
            withpre = {"behs": [{"body": [T(1), ["do", 1], T(7)]}, {"pre": [0], "inv": [1], "body": [T(2), T(3)]}]}
            found |= _expect(ctx, "direct:pre-at-sub-start", withpre, [], [[1, bad, 1, 1, 1], [1] * 5], 5, None, "viol:pre:1:1", why="preconditions are checked when the sub-behaviour starts")
            found |= _expect(ctx, "direct:pre-only-at-start", withpre, [], [[1, 1, bad, bad, 1], [1] * 5], 5, [1, 2, 3, 7], why="preconditions are checked only at the start")
            found |= _expect(ctx, "direct:inv-at-sub-start", withpre, [], [[1] * 5, [1, bad, 1, 1, 1]], 5, None, "viol:inv:1:1", why="invariants are checked when the sub-behaviour starts")
            mainpre = {"behs": [{"pre": [0], "body": [T(1)]}]}
            found |= _expect(ctx, "direct:pre-at-start", mainpre, [], [[bad, 1, 1]], 3, None, "viol:pre:0:0", why="preconditions are checked when the behaviour starts")
            # rejected (None) when not asked to raise
            r = run_real(mainpre, [], [[bad, 1, 1]], 3, raise_gv=False)
            ctx.case(("reject", bad))
            if r["outcome"] != "rejected":
                found |= ctx.violation("direct:reject", f"a guard violation with raiseGuardViolations=False gave {r['outcome']} instead of a rejected simulation",
                                       {"kind": "run", "prog": mainpre, "ctab": [], "gtab": [[bad, 1, 1]], "steps": 3, "raise_gv": False, "oracle": "reject"})
        # --- abandoned sub-behaviours are stopped (observed through Behavior._start/_stop)
        deep = {"behs": [{"body": [["while", [["try", [["do", 1]], [[0, [["abort"]]]]], T(9)]]]}, {"body": [["do", 2]]}, {"body": [T(1), T(2), T(3), T(4)]}]}
        untl = {"behs": [{"body": [["dountil", 1, 0], T(9)]}, {"body": [["do", 2]]}, {"body": [T(1), T(2), T(3), T(4)]}]}
        for key, pr, wa, why in (("direct:abandoned-subs", deep, None, f"abort at step {t0} stops both sub-behaviours in that step"),
                                 ("direct:until-stops-subs", untl, [1, 2, 3][:t0] + [9], f"`do .. until` firing at step {t0} stops the sub-behaviours")):
            r = run_real(pr, pulse, [], 6)
            ctx.case(("stops", key, t0))
            dev = judge_stops(r, "ok", wa, {t0: ["-1", "-2"]})
            ctx.hist("direct_template", key + (":DEVIATES" if dev else ":ok"))
            if dev:
                found |= ctx.violation(key, f"{why}: " + "; ".join(dev) + f"; events {r['events']}",
                                       {"kind": "run", "prog": pr, "ctab": pulse, "gtab": [], "steps": 6, "oracle": "stops",
                                        "expected": {"outcome": "ok", "actions": wa, "stops": {str(t0): ["-1", "-2"]}}})
    return found


PROBE_T9 = '''
behavior B():
    invariant: self.position.x < 100
    try:
        wait
        wait
    interrupt when False:
        wait
ego = new Object with behavior B
'''


EXC_SRC = """import c13env as E
behavior B1():
    take 1
    take 2
    take 3
    take 4
    take 5
behavior B0():
    try:
        do B1()
    interrupt when E.c(0):
        raise ValueError("left by an exception")
    except ValueError:
        take 7
        take 8
    take 9
ego = new Object with behavior B0()
"""


def judge_stops(r, want_outcome, want_actions, stops):
    """deviations of an observation from: outcome, action prefix, and {step: sorted stop events of that step}"""
    dev = []
    if r["outcome"] != want_outcome:
        dev.append(f"outcome {r['outcome']} instead of {want_outcome}")
    if want_actions is not None and _acts(r)[: len(want_actions)] != want_actions:
        dev.append(f"actions {r['actions']} instead of {want_actions}")
    for t, want in (stops or {}).items():
        t = int(t)
        got = sorted(e for e in (r["events"][t] if t < len(r["events"]) else []) if e[0] == "-")
        if got != sorted(want):
            dev.append(f"sub-behaviours stopped in step {t}: {got} instead of {sorted(want)}")
    return dev


def direct_exceptional_exit(ctx):
    """A try-interrupt statement left by an exception while another of its blocks is suspended inside a sub-behaviour:
    the sub-behaviour is stopped in that very step (not when the generator happens to be finalised), and nothing of
    the simulation is left in the interpreter's global state.
    (i) the exception is an invariant violation raised when the handler resumes after its action;
    (ii) the exception is raised by a handler and caught by the statement's own `except` clause, whose body goes on
         acting for two more steps."""
    found = False
    T = lambda a: ["take", a]
    for t0 in ([1, 2] if _LEVEL == "quick" else [1, 2, 3]):
        pulse = [[int(t == t0) for t in range(8)]]
        viol = {"behs": [{"inv": [0], "body": [["try", [["do", 1]], [[0, [T(5), T(6)]]]], T(7)]}, {"body": [["do", 2]]},
                         {"body": [T(1), T(2), T(3), T(4), T(5)]}]}
        gt = [[1 if t != t0 + 1 else 0 for t in range(8)]]
        cases = [("direct:stops-on-violation", viol, pulse, gt, 6, f"viol:inv:0:{t0 + 1}", None, {t0 + 1: ["-1", "-2"]},
                  "an invariant violation leaves the statement while its body is suspended two sub-behaviours deep"),
                 ("direct:stops-on-exception", {"src": EXC_SRC, "behs": [], "main": 0}, pulse, [], 7, "ok",
                  ([1, 2, 3, 4][:t0] + [7, 8, 9, None])[:7], {t0: ["-1"]},
                  "a handler raises, the `except` clause of the statement takes over")]
        for key, prog, ct, gtab, steps, wo, wa, stops, why in cases:
            r = run_real(prog, ct, gtab, steps)
            ctx.case(("exc", key, t0), nontrivial=True)
            dev = judge_stops(r, wo, wa, stops)
            ctx.hist("direct_template", key + (":DEVIATES" if dev else ":ok"))
            if dev:
                found |= ctx.violation(key, f"{why}: " + "; ".join(dev) + f"; events per step {r['events']}; program:\n{source(prog)}ctab={ct} gtab={gtab}",
                                       {"kind": "run", "prog": prog, "ctab": ct, "gtab": gtab, "steps": steps, "oracle": "stops",
                                        "expected": {"outcome": wo, "actions": wa, "stops": {str(k): v for k, v in stops.items()}}})
    return found


def direct_regression(ctx):
    """probe_t9: runTryInterrupt used to re-check invariants with agent None (AttributeError); fixed in 7d55c579."""
    import scenic
    from scenic.core.simulators import DummySimulator
    env()
    ctx.case("probe_t9")
    try:
        sc = scenic.scenarioFromString(PROBE_T9)
        scene, _ = sc.generate(maxIterations=5)
        sim = DummySimulator().simulate(scene, maxSteps=4, maxIterations=1, raiseGuardViolations=True)
        ok = sim is not None
        detail = "rejected" if sim is None else ""
    except Exception as e:
        ok, detail = False, f"{type(e).__name__}: {e}"
    if not ok:
        return ctx.violation("direct:invariant-agent", "an invariant mentioning `self` in a behaviour with a try-interrupt statement: " + detail,
                             {"kind": "source", "source": PROBE_T9, "steps": 4})
    return False


# --------------------------------------------------------------------------- main
def run(ctx):
    ctx.rule = ("cases = (program of the interrupt fragment: nested try-interrupt <= depth 3, <= 3 handlers, loops, sub-behaviours, "
                "do-until, abort/break/continue/return, guards) x (step-indexed truth table of the interrupt conditions, all tables when "
                "few, else sampled in pulse/dense/sparse/constant styles) x (guard table with at most a few false/rejecting entries); "
                "non-trivial = the program has a try-interrupt statement and some condition is true at some step; distinct by content hash")
    ctx.assumptions += [
        "interrupt conditions and guards are functions of the time step only (no side effects); behaviours have no arguments or locals",
        "one agent; behaviours (not compose blocks of modular scenarios, not monitors) -- they share runTryInterrupt and the generated code",
        "finalisation of an abandoned generator happens when runTryInterrupt returns (CPython reference counting); validated by the "
        "correspondence run (stop events per step), not proved",
        "`except` clauses of try-interrupt, `do choose/shuffle`, `do .. for` are outside the model (`do .. for` shares the do-until code path)",
        "a handler that finishes without acting while its condition stays true makes the real scheduler loop forever; such inputs are "
        "predicted by the model (`diverge`) and not run on the real code",
    ]
    ctx.trusted_base += ["tools/translate/interrupts.py (template extraction of the configuration)",
                         "tools/props/c13.py (program generator, harness around DummySimulator, comparison)",
                         "lean/Driver/C13.lean (parser of the line protocol, `partial def`)"]
    ctx.fingerprint(FINGERPRINTS)
    from translate import interrupts
    cfg = None
    try:
        cfg, extra = interrupts.extract()
        ctx.gen("Interrupts", interrupts.to_lean(cfg, extra))
        ctx.extra["configuration"] = dict(cfg, **extra)
    except TemplateMismatch as e:
        ctx.escalated.append(f"translator tie lost (interrupts): {e}")
        ctx.notes.append(f"translator tie lost: {e}; the model runs with the last generated configuration, correspondence at thorough budget")
    pr = ctx.prove(THEOREMS, side_conditions=SIDE)
    ctx.extra.setdefault("timing", {})["prove_s"] = round(ctx.elapsed(), 1)
    if ctx.tier == "thorough" and pr.build_ok:
        ctx.leanchecker(["ScenicModel.Props.C13", "ScenicModel.Props.C13Sched", "ScenicModel.Props.C13Balance",
                         "ScenicModel.Props.C13Guards", "ScenicModel.Props.C13Flow", "ScenicModel.Props.C13Fuel", "ScenicModel.Props.C13Frozen"])
    have_driver = True
    try:
        got = ctx.driver(["C13 cfg"])[0]
        if cfg is not None and got != cfg_bits(cfg):
            rc, log = ctx.lake(["build", "drv_c13"])
            got = ctx.driver(["C13 cfg"])[0]
            if got != cfg_bits(cfg):
                raise Infra("the Lean driver does not carry the regenerated configuration")
        if cfg is None:
            cfg = {f: ch == "1" for f, ch in zip(CFG_FIELDS, got)}
    except Infra:
        if pr.build_ok:
            raise
        have_driver = False
    global _LEVEL
    found = False
    levels = ["quick"] + (["thorough"] if ctx.tier == "thorough" or ctx.escalated or ctx.brokens else [])
    for _LEVEL in levels:
        T = ctx.extra["timing"].setdefault(_LEVEL, {})
        # (S) first: cheap, and a concrete failing input found here ends the search
        found |= direct_regression(ctx)
        found |= direct_templates(ctx)
        found |= direct_exceptional_exit(ctx)
        T["templates_done_s"] = round(ctx.elapsed(), 1)
        if found:
            break
        found |= direct_flat_priority(ctx)
        T["flat_done_s"] = round(ctx.elapsed(), 1)
        if found:
            break
        if have_driver:
            found |= correspondence(ctx, cfg, pr.build_ok)
        T["correspondence_done_s"] = round(ctx.elapsed(), 1)
        if found:
            break
    ctx.extra["search_levels_run"] = levels[: levels.index(_LEVEL) + 1]
    _LEVEL = "quick"
    ctx.resolve_brokens(found)


def judge_flat(nh, lens, ct, r):
    """the flat-priority oracle on one observation -> (key, what) or None"""
    if r["outcome"] != "ok":
        return ("direct:flat:" + r["outcome"].split(":")[0], f"flat try-interrupt program ended with {r['outcome']}")
    acts = _acts(r)
    pos = {}
    done_stmt = False
    for t, a in enumerate(acts):
        if a is None or a == 999:
            done_stmt = True
            continue
        if done_stmt:
            return ("direct:flat:after-end", f"action {a} of the statement after the statement had ended (step {t})")
        blk, p = divmod(a - 1, 100)
        latest = max([j + 1 for j in range(nh) if ct[j][t]] + [0])
        if blk < latest:
            return ("direct:priority", f"step {t}: block {blk} acted although the condition of clause {latest - 1} "
                    f"(later in the source) was true; actions {acts}")
        exp = pos.get(blk, 0)
        if p != exp:
            return ("direct:resumption", f"step {t}: block {blk} produced its action #{p} but should have continued at #{exp}; actions {acts}")
        pos[blk] = (p + 1) % lens[blk] if blk else p + 1
    return None


def replay(ctx, path):
    """re-executes the recorded input on the real code; exit status 1 = the deviation reproduces, 0 = it does not"""
    body = json.load(open(path))
    rep = body.get("replay", body)
    if rep.get("kind") == "source":
        import scenic
        from scenic.core.simulators import DummySimulator
        env()
        print(rep["source"])
        try:
            sc = scenic.scenarioFromString(rep["source"])
            scene, _ = sc.generate(maxIterations=5)
            sim = DummySimulator().simulate(scene, maxSteps=rep.get("steps", 4), maxIterations=1, raiseGuardViolations=True)
            print("result:", "rejected" if sim is None else [list(a.values()) for a in sim.result.actions])
            bad = sim is None
        except Exception as e:
            print("raised", type(e).__name__, e)
            bad = True
        print("REPRODUCED" if bad else "not reproduced: the program runs to the end")
        return 1 if bad else 0
    if rep.get("kind") != "run":
        print(json.dumps(rep, indent=1)[:3000])
        print("(no concrete input recorded: a proof obligation / the correspondence broke and the search found no failing input)")
        return 1
    prog, ct, gt, steps = rep["prog"], rep["ctab"], rep["gtab"], rep["steps"]
    print(source(prog))
    print("conditions (row = condition, column = time step):", ct)
    print("guards     (0 false, 1 true, 2 rejection):        ", gt)
    r = run_real(prog, ct, gt, steps, raise_gv=rep.get("raise_gv", True))
    print("real code :", r["outcome"], " ".join(r["actions"]), "| events per step:", r["events"])
    e = rep.get("expected") or {}
    if e:
        print("expected  :", e.get("outcome"), e.get("actions"), ("| events per step: %s" % e["events"]) if "events" in e else "",
              ("| stops: %s" % e["stops"]) if "stops" in e else "")
    oracle = rep.get("oracle")
    dev = []
    if oracle == "flat-priority":
        j = judge_flat(rep["nh"], rep["lens"], ct, r)
        dev = [j[1]] if j else []
    elif oracle == "stops":
        dev = judge_stops(r, e["outcome"], e.get("actions"), e.get("stops"))
    elif oracle == "reject":
        dev = [] if r["outcome"] == "rejected" else [f"outcome {r['outcome']} instead of a rejected simulation"]
    elif "events" in e:  # model (specified configuration) vs real code
        exp = {"outcome": e["outcome"], "actions": [str(a) for a in e.get("actions") or []], "events": e["events"]}
        dev = [] if same(r, exp) else [first_diff(r, exp) + " differ from the specified behaviour"]
    elif e:  # template: outcome and a prefix of the action sequence
        dev = judge_stops(r, e["outcome"], e.get("actions"), None)
    try:
        if "src" not in prog:
            o = ctx.driver([run_line("spec", prog, ct, gt, steps), run_line("gen", prog, ct, gt, steps)])
            print("model (specified configuration):", o[0])
            print("model (generated configuration):", o[1])
    except Exception as ex:
        print("(Lean driver unavailable:", ex, ")")
    print("REPRODUCED: " + "; ".join(dev) if dev else "not reproduced: the real code behaves as specified on this input")
    return 1 if dev else 0
