"""C16 — region operations obey set semantics in full 3-D.

Proof:  lean/ScenicModel/Props/C16*.lean — set semantics of every exact handler and of every route of
        the double dispatch, termination / acceptance of every ordered pair of kinds (decided on the
        finite control abstraction for the table regenerated from /repo), height handling of the point
        predicates, distance / bounding box / nearest-hit / containment lemmas.
Tie:    (T) tools/translate/regionops.py regenerates the clause table and the height flags from the
        `isinstance` chains of regions.py on every run (Gen/RegionOps.lean; side conditions re-decided);
        (C) the Lean driver and the real classes are run on the same exactly representable shapes
        (dyadic rationals), all ordered pairs of kinds x height cases x lazy/eager, and compared on
        probe points that keep an exact margin from every boundary (margin decided in Lean);
        (S) the property itself on the real code, no model: membership of A op B against the
        membership of A and B, intersects against common probe points / constructed separation,
        distance, bounding boxes, sizes, containsRegion and projectVector against membership.
"""
import itertools
import json
import math
import random
import sys
import time
import warnings
from fractions import Fraction as Fr

from vlib.ctx import Infra, TemplateMismatch

THEOREMS = [
    # membership predicates of the classes
    "Scenic.Region.trueContains_eq_mem",
    "Scenic.Region.trueContains_eq_mem_all",
    "Scenic.Region.memCode_eq_mem",
    "Scenic.Region.memCode_eq_mem_all",
    "Scenic.Region.trueContains_composite_witness",
    "Scenic.Region.ptsSampler_support",
    "Scenic.Region.containsPoint_eq_mem",
    "Scenic.Region.containsPoint_footprint_witness",
    # set semantics of handlers and routes
    "Scenic.Region.runH_sound",
    "Scenic.Region.exec_sound",
    "Scenic.Region.exec_sound_c",
    "Scenic.Region.polySub_curve_sound",
    "Scenic.Region.exec_keeps_height",
    "Scenic.Region.polyAnd_drops_height_witness",
    "Scenic.Region.elevated_polygon_polyline_witness",
    "Scenic.Region.union_polyline_dropped_witness",
    # intersects
    "Scenic.Region.intersects_sound",
    "Scenic.Region.intersects_sound'",
    "Scenic.Region.nonempty_iff",
    "Scenic.Region.disc_intersects_iff",
    "Scenic.Region.disc_intersects_height_witness",
    "Scenic.Region.ptsAny_footprint_witness",
    # distance
    "Scenic.Region.disc_dist_zero_iff_mem",
    "Scenic.Region.pts_dist_zero_iff_mem",
    "Scenic.Region.box_dist_zero_iff_mem",
    "Scenic.Region.disc_dist_plane_witness",
    "Scenic.Region.pts_dist_is_min",
    "Scenic.Region.box_dist_is_min",
    "Scenic.Region.disc_dist_lower_bound",
    # bounding boxes, nearest hit, containment
    "Scenic.Region.aabb_contains",
    "Scenic.Region.selectHit_nearest",
    "Scenic.Region.selectHit_first_witness",
    "Scenic.Region.containsRegion_consistent",
    "Scenic.Region.containsRegion_height_witness",
    # projection along a direction
    "Scenic.Region.slab_iff",
    "Scenic.Region.rayHit_first",
    "Scenic.Region.rayHit_none",
    "Scenic.Region.projectVector_nearest",
    # the property on the regenerated data
    "Scenic.C16.mem_intersect",
    "Scenic.C16.mem_union",
    "Scenic.C16.mem_difference",
    "Scenic.C16.result_keeps_height",
    "Scenic.C16.intersects_iff_common_point",
    "Scenic.C16.dispatch_terminates",
    "Scenic.C16.lazy_union_loop_witness",
    "Scenic.C16.project_nearest",
    "Scenic.C16.sampler_membership",
    "Scenic.C16.true_membership",
    "Scenic.C16.pointset_sampler_support",
    "Scenic.C16.intersects_composite_witness",
]
SIDE = [
    "Scenic.C16.gen_flags_ok",
    "Scenic.C16.gen_routes_terminate",
    "Scenic.C16.gen_routes_sound",
    "Scenic.C16.gen_routes_sound_strict",
    "Scenic.C16.gen_workspace_delegates",
    "Scenic.C16.gen_routes_intersects_sound",
    "Scenic.C16.gen_planar_routes",
]

_R = "src/scenic/core/regions.py"
FINGERPRINTS = {
    "Region.intersects": (_R, "Region.intersects"), "Region.intersect": (_R, "Region.intersect"),
    "Region.union": (_R, "Region.union"), "Region.difference": (_R, "Region.difference"),
    "Region.containsRegion": (_R, "Region.containsRegion"), "Region._trueContainsPoint": (_R, "Region._trueContainsPoint"),
    "AllRegion": (_R, "AllRegion"), "EmptyRegion": (_R, "EmptyRegion"),
    "IntersectionRegion": (_R, "IntersectionRegion"), "UnionRegion": (_R, "UnionRegion"),
    "DifferenceRegion": (_R, "DifferenceRegion"), "toPolygon": (_R, "toPolygon"),
    "regionFromShapelyObject": (_R, "regionFromShapelyObject"), "convertToFootprint": (_R, "convertToFootprint"),
    "MeshRegion.projectVector": (_R, "MeshRegion.projectVector"), "MeshRegion.AABB": (_R, "MeshRegion.AABB"),
    "MeshVolumeRegion.intersects": (_R, "MeshVolumeRegion.intersects"),
    "MeshVolumeRegion.intersect": (_R, "MeshVolumeRegion.intersect"),
    "MeshVolumeRegion.union": (_R, "MeshVolumeRegion.union"),
    "MeshVolumeRegion.difference": (_R, "MeshVolumeRegion.difference"),
    "MeshVolumeRegion.containsPoint": (_R, "MeshVolumeRegion.containsPoint"),
    "MeshVolumeRegion.distanceTo": (_R, "MeshVolumeRegion.distanceTo"),
    "MeshVolumeRegion.containsRegionInner": (_R, "MeshVolumeRegion.containsRegionInner"),
    "MeshSurfaceRegion.intersects": (_R, "MeshSurfaceRegion.intersects"),
    "MeshSurfaceRegion.containsPoint": (_R, "MeshSurfaceRegion.containsPoint"),
    "MeshSurfaceRegion.distanceTo": (_R, "MeshSurfaceRegion.distanceTo"),
    "PolygonalFootprintRegion": (_R, "PolygonalFootprintRegion"),
    "PathRegion": (_R, "PathRegion"),
    "PolygonalRegion": (_R, "PolygonalRegion"),
    "CircularRegion": (_R, "CircularRegion"),
    "RectangularRegion": (_R, "RectangularRegion"),
    "PolylineRegion": (_R, "PolylineRegion"),
    "PointSetRegion": (_R, "PointSetRegion"),
    "Workspace": ("src/scenic/core/workspaces.py", "Workspace"),
    "polygonUnion": ("src/scenic/core/geometry.py", "polygonUnion"),
    "Vector.distanceTo": ("src/scenic/core/vectors.py", "Vector.distanceTo"),
}

MARGIN = Fr(1, 32)
OPS3 = ("intersect", "union", "difference")
KINDS = ("all", "empty", "poly", "disc", "foot", "line", "path", "pts", "vol", "surf", "comp")


# =========================================================================== exact numbers
def fs(x):
    x = Fr(x)
    return f"{x.numerator}/{x.denominator}"


def F(x):
    return Fr(x)


def quat_axes(q):
    """columns of the rotation matrix of the (integer) quaternion q = (w, x, y, z), exact"""
    w, x, y, z = (Fr(c) for c in q)
    n = w * w + x * x + y * y + z * z
    R = [[(w * w + x * x - y * y - z * z) / n, 2 * (x * y - w * z) / n, 2 * (x * z + w * y) / n],
         [2 * (x * y + w * z) / n, (w * w - x * x + y * y - z * z) / n, 2 * (y * z - w * x) / n],
         [2 * (x * z - w * y) / n, 2 * (y * z + w * x) / n, (w * w - x * x - y * y + z * z) / n]]
    cols = [tuple(R[i][j] for i in range(3)) for j in range(3)]
    return cols  # u, v, w


# =========================================================================== region specs
# spec forms (nested tuples of Fractions):
#   ("all",) ("empty",) ("planar", z, shape, variant) ("disc", z, cx, cy, r) ("foot", shape)
#   ("line", ((x,y),...)) ("path", ((x,y,z),...)) ("pts", ((x,y,z),...))
#   ("vol", c, h, quat) ("surf", c, h, quat) ("lzy", spec) ("inter"|"union"|"diff", a, b)
#   shape = ("poly", ((x,y),...)) | ("disc", cx, cy, r)
def shape_tokens(s):
    if s[0] == "poly":
        return ["poly", str(len(s[1]))] + [fs(c) for v in s[1] for c in v]
    return ["disc", fs(s[1]), fs(s[2]), fs(s[3])]


def tokens(spec):
    k = spec[0]
    if k in ("all", "empty"):
        return [k]
    if k == "planar":
        return ["planar", fs(spec[1])] + shape_tokens(spec[2])
    if k == "disc":
        return ["disc"] + [fs(c) for c in spec[1:5]]
    if k == "foot":
        return ["foot"] + shape_tokens(spec[1])
    if k in ("line", "path", "pts"):
        return [k, str(len(spec[1]))] + [fs(c) for v in spec[1] for c in v]
    if k in ("vol", "surf"):
        u, v, w = quat_axes(spec[3])
        return [k] + [fs(c) for c in spec[1]] + [fs(c) for c in spec[2]] + [fs(c) for ax in (u, v, w) for c in ax]
    if k == "lzy":
        return ["lzy"] + tokens(spec[1])
    if k in ("inter", "union", "diff"):
        return [k] + tokens(spec[1]) + tokens(spec[2])
    raise ValueError(spec)


def kind_of(spec):
    k = spec[0]
    if k == "lzy":
        return kind_of(spec[1])
    return {"planar": "poly", "inter": "comp", "union": "comp", "diff": "comp"}.get(k, k)


def z_of(spec):
    if spec[0] == "lzy":
        return z_of(spec[1])
    if spec[0] in ("planar", "disc"):
        return spec[1]
    return None


def is_lazy(spec):
    return spec[0] == "lzy"


def unlazy(spec):
    return spec[1] if spec[0] == "lzy" else spec


def spec_json(spec):
    if isinstance(spec, tuple):
        return [spec_json(x) for x in spec]
    if isinstance(spec, Fr):
        return fs(spec)
    return spec


def spec_unjson(j):
    if isinstance(j, list):
        return tuple(spec_unjson(x) for x in j)
    if isinstance(j, str) and "/" in j and j.replace("/", "").replace("-", "").isdigit():
        return Fr(j)
    return j


def pts_tokens(ps):
    return [str(len(ps))] + [fs(c) for p in ps for c in p]


# =========================================================================== real regions
_mods = {}


def real():
    if not _mods:
        warnings.filterwarnings("ignore")
        import numpy
        import scenic  # noqa
        import shapely.geometry
        import trimesh
        from scipy.spatial.transform import Rotation
        from scenic.core import regions as R
        from scenic.core.distributions import Range, Samplable, needsSampling
        from scenic.core.vectors import Orientation, Vector
        from scenic.core.workspaces import Workspace
        _mods.update(numpy=numpy, shapely=shapely, trimesh=trimesh, Rotation=Rotation, R=R, Range=Range,
                     Samplable=Samplable, needsSampling=needsSampling, Orientation=Orientation, Vector=Vector,
                     Workspace=Workspace)
    return _mods


def build_shape(s):
    M = real()
    if s[0] == "poly":
        return M["shapely"].geometry.Polygon([(float(x), float(y)) for x, y in s[1]])
    return M["R"].CircularRegion(M["Vector"](float(s[1]), float(s[2]), 0), float(s[3])).polygons


def build(spec, lazy=False):
    """the real region for a spec; `lazy` makes one parameter random (a degenerate Range)"""
    M = real()
    R, V = M["R"], M["Vector"]
    k = spec[0]
    if k == "all":
        return R.everywhere
    if k == "empty":
        return R.nowhere
    if k == "lzy":
        return build(spec[1], lazy=True)
    if k == "planar":
        z = float(spec[1])
        zz = M["Range"](z, z) if lazy else z
        variant = spec[3] if len(spec) > 3 else "points"
        s = spec[2]
        if variant == "rect" and not lazy:
            xs = [v[0] for v in s[1]]
            ys = [v[1] for v in s[1]]
            cx, cy = (min(xs) + max(xs)) / 2, (min(ys) + max(ys)) / 2
            return R.RectangularRegion(V(float(cx), float(cy), z), 0, float(max(xs) - min(xs)), float(max(ys) - min(ys)))
        if variant == "polygon" and not lazy:
            return R.PolygonalRegion(polygon=build_shape(s), z=z)
        return R.PolygonalRegion(points=[(float(x), float(y)) for x, y in s[1]], z=zz)
    if k == "disc":
        r = float(spec[4])
        return R.CircularRegion(V(float(spec[2]), float(spec[3]), float(spec[1])), M["Range"](r, r) if lazy else r)
    if k == "foot":
        return R.PolygonalFootprintRegion(build_shape(spec[1]))
    if k == "line":
        return R.PolylineRegion(points=[(float(x), float(y)) for x, y in spec[1]])
    if k == "path":
        return R.PathRegion(points=[tuple(float(c) for c in p) for p in spec[1]])
    if k == "pts":
        return R.PointSetRegion("pts", [tuple(float(c) for c in p) for p in spec[1]])
    if k in ("vol", "surf"):
        c, h, q = spec[1], spec[2], spec[3]
        w, x, y, z = (float(t) for t in q)
        rot = None if (x, y, z) == (0, 0, 0) else M["Orientation"](M["Rotation"].from_quat([x, y, z, w]))
        dims = tuple(2 * float(t) for t in h)
        pos = V(*(float(t) for t in c))
        if k == "vol":
            if lazy:
                pos = V(M["Range"](float(c[0]), float(c[0])), float(c[1]), float(c[2]))
            return R.BoxRegion(dimensions=dims, position=pos, rotation=rot)
        return R.MeshSurfaceRegion(M["trimesh"].creation.box((1, 1, 1)), dimensions=dims, position=pos, rotation=rot)
    if k in ("inter", "union", "diff"):
        a, b = build(spec[1]), build(spec[2])
        cls = {"inter": R.IntersectionRegion, "union": R.UnionRegion, "diff": R.DifferenceRegion}[k]
        return cls(a, b)
    raise ValueError(spec)


def vec(p):
    return real()["Vector"](float(p[0]), float(p[1]), float(p[2]))


def sample_if_lazy(r):
    M = real()
    if M["needsSampling"](r):
        return M["Samplable"].sampleAll([r])[r]
    return r


def py_mem3(r, v):
    """3-coordinate membership on the real classes: `_trueContainsPoint` of every primitive part"""
    R = real()["R"]
    if isinstance(r, R.IntersectionRegion):
        return all(py_mem3(x, v) for x in r.regions)
    if isinstance(r, R.UnionRegion):
        return any(py_mem3(x, v) for x in r.regions)
    if isinstance(r, R.DifferenceRegion):
        return py_mem3(r.regionA, v) and not py_mem3(r.regionB, v)
    if isinstance(r, R.PolylineRegion):
        # PolylineRegion.containsPoint is an exact predicate on (for results: rounded) vertices; a point of the
        # ideal curve can miss the rounded one by 1e-16, so membership of curves is taken with a tolerance
        return float(r.distanceTo(v)) <= 1e-9
    return bool(r._trueContainsPoint(v))


def py_type(r):
    R = real()["R"]
    if isinstance(r, (bool,)) or type(r).__name__ == "bool_":
        return "bool"
    for cls, nm in ((R.EmptyRegion, "empty"), (R.AllRegion, "all"), (R.CircularRegion, "disc"), (R.PolygonalRegion, "poly"),
                    (R.PolygonalFootprintRegion, "foot"), (R.PolylineRegion, "line"), (R.PathRegion, "path"),
                    (R.PointSetRegion, "pts"), (R.MeshVolumeRegion, "vol"), (R.MeshSurfaceRegion, "surf"),
                    (R.IntersectionRegion, "comp:intersect"), (R.UnionRegion, "comp:union"), (R.DifferenceRegion, "comp:difference")):
        if isinstance(r, cls):
            return nm
    return type(r).__name__


RAW = {}


def run_op(A, B, op):
    """-> (status, value): ok/bool/notimpl/crash; RAW['type'] = kind of the result before sampling lazy operands"""
    RAW["type"] = None
    try:
        r = getattr(A, op)(B)
        RAW["type"] = py_type(r)
    except NotImplementedError as e:
        return "notimpl", str(e)[:80]
    except RecursionError:
        return "crash", "RecursionError"
    except Exception as e:  # noqa
        if type(e).__name__ == "RandomControlFlowError":
            return "notimpl", "RandomControlFlowError"     # Scenic's explicit refusal to branch on a random value
        return "crash", type(e).__name__
    try:
        r = sample_if_lazy(r)
    except NotImplementedError as e:
        return "notimpl", str(e)[:80]
    except RecursionError:
        return "crash", "RecursionError"
    except Exception as e:  # noqa
        return "crash", "sample:" + type(e).__name__
    if op == "intersects":
        return "bool", bool(r)
    if r is None:
        return "crash", "None"
    return "ok", r


# =========================================================================== generators
QUATS = [(1, 0, 0, 0), (1, 0, 0, 0), (2, 0, 0, 1), (3, 1, 0, 0), (2, 1, 1, 0), (3, 0, 1, 1), (1, 0, 0, 1)]


def d8(rng, lo, hi):
    """a dyadic rational with denominator 8 in [lo, hi]"""
    return Fr(rng.randint(int(lo * 8), int(hi * 8)), 8)


def gen_poly(rng):
    """a simple polygon around (3,3) with dyadic vertices -> (verts, variant)"""
    kind = rng.choice(["rect", "rect", "quad", "tri", "ell", "rectpts"])
    x0, y0 = d8(rng, 0, 2), d8(rng, 0, 2)
    x1, y1 = x0 + d8(rng, 2, 4), y0 + d8(rng, 2, 4)
    if kind in ("rect", "rectpts"):
        return ((x0, y0), (x1, y0), (x1, y1), (x0, y1)), ("rect" if kind == "rect" else "points")
    if kind == "quad":   # convex: perturb the corners outwards only
        e = [d8(rng, 0, Fr(1, 2)) for _ in range(4)]
        return ((x0 - e[0], y0), (x1, y0 - e[1]), (x1 + e[2], y1), (x0, y1 + e[3])), rng.choice(["points", "polygon"])
    if kind == "tri":
        return ((x0, y0), (x1 + 1, y0 + Fr(1, 2)), (x0 + Fr(1, 2), y1 + 1)), "points"
    # L shape (non-convex)
    mx, my = (x0 + x1) / 2, (y0 + y1) / 2
    return ((x0, y0), (x1, y0), (x1, my), (mx, my), (mx, y1), (x0, y1)), rng.choice(["points", "polygon"])


def gen_shape(rng):
    if rng.random() < 0.3:
        return ("disc", d8(rng, 2, 4), d8(rng, 2, 4), rng.choice([Fr(1), Fr(3, 2), Fr(2), Fr(5, 2)]))
    return ("poly", gen_poly(rng)[0])


def gen_region(rng, kind, z, zs):
    """a region of the given kind placed around (3, 3, z); zs = heights of interest for 3-D kinds"""
    if kind in ("all", "empty"):
        return (kind,)
    if kind == "poly":
        vs, variant = gen_poly(rng)
        return ("planar", z, ("poly", vs), variant)
    if kind == "disc":
        return ("disc", z, d8(rng, 2, 4), d8(rng, 2, 4), rng.choice([Fr(1), Fr(3, 2), Fr(2), Fr(5, 2)]))
    if kind == "foot":
        return ("foot", gen_shape(rng))
    if kind == "line":
        n = rng.choice([2, 3, 4])
        xs = sorted(rng.sample([Fr(k, 4) for k in range(-6, 34)], n))
        return ("line", tuple((x, d8(rng, 0, 6)) for x in xs))
    if kind == "path":
        n = rng.choice([2, 3])
        xs = sorted(rng.sample([Fr(k, 4) for k in range(-6, 34)], n))
        flat = rng.random() < 0.5
        zz = rng.choice(zs)
        return ("path", tuple((x, d8(rng, 0, 6), zz if flat else rng.choice(zs) + d8(rng, -1, 1)) for x in xs))
    if kind == "pts":
        n = rng.randint(3, 7)
        ps = set()
        while len(ps) < n:
            ps.add((d8(rng, 0, 6), d8(rng, 0, 6), rng.choice(list(zs) + [Fr(0), zs[0] + Fr(1, 2)])))
        return ("pts", tuple(sorted(ps)))
    if kind in ("vol", "surf"):
        c = (d8(rng, 2, 4), d8(rng, 2, 4), rng.choice(zs) + rng.choice([Fr(0), Fr(1, 2), Fr(-1, 4), Fr(1)]))
        h = (d8(rng, 1, 2), d8(rng, 1, 2), d8(rng, 1, 2))
        return (kind, c, h, rng.choice(QUATS))
    if kind == "comp":
        a = gen_region(rng, rng.choice(["poly", "disc", "vol", "foot"]), z, zs)
        b = gen_region(rng, rng.choice(["poly", "vol", "foot", "disc"]), z, zs)
        return (rng.choice(["inter", "union", "diff"]), a, b)
    raise ValueError(kind)


def special_points(spec, zs):
    """exactly representable members / near-members of a region (on curves, at points, on faces)"""
    k = spec[0]
    out = []
    if k == "lzy":
        return special_points(spec[1], zs)
    if k == "line":
        c = spec[1]
        for a, b in zip(c, c[1:]):
            for t in (Fr(1, 4), Fr(1, 2), Fr(3, 4)):
                q = (a[0] + t * (b[0] - a[0]), a[1] + t * (b[1] - a[1]))
                for z in [Fr(0)] + list(zs):
                    out.append((q[0], q[1], z))
    elif k == "path":
        c = spec[1]
        for a, b in zip(c, c[1:]):
            for t in (Fr(1, 4), Fr(1, 2), Fr(3, 4), Fr(1, 8)):
                q = tuple(a[i] + t * (b[i] - a[i]) for i in range(3))
                out.append(q)
                out.append((q[0], q[1], q[2] + Fr(1, 2)))
    elif k == "pts":
        for p in spec[1]:
            out.append(p)
            for z in [Fr(0)] + list(zs):
                out.append((p[0], p[1], z))
    elif k == "surf":
        c, h, q = spec[1], spec[2], spec[3]
        u, v, w = quat_axes(q)
        for (i, sgn) in itertools.product(range(3), (1, -1)):
            for s, t in ((Fr(0), Fr(0)), (Fr(1, 2), Fr(-1, 4))):
                loc = [s * h[(i + 1) % 3], t * h[(i + 2) % 3]]
                l = [None] * 3
                l[i] = sgn * h[i]
                l[(i + 1) % 3] = loc[0]
                l[(i + 2) % 3] = loc[1]
                out.append(tuple(c[j] + l[0] * u[j] + l[1] * v[j] + l[2] * w[j] for j in range(3)))
    elif k in ("inter", "union", "diff"):
        out += special_points(spec[1], zs) + special_points(spec[2], zs)
    return out


def gen_probes(rng, A, B, zs, n):
    zall = sorted(set(list(zs) + [Fr(0)] + [z + Fr(1, 2) for z in zs]))
    ps = []
    for s in (A, B):
        for p in special_points(s, zs):
            ps.append(p)
    rng.shuffle(ps)
    ps = ps[: max(n // 2, 12)]
    # 3-D things: heights around their centres
    zextra = []
    for s in (A, B):
        t = s[1] if s[0] == "lzy" else s
        if t[0] in ("vol", "surf"):
            zextra += [t[1][2], t[1][2] + Fr(1, 2), t[1][2] - Fr(3, 4)]
        if t[0] == "path":
            zextra += [p[2] for p in t[1]]
    while len(ps) < n:
        z = rng.choice(zall + zextra) if rng.random() < 0.85 else d8(rng, -1, 7)
        ps.append((d8(rng, -1, 8), d8(rng, -1, 8), z))
    seen, out = set(), []
    for p in ps:
        if p not in seen:
            seen.add(p)
            out.append(p)
    return out


ZCASES = {
    # name: (zA, zB)
    "eq": (Fr(5), Fr(5)),
    "ne": (Fr(5), Fr(3)),
    "flat": (Fr(0), Fr(0)),
    "a-flat": (Fr(0), Fr(5, 2)),
    "neg": (Fr(-2), Fr(-2)),
    "neg-ne": (Fr(-2), Fr(2)),
}


def zcase_key(A, B):
    za, zb = z_of(A), z_of(B)
    ka, kb = kind_of(A), kind_of(B)
    if za is not None and zb is not None:
        return "z-equal" if za == zb else "z-differ"
    z = za if za is not None else zb
    if z is None:
        return "na"
    return "elevated" if z != 0 else "flat"


def norm_kind(k):
    return k


# =========================================================================== one case = (A, B) + probes
class Case:
    def __init__(self, A, B, probes, zs, separated=False, nested=False):
        self.A, self.B, self.probes, self.zs, self.separated, self.nested = A, B, probes, zs, separated, nested
        self.safe = None   # filled from Lean (exact margin) or the float fallback

    def key(self, op=None):
        """identity of the call site for the findings file: kinds (CircularRegion counts as a polygon except for its own
        `intersects`), height case; laziness only matters for crashes"""
        ka, kb = kind_of(self.A), kind_of(self.B)
        if not (op == "intersects" and ka == "disc" and kb == "disc"):
            ka, kb = ("poly" if k == "disc" else k for k in (ka, kb))
        return f"{ka}-{kb}:{zcase_key(self.A, self.B)}"

    def lazy(self):
        return "lazy" if (is_lazy(self.A) or is_lazy(self.B)) else "eager"

    def replay(self, **extra):
        d = {"A": spec_json(self.A), "B": spec_json(self.B), "probes": spec_json(tuple(self.probes)),
             "zs": spec_json(tuple(self.zs))}
        d.update(extra)
        return d


LAZY_OK = ("poly", "disc", "vol")


def gen_cases(ctx, rng):
    """all ordered pairs of kinds x height cases (+ lazy variants, + separated variants)"""
    cases = []
    reps = ctx.budget(1, 6)
    nprobe = ctx.budget(48, 160)
    kinds = list(KINDS)
    for rep in range(reps):
        for ka in kinds:
            for kb in kinds:
                planar = [k in ("poly", "disc") for k in (ka, kb)]
                if all(planar):
                    zc = ["eq", "ne", "flat", rng.choice(["neg", "neg-ne", "a-flat"])] if rep == 0 \
                        else [rng.choice(["eq", "ne", "flat", "a-flat", "neg", "neg-ne"])]
                elif any(planar) or "comp" in (ka, kb):
                    zc = ["eq", "flat", "neg"] if rep == 0 else [rng.choice(["eq", "flat", "neg"])]
                else:
                    zc = ["eq"]
                for z in zc:
                    za, zb = ZCASES[z]
                    zs = sorted({za, zb} | ({Fr(0)} if rng.random() < 0.5 else set()))
                    A = gen_region(rng, ka, za, zs)
                    B = gen_region(rng, kb, zb, zs)
                    variants = [(A, B)]
                    if (ka in LAZY_OK or kb in LAZY_OK) and (rep == 0 or rng.random() < 0.3):
                        which = rng.choice([c for c in ("a", "b", "ab") if all({"a": ka, "b": kb}[t] in LAZY_OK for t in c)])
                        variants.append((("lzy", A) if "a" in which else A, ("lzy", B) if "b" in which else B))
                    for (a, b) in variants:
                        cases.append(Case(a, b, gen_probes(rng, a, b, zs, nprobe), zs))
    # constructed separations: same shapes far apart / at another height -> intersects must be False
    for ka in ("poly", "disc", "line", "pts", "vol", "foot", "path", "surf"):
        for kb in ("poly", "disc", "line", "pts", "vol", "foot", "path", "surf"):
            for _ in range(ctx.budget(1, 3)):
                zs = [Fr(5)]
                A = gen_region(rng, ka, Fr(5), zs)
                B = shift(gen_region(rng, kb, Fr(5), zs), Fr(40))
                cases.append(Case(A, B, gen_probes(rng, A, B, zs, 24), zs, separated=True))
    # constructed containments (B inside A's outline), at the same and at another height
    sq_a = ((Fr(0), Fr(0)), (Fr(6), Fr(0)), (Fr(6), Fr(6)), (Fr(0), Fr(6)))
    sq_b = ((Fr(2), Fr(2)), (Fr(4), Fr(2)), (Fr(4), Fr(4)), (Fr(2), Fr(4)))
    for za, zb in ((Fr(5), Fr(5)), (Fr(5), Fr(3)), (Fr(0), Fr(0))):
        zs = sorted({za, zb})
        outer = [("planar", za, ("poly", sq_a), "points"), ("disc", za, Fr(3), Fr(3), Fr(3)), ("foot", ("poly", sq_a))]
        inner = [("planar", zb, ("poly", sq_b), "points"), ("disc", zb, Fr(3), Fr(3), Fr(1))]
        for A in outer:
            for B in inner:
                cases.append(Case(A, B, gen_probes(rng, A, B, zs, 40), zs, nested=True))
    pa = tuple((Fr(x), Fr(y), Fr(z)) for x, y, z in ((1, 1, 0), (2, 2, 0), (3, 1, 5), (4, 4, 5), (5, 2, 0)))
    cases.append(Case(("pts", pa), ("pts", pa[1:4]), gen_probes(rng, ("pts", pa), ("pts", pa[1:4]), [Fr(0), Fr(5)], 24),
                      [Fr(0), Fr(5)], nested=True))
    return cases


def shift(spec, dx):
    """translate a region by dx along x"""
    k = spec[0]
    def sh_shape(s):
        if s[0] == "poly":
            return ("poly", tuple((x + dx, y) for x, y in s[1]))
        return ("disc", s[1] + dx, s[2], s[3])
    if k == "planar":
        return ("planar", spec[1], sh_shape(spec[2]), "points" if spec[3] == "rect" else spec[3])
    if k == "disc":
        return ("disc", spec[1], spec[2] + dx, spec[3], spec[4])
    if k == "foot":
        return ("foot", sh_shape(spec[1]))
    if k == "line":
        return ("line", tuple((x + dx, y) for x, y in spec[1]))
    if k in ("path", "pts"):
        return (k, tuple((x + dx, y, z) for x, y, z in spec[1]))
    if k in ("vol", "surf"):
        return (k, (spec[1][0] + dx, spec[1][1], spec[1][2]), spec[2], spec[3])
    return spec


# =========================================================================== float fallback for the margin
def near_py(spec, p, m=float(MARGIN)):
    """float version of the Lean `near` (used only when the Lean driver is unavailable)"""
    M = real()
    sh = M["shapely"]
    k = spec[0]
    x, y, z = (float(c) for c in p)
    if k == "lzy":
        return near_py(spec[1], p, m)
    if k in ("all", "empty"):
        return False
    if k in ("planar", "disc", "foot"):
        s = spec[2] if k == "planar" else (("disc",) + tuple(spec[2:5]) if k == "disc" else spec[1])
        if s[0] == "poly":
            d = sh.geometry.Polygon([(float(a), float(b)) for a, b in s[1]]).exterior.distance(sh.geometry.Point(x, y))
        else:
            d = abs(math.hypot(x - float(s[1]), y - float(s[2])) - float(s[3]))
        if d <= m:
            return True
        if k != "foot":
            zz = float(spec[1])
            return z != zz and abs(z - zz) <= m
        return False
    if k == "line":
        ls = sh.geometry.LineString([(float(a), float(b)) for a, b in spec[1]])
        d = math.hypot(ls.distance(sh.geometry.Point(x, y)), z)
        onit = z == 0 and d < 1e-12
        return (d <= m and not onit) or any(math.dist((x, y, z), (float(a), float(b), 0)) <= m for a, b in spec[1])
    if k == "path":
        r = build(spec)
        d = float(r.distanceTo(vec(p)))
        return (d <= m and d > 1e-9) or any(math.dist((x, y, z), tuple(float(c) for c in v)) <= m for v in spec[1])
    if k == "pts":
        return any(0 < math.dist((x, y, z), tuple(float(c) for c in v)) <= m for v in spec[1])
    if k in ("vol", "surf"):
        r = build(("surf",) + tuple(spec[1:]))
        d = float(r.distanceTo(vec(p)))
        return d <= m and not (k == "surf" and d < 1e-9)
    return near_py(spec[1], p, m) or near_py(spec[2], p, m)


# =========================================================================== findings keys
def kk(k):
    return k


def setsem_key(op, case):
    return f"setsem:{op}:{case.key(op)}"


DIM = {"all": 4, "empty": 0, "poly": 2, "disc": 2, "foot": 3, "line": 1, "path": 1, "pts": 0, "vol": 3, "surf": 2, "comp": None}


# =========================================================================== the run
def compute_safe(ctx, cases, use_lean):
    """probe points keeping the exact margin from every boundary of both operands"""
    if use_lean:
        lines = []
        for c in cases:
            for s in (c.A, c.B):
                lines.append(" ".join(["C16", "near", fs(MARGIN)] + tokens(s) + pts_tokens(c.probes)))
        out = ctx.driver(lines)
        for i, c in enumerate(cases):
            a, b = out[2 * i], out[2 * i + 1]
            if not (a.startswith("ok ") and b.startswith("ok ")):
                raise Infra(f"Lean driver refused a near query: {a[:80]} / {b[:80]}")
            na, nb = a.split()[1], b.split()[1]
            c.safe = [x == "0" and y == "0" for x, y in zip(na, nb)]
    else:
        for c in cases:
            c.safe = [not (near_py(c.A, p) or near_py(c.B, p)) for p in c.probes]


def expected(op, a, b):
    return {"intersect": a and b, "union": a or b, "difference": a and not b}[op]


def tag_matches(tag, zinfo, st, val, case, op):
    """does the kind of result predicted by the model describe the real result?"""
    R = real()["R"]
    if st != "ok":
        return False
    t = py_type(val)
    if tag.startswith("same:"):
        want = tag[5:]
        if want == "empty":
            return t == "empty"
        if want == "all":
            return t == "all"
        return t == want or (want == "comp" and t.startswith("comp"))
    if tag == "planar":
        if t == "empty":
            return True
        return t in ("poly", "disc") and Fr(val.z) == Fr(zinfo) if zinfo != "-" else False
    if tag == "line":
        return t in ("line", "pts", "empty")
    if tag in ("foot", "path", "pts", "vol"):
        return t in (tag, "empty")
    if tag.startswith("comp:"):
        return t == tag.replace("+s", "")
    return False


def correspondence_and_oracle(ctx, cases, use_lean):
    M = real()
    found = False
    bad_corr = 0
    # ---- Lean side, one batch
    lean = {}
    if use_lean:
        lines, idx = [], []
        for ci, c in enumerate(cases):
            for s, nm in ((c.A, "A"), (c.B, "B")):
                lines.append(" ".join(["C16", "mem"] + tokens(s) + pts_tokens(c.probes)))
                idx.append((ci, "mem" + nm))
            for op in OPS3 + ("intersects",):
                lines.append(" ".join(["C16", "op", op] + tokens(c.A) + tokens(c.B) + pts_tokens(c.probes)))
                idx.append((ci, op))
                if is_lazy(c.A) or is_lazy(c.B):
                    # what sampling the lazy result re-dispatches to: the same operation on the sampled operands
                    lines.append(" ".join(["C16", "op", op] + tokens(unlazy(c.A)) + tokens(unlazy(c.B)) + pts_tokens(c.probes)))
                    idx.append((ci, op + ":sampled"))
        out = ctx.driver(lines)
        for (ci, what), o in zip(idx, out):
            lean[(ci, what)] = o
    # ---- real side
    for ci, c in enumerate(cases):
        try:
            A, B = build(c.A), build(c.B)
        except Exception as e:  # noqa
            ctx.hist("generator", "invalid:" + type(e).__name__)
            continue
        vs = [vec(p) for p in c.probes]
        ctx.hist("pair", f"{kind_of(c.A)}-{kind_of(c.B)}")
        ctx.hist("zcase", zcase_key(c.A, c.B))
        ctx.hist("lazy", f"{int(is_lazy(c.A))}{int(is_lazy(c.B))}")
        try:
            As, Bs = sample_if_lazy(A), sample_if_lazy(B)
            memA = [py_mem3(As, v) for v in vs]
            memB = [py_mem3(Bs, v) for v in vs]
            conA = [bool(As.containsPoint(v)) for v in vs]
            conB = [bool(Bs.containsPoint(v)) for v in vs]
            truA = [bool(As._trueContainsPoint(v)) for v in vs]
            truB = [bool(Bs._trueContainsPoint(v)) for v in vs]
        except Exception as e:  # noqa
            ctx.hist("generator", "membership-raised:" + type(e).__name__)
            continue
        safe = c.safe
        nsafe = sum(safe)
        ctx.hist("safe_probes", min(nsafe // 10 * 10, 150))
        # (C) point predicates of the operands
        if use_lean:
            for nm, mem, con, tru in (("A", memA, conA, truA), ("B", memB, conB, truB)):
                o = lean[(ci, "mem" + nm)].split()
                spec = c.A if nm == "A" else c.B
                if o[0] != "ok":
                    raise Infra("Lean driver: " + " ".join(o)[:100])
                for j, ok in enumerate(safe):
                    if not ok:
                        continue
                    lm, lc, lt, ltc = o[1][j] == "1", o[2][j] == "1", o[3][j] == "1", o[4][j] == "1"
                    curve = kind_of(spec) == "line" or (kind_of(spec) == "comp" and any(kind_of(x) == "line" for x in unlazy(spec)[1:3]))
                    if lt != mem[j] or lc != con[j] or (ltc != tru[j] and not curve):
                        bad_corr += 1
                        if bad_corr <= 6:
                            ctx.broken("correspondence", "point predicates (model vs regions.py)",
                                       f"{kind_of(spec)} {' '.join(tokens(spec))[:200]} at {[fs(t) for t in c.probes[j]]}: "
                                       f"model containsPoint={lc} sampler-membership={lt} _trueContainsPoint={ltc}; "
                                       f"code containsPoint={con[j]} sampler-membership={mem[j]} _trueContainsPoint={tru[j]}")
                        break
                    if lm != lt and kind_of(spec) != "comp":
                        # the code's 3-coordinate membership differs from the specification
                        key = f"membership:{kind_of(spec)}:{'elevated' if (z_of(spec) or 0) != 0 else 'flat'}"
                        if ctx.violation(key, f"_trueContainsPoint of {kind_of(spec)} disagrees with 3-coordinate membership at "
                                         f"{[float(t) for t in c.probes[j]]}: code {mem[j]}, specification {lm}",
                                         c.replay(kind="membership", which=nm, probe=j)):
                            found = True
                        break
        # operations
        for op in OPS3 + ("intersects",):
            ctx.case((op, spec_json(c.A), spec_json(c.B)), nontrivial=(any(memA[j] and safe[j] for j in range(len(vs)))
                                                                      or any(memB[j] and safe[j] for j in range(len(vs)))))
            # fresh operands for every op (results are cached on the regions)
            try:
                A2, B2 = build(c.A), build(c.B)
            except Exception:  # noqa
                continue
            st, val = run_op(A2, B2, op)
            ctx.hist("outcome:" + op, st if st != "crash" else "crash:" + str(val))
            lo = lean.get((ci, op), "").split()
            if lo:
                ctx.hist("route:" + op, lo[1][:70] if len(lo) > 1 else lo[0])
            pk = c.key(op)
            # ---------------- crashes
            if st == "crash":
                if use_lean and lo and lo[0] == "crash":
                    pass  # predicted by the model (the theorem `dispatch_terminates` excludes it) -> direct report below
                elif use_lean and lo:
                    bad_corr += 1
                    if bad_corr <= 6:
                        ctx.broken("correspondence", "dispatch outcome (model vs regions.py)",
                                   f"{op} {pk}: code raised {val}, model says {' '.join(lo[:3])[:120]}")
                key = f"crash:{op}:{c.lazy()}:{pk.split(':')[0]}:{val}"
                if ctx.violation(key, f"{kind_of(c.A)}.{op}({kind_of(c.B)}) raised {val} "
                                 f"(operands: {' '.join(tokens(c.A))[:120]} | {' '.join(tokens(c.B))[:120]})",
                                 c.replay(kind="op", op=op)):
                    found = True
                continue
            if st == "notimpl":
                ctx.hist("refused", f"{op}:{kind_of(c.A)}-{kind_of(c.B)}")
                if use_lean and lo and (is_lazy(c.A) or is_lazy(c.B)) and op == "intersects":
                    lo2 = lean.get((ci, op + ":sampled"), "").split()
                    if val == "RandomControlFlowError" or (lo2 and lo2[0] == "notimpl"):
                        continue
                if use_lean and lo and lo[0] != "notimpl":
                    bad_corr += 1
                    if bad_corr <= 6:
                        ctx.broken("correspondence", "dispatch outcome (model vs regions.py)",
                                   f"{op} {pk}: code refuses (NotImplementedError), model says {' '.join(lo[:3])[:120]}")
                continue
            # ---------------- intersects
            if op == "intersects":
                witness = [j for j in range(len(vs)) if safe[j] and memA[j] and memB[j]]
                truth = None
                if witness:
                    truth = True
                elif c.separated:
                    truth = False
                elif z_of(c.A) is not None and z_of(c.B) is not None and z_of(c.A) != z_of(c.B):
                    truth = False       # two planar regions at different heights share no point
                elif (kind_of(c.A) == "line" and (z_of(c.B) or 0) != 0) or (kind_of(c.B) == "line" and (z_of(c.A) or 0) != 0):
                    truth = False       # a polyline (height 0) and an elevated planar region share no point
                elif "pts" in (kind_of(c.A), kind_of(c.B)):
                    # a point set intersects exactly when one of its points is a member (points are probes)
                    P, Q, Qs = (c.A, B2, c.B) if kind_of(c.A) == "pts" else (c.B, A2, c.A)
                    t = P[1] if P[0] == "lzy" else P
                    if Qs[0] != "lzy" and not (Qs[0] in ("inter", "union", "diff") and any(kind_of(x) == "line" for x in Qs[1:3])):
                        # exact for every other kind (composites structurally); curves only up to rounding
                        qq = sample_if_lazy(Q)
                        truth = any(py_mem3(qq, vec(p)) for p in t[1])
                ctx.hist("intersects_truth", {True: "common-point", False: "separated", None: "undecided"}[truth])
                if truth is not None and val != truth:
                    key = f"intersects:{pk}:{'false-negative' if truth else 'false-positive'}"
                    w = c.probes[witness[0]] if witness else None
                    if ctx.violation(key, f"{kind_of(c.A)}.intersects({kind_of(c.B)}) = {val} but "
                                     + (f"{[float(t) for t in w]} belongs to both" if w else "the regions share no point")
                                     + f" ({' '.join(tokens(c.A))[:100]} | {' '.join(tokens(c.B))[:100]})",
                                     c.replay(kind="op", op=op, witness=witness[:1], truth=truth)):
                        found = True
                if use_lean and lo and (is_lazy(c.A) or is_lazy(c.B)):
                    # `intersects` of the polygonal / mesh classes is a distributionFunction: with lazy operands the call
                    # is deferred and evaluated on the sampled operands
                    lo = lean.get((ci, op + ":sampled"), "").split()
                if use_lean and lo:
                    if lo[0] != "bool":
                        bad_corr += 1
                        if bad_corr <= 6:
                            ctx.broken("correspondence", "dispatch outcome (model vs regions.py)",
                                       f"intersects {pk}: code returned {val}, model says {' '.join(lo[:3])[:120]}")
                    else:
                        lv = lo[2] == "1"
                        # the model's planar / spatial oracles only see the probes: a 1 is definite (a common point was
                        # exhibited), a 0 only means that no probe is a witness
                        definite0 = lo[1].split("(")[-1].rstrip(")") in ("retFalse", "discIntersects", "ptsAny", "ptsAnyTrue", "otherNotEmpty")
                        if (lv and not val) or (not lv and val and definite0):
                            bad_corr += 1
                            if bad_corr <= 6:
                                ctx.broken("correspondence", "intersects (model vs regions.py)",
                                           f"{pk}: code {val}, model {lv} via {lo[1][:80]}")
                continue
            # ---------------- intersect / union / difference
            try:
                memR = [py_mem3(val, v) if safe[j] else None for j, v in enumerate(vs)]
            except Exception as e:  # noqa
                key = f"crash:{op}:{pk}:result-membership-{type(e).__name__}"
                if ctx.violation(key, f"membership test of {kind_of(c.A)}.{op}({kind_of(c.B)}) = {py_type(val)} raised "
                                 f"{type(e).__name__}: {str(e)[:80]}", c.replay(kind="op", op=op)):
                    found = True
                continue
            ctx.hist("result:" + op, py_type(val))
            da, db = DIM[kind_of(c.A)], DIM[kind_of(c.B)]
            lowdim = da is not None and db is not None and db < da
            # (S) the property on the real code
            for j in range(len(vs)):
                if not safe[j]:
                    continue
                want = expected(op, memA[j], memB[j])
                if op == "difference" and memB[j] and lowdim:
                    continue    # removing a lower-dimensional set is not representable: its points are boundary points here
                if memR[j] != want:
                    key = setsem_key(op, c)
                    if ctx.violation(key, f"{kind_of(c.A)}.{op}({kind_of(c.B)}) [{zcase_key(c.A, c.B)}] -> {py_type(val)}"
                                     f"{'(z=%s)' % val.z if hasattr(val, 'z') else ''}: point {[float(t) for t in c.probes[j]]} "
                                     f"in A: {memA[j]}, in B: {memB[j]}, in result: {memR[j]} (expected {want})",
                                     c.replay(kind="op", op=op, probe=j)):
                        found = True
                    break
            # samples of composite results built with a sampler must be members of both operands
            R = M["R"]
            if isinstance(val, R.IntersectionRegion) and val.sampler is not None:
                found |= check_sampler(ctx, c, op, val, As, Bs)
            # (C) model vs code
            if use_lean and lo:
                if lo[0] != "ok":
                    bad_corr += 1
                    if bad_corr <= 6:
                        ctx.broken("correspondence", "dispatch outcome (model vs regions.py)",
                                   f"{op} {pk}: code returned {py_type(val)}, model says {' '.join(lo[:3])[:120]}")
                    continue
                route, tag, zinfo, rb = lo[1], lo[2], lo[3], lo[4]
                if is_lazy(c.A) or is_lazy(c.B):
                    # before sampling the result must be what the model says (a composite); after sampling it must be
                    # what the model says for the sampled operands
                    raw = RAW.get("type")
                    if raw is not None and tag.startswith("comp:") and raw != tag.replace("+s", ""):
                        bad_corr += 1
                        if bad_corr <= 6:
                            ctx.broken("correspondence", "lazy result (model vs regions.py)",
                                       f"{op} {pk}: code returned {raw} before sampling, model {tag} via {route[:80]}")
                    ls = lean.get((ci, op + ":sampled"), "").split()
                    if ls and ls[0] == "ok":
                        route, tag, zinfo, rb = ls[1], ls[2], ls[3], ls[4]
                if py_type(val).startswith("comp") and not tag.startswith("comp") and not tag.startswith("same:comp") \
                        and kind_of(c.A) in ("vol",) and kind_of(c.B) in ("vol", "foot"):
                    ctx.hist("mesh_boolean", "fell back to a composite region")   # trimesh produced a non-volume
                elif not tag_matches(tag, zinfo, st, val, c, op):
                    bad_corr += 1
                    if bad_corr <= 6:
                        ctx.broken("correspondence", "result kind / height (model vs regions.py)",
                                   f"{op} {pk}: code returned {py_type(val)}{'(z=%s)' % val.z if hasattr(val, 'z') else ''}, "
                                   f"model {tag} z={zinfo} via {route[:80]}")
                for j in range(len(vs)):
                    if safe[j] and (rb[j] == "1") != memR[j]:
                        bad_corr += 1
                        if bad_corr <= 6:
                            ctx.broken("correspondence", "result membership (model vs regions.py)",
                                       f"{op} {pk} at {[fs(t) for t in c.probes[j]]}: code {memR[j]}, model {rb[j]} via {route[:80]}")
                        break
    return found


def check_sampler(ctx, c, op, val, As, Bs):
    """IntersectionRegion with a specialised sampler (point set ∩ X): every sample must lie in both"""
    found = False
    import random as _r
    for _ in range(4):
        try:
            p = val.uniformPointInner()
        except Exception as e:  # noqa
            nm = type(e).__name__
            if nm == "RejectionException":
                ctx.hist("sampler", "rejected")
                continue
            other = kind_of(c.B) if kind_of(c.A) == "pts" else kind_of(c.A)
            key = f"crash:sample:pts-sampler:{'poly' if other == 'disc' else other}:{nm}"
            if ctx.violation(key, f"sampling {kind_of(c.A)}.intersect({kind_of(c.B)}) raised {nm}: {str(e)[:100]}",
                             c.replay(kind="sample", op=op)):
                found = True
            break
        ctx.hist("sampler", "sampled")
        if not (py_mem3(As, p) and py_mem3(Bs, p)):
            key = f"sample:{c.key()}:not-in-both"
            if ctx.violation(key, f"sample {tuple(p)} of {kind_of(c.A)}.intersect({kind_of(c.B)}) is not a member of both "
                             f"operands (in A: {py_mem3(As, p)}, in B: {py_mem3(Bs, p)})", c.replay(kind="sample", op=op)):
                found = True
            break
    return found


# =========================================================================== distance / AABB / size / containsRegion / projection
def dist_value(form):
    if form == "inf":
        return math.inf
    if form == "unsupported":
        return None
    g, r, dz = (Fr(t) for t in form.split(","))
    return math.hypot(max(0.0, math.sqrt(g) - float(r)), math.sqrt(dz))


def exact_size(spec):
    """size of a primitive (area / length / volume / count) as a float, from its exact description"""
    k = spec[0]
    def shape_area(s):
        if s[0] == "poly":
            v = s[1]
            return float(abs(sum(v[i][0] * v[(i + 1) % len(v)][1] - v[(i + 1) % len(v)][0] * v[i][1] for i in range(len(v)))) / 2)
        return math.pi * float(s[3]) ** 2
    if k == "planar":
        return shape_area(spec[2])
    if k == "disc":
        return math.pi * float(spec[4]) ** 2
    if k == "line":
        return sum(math.dist(tuple(map(float, a)), tuple(map(float, b))) for a, b in zip(spec[1], spec[1][1:]))
    if k == "path":
        return sum(math.dist(tuple(map(float, a)), tuple(map(float, b))) for a, b in zip(spec[1], spec[1][1:]))
    if k == "pts":
        return float(len(spec[1]))
    if k == "vol":
        return float(8 * spec[2][0] * spec[2][1] * spec[2][2])
    if k == "surf":
        h = spec[2]
        return float(8 * (h[0] * h[1] + h[1] * h[2] + h[0] * h[2]))
    return None


def point_queries(ctx, cases, use_lean):
    """distanceTo / AABB / size of every primitive operand against membership and the closed forms"""
    found = False
    bad = 0
    todo, seen = [], set()
    for c in cases:
        for s in (c.A, c.B):
            t = s[1] if s[0] == "lzy" else s
            if t[0] in ("comp", "inter", "union", "diff") or t in seen:
                continue
            seen.add(t)
            todo.append((t, c))
    lean_d, lean_bb = {}, {}
    if use_lean:
        lines = []
        for t, c in todo:
            lines.append(" ".join(["C16", "dist"] + tokens(t) + pts_tokens(c.probes)))
            lines.append(" ".join(["C16", "aabb"] + tokens(t)))
            lines.append(" ".join(["C16", "near", fs(MARGIN)] + tokens(t) + pts_tokens(c.probes)))
        out = ctx.driver(lines)
        for i, (t, c) in enumerate(todo):
            lean_d[t] = out[3 * i].split()[1:]
            lean_bb[t] = out[3 * i + 1].split()
            lean_d[(t, "near")] = out[3 * i + 2].split()[1]
    for t, c in todo:
        k = kind_of(t)
        try:
            Rg = build(t)
        except Exception:  # noqa
            continue
        vs = [vec(p) for p in c.probes]
        near = [ch == "1" for ch in lean_d[(t, "near")]] if use_lean else [near_py(t, p) for p in c.probes]
        mem = [py_mem3(Rg, v) for v in vs]
        members = [vs[j] for j in range(len(vs)) if mem[j] and not near[j]]
        # ---- distance
        for j, v in enumerate(vs):
            if near[j]:
                continue
            try:
                d = float(Rg.distanceTo(v))
            except (NotImplementedError, TypeError):
                ctx.hist("distance", f"{k}:unsupported")
                break
            ctx.case(("dist", spec_json(t), spec_json(c.probes[j])), nontrivial=not mem[j])
            ctx.hist("distance", f"{k}:{'member' if mem[j] else 'outside'}")
            plane_ok = k not in ("foot",)   # a footprint's distance is planar by definition
            if mem[j] and abs(d) > 1e-6:
                if ctx.violation(f"distance:{k}:nonzero-on-member", f"{k}.distanceTo({tuple(v)}) = {d} for a member",
                                 {"kind": "dist", "R": spec_json(t), "p": spec_json(c.probes[j])}):
                    found = True
                break
            if not mem[j] and d <= 1e-6 and (plane_ok or d < -1e-6):
                if ctx.violation(f"distance:{k}:zero-off-member", f"{k}.distanceTo({tuple(v)}) = {d} for a non-member "
                                 f"({' '.join(tokens(t))[:100]})",
                                 {"kind": "dist", "R": spec_json(t), "p": spec_json(c.probes[j])}):
                    found = True
                break
            # never farther than a known member
            if members and plane_ok:
                dm = min(math.dist(tuple(v), tuple(m)) for m in members)
                if d > dm + 1e-6:
                    if ctx.violation(f"distance:{k}:exceeds-member", f"{k}.distanceTo({tuple(v)}) = {d} but a member lies at {dm}",
                                     {"kind": "dist", "R": spec_json(t), "p": spec_json(c.probes[j])}):
                        found = True
                    break
            if use_lean:
                want = dist_value(lean_d[t][j])
                tol = 1e-6 + (2e-3 * float(t[4]) if k == "disc" else 0) + (2e-3 * float(t[1][3]) if k == "foot" and t[1][0] == "disc" else 0)
                if want is None or abs(want - d) > tol:
                    bad += 1
                    if bad <= 4:
                        ctx.broken("correspondence", "distanceTo (model vs regions.py)",
                                   f"{k} {' '.join(tokens(t))[:120]} at {[fs(x) for x in c.probes[j]]}: code {d}, model {want} [{lean_d[t][j]}]")
                    break
        # ---- AABB
        try:
            bb = Rg.AABB
            lo, hi = [float(x) for x in bb[0]], [float(x) for x in bb[1]]
        except (NotImplementedError, TypeError):
            bb = None
        if bb is not None:
            ctx.case(("aabb", spec_json(t)))
            ctx.hist("aabb", k)
            for m in members:
                if not all(lo[i] - 1e-9 <= m[i] <= hi[i] + 1e-9 for i in range(3)):
                    if ctx.violation(f"aabb:{k}:member-outside", f"{k}.AABB = {bb} does not contain the member {tuple(m)}",
                                     {"kind": "aabb", "R": spec_json(t), "member": [float(x) for x in m]}):
                        found = True
                    break
            if use_lean and lean_bb[t][0] == "ok":
                w = [float(Fr(x)) for x in lean_bb[t][1:]]
                if max(abs(a - b) for a, b in zip(w, lo + hi)) > 1e-6:
                    bad += 1
                    if bad <= 4:
                        ctx.broken("correspondence", "AABB (model vs regions.py)", f"{k} {' '.join(tokens(t))[:120]}: code {bb}, model {w}")
            elif use_lean:
                bad += 1
                ctx.broken("correspondence", "AABB (model vs regions.py)", f"{k}: code {bb}, model has none")
        # ---- size
        es = exact_size(t)
        try:
            sz = Rg.size
        except Exception:  # noqa
            sz = None
        if es is not None and sz is not None:
            ctx.case(("size", spec_json(t)))
            rel = 2e-3 if (k == "disc" or (k == "foot")) else 1e-6
            if abs(float(sz) - es) > rel * max(1.0, es):
                if ctx.violation(f"size:{k}", f"{k}.size = {sz} but the shape measures {es} ({' '.join(tokens(t))[:100]})",
                                 {"kind": "size", "R": spec_json(t)}):
                    found = True
    return found


def contains_region_checks(ctx, cases, use_lean):
    """containsRegion, both ways round for every pair: a True answer needs every member probe of the inner region in the
    outer one (a False answer is not checked: it would need a proof of containment)"""
    found = False
    for ci, c in enumerate(cases):
        if is_lazy(c.A) or is_lazy(c.B) or c.separated:
            continue
        for sa, sb in ((c.A, c.B), (c.B, c.A)):
            ka, kb = kind_of(sa), kind_of(sb)
            key_pair = Case(sa, sb, c.probes, c.zs).key()
            try:
                A, B = build(sa), build(sb)
                ans = A.containsRegion(B)
            except (NotImplementedError, TypeError, AssertionError):
                ctx.hist("containsRegion", f"{ka}-{kb}:refused")
                continue
            except Exception as e:  # noqa
                key = f"crash:containsRegion:{key_pair}:{type(e).__name__}"
                if ctx.violation(key, f"{ka}.containsRegion({kb}) raised {type(e).__name__}: {str(e)[:100]}",
                                 {"kind": "creg", "A": spec_json(sa), "B": spec_json(sb), "probes": spec_json(tuple(c.probes))}):
                    found = True
                continue
            ans = bool(ans)
            vs = [vec(p) for p in c.probes]
            inB = [j for j in range(len(vs)) if c.safe[j] and py_mem3(B, vs[j])]
            counter = [j for j in inB if not py_mem3(A, vs[j])]
            ctx.case(("creg", spec_json(sa), spec_json(sb)), nontrivial=bool(inB))
            ctx.hist("containsRegion", f"{ka}-{kb}:{ans}:{'counterexample' if counter else 'none'}")
            if ans and counter:
                j = counter[0]
                key = f"containsRegion:{key_pair}:true-with-counterexample"
                if ctx.violation(key, f"{ka}.containsRegion({kb}) is True but {[float(t) for t in c.probes[j]]} belongs to the "
                                 f"second region and not to the first ({' '.join(tokens(sa))[:90]} | {' '.join(tokens(sb))[:90]})",
                                 {"kind": "creg", "A": spec_json(sa), "B": spec_json(sb), "probes": spec_json(tuple(c.probes)),
                                  "probe": j}):
                    found = True
    return found


def projection_checks(ctx, rng, use_lean):
    """MeshRegion.projectVector on boxes: a member, on the line, nearest along ±d (vs the exact slab computation)"""
    M = real()
    found = False
    bad = 0
    n = ctx.budget(60, 600)
    items = []
    for i in range(n):
        zs = [Fr(0), Fr(2)]
        box = gen_region(rng, "vol", rng.choice(zs), zs)
        if i % 3 == 0:
            box = ("vol", box[1], box[2], (1, 0, 0, 0))
        c = box[1]
        # start points: around the box, often aligned so that both rays hit it
        d = rng.choice([(0, 0, 1), (0, 0, 1), (1, 0, 0), (0, 1, 0), (1, 1, 0), (1, 2, 2), (0, -1, 1), (2, 0, 1)])
        t = rng.choice([Fr(5), Fr(-5), Fr(7, 2), Fr(-9, 2), Fr(6), Fr(-4)])
        off = (d8(rng, -1, 1), d8(rng, -1, 1), d8(rng, -1, 1)) if rng.random() < 0.7 else (d8(rng, -4, 4), d8(rng, -4, 4), d8(rng, -4, 4))
        p = tuple(c[j] + t * d[j] / 2 + off[j] for j in range(3))
        items.append((box, p, tuple(Fr(x) for x in d)))
    lean = None
    if use_lean:
        lines = [" ".join(["C16", "proj"] + tokens(b)[1:] + [fs(x) for x in p] + [fs(x) for x in d]) for b, p, d in items]
        lean = ctx.driver(lines)
    # box *surfaces*: from a point inside the box both rays hit the surface (and from outside the line crosses it twice),
    # so "nearest along +-d" and "any hit" differ; ground truth = the exact slab parameters of the line
    DIRS = [(0, 0, 1), (1, 0, 0), (0, 1, 0), (1, 1, 0), (1, 2, 2), (0, -1, 1), (2, 0, 1), (-1, 3, 2)]
    FRS = [Fr(k, 8) for k in (-6, -5, -3, -2, -1, 0, 1, 2, 3, 5, 6)]
    for i in range(ctx.budget(60, 400)):
        zs = [Fr(0), Fr(2)]
        box = gen_region(rng, "surf", rng.choice(zs), zs)
        if i % 3 == 0:
            box = ("surf", box[1], box[2], (1, 0, 0, 0))
        c, h = box[1], box[2]
        axes = quat_axes(box[3])
        d = tuple(Fr(x) for x in rng.choice(DIRS))
        loc = [rng.choice(FRS) * h[j] for j in range(3)]
        p = tuple(c[j] + sum(loc[k] * axes[k][j] for k in range(3)) for j in range(3))
        if i % 4 == 3:      # a start point outside, on a line through the box
            t = rng.choice([Fr(5), Fr(-5), Fr(7, 2), Fr(-9, 2)])
            p = tuple(p[j] + t * d[j] for j in range(3))
        items.append((box, p, d))
    for i, (b, p, d) in enumerate(items):
        Rg = build(b)
        v = vec(p)
        try:
            q = Rg.projectVector(v, tuple(float(x) for x in d))
        except Exception as e:  # noqa
            if ctx.violation(f"crash:projectVector:{type(e).__name__}", f"projectVector raised {type(e).__name__}: {str(e)[:80]}",
                             {"kind": "proj", "box": spec_json(b), "p": spec_json(p), "d": spec_json(d)}):
                found = True
            continue
        ctx.case(("proj", spec_json(b), spec_json(p), spec_json(d)), nontrivial=q is not None)
        ctx.hist("projection", b[0] + ":" + ("none" if q is None else ("inside" if tuple(q) == tuple(v) else "hit")))
        rep = {"kind": "proj", "box": spec_json(b), "p": spec_json(p), "d": spec_json(d)}
        bad_proj = proj_verdict(Rg, v, d, q, b, p)
        if bad_proj == "undecided":
            ctx.hist("projection", "surf:undecided (hit near an edge / a face diagonal)")
            continue
        if bad_proj:
            if ctx.violation(bad_proj[0], bad_proj[1], rep):
                found = True
            continue
        if lean is not None and b[0] == "vol":
            lo = lean[i].split()
            if lo[0] == "none":
                ok = q is None
            elif lo[0] == "ok":
                ok = q is not None and max(abs(float(Fr(lo[1 + j])) - q[j]) for j in range(3)) < 1e-5
            else:
                ok = False
            if not ok:
                # grazing rays (tangent to an edge) are numerically undecidable: skip when the exact hit is on an edge
                bad += 1
                if bad <= 3:
                    ctx.broken("correspondence", "projectVector (model vs regions.py)",
                               f"box {' '.join(tokens(b))[:120]} p={[fs(x) for x in p]} d={[fs(x) for x in d]}: code {q}, model {' '.join(lo)}")
    return found


def slab_line(box, p, d):
    """exact parameters (t_in, t_out) between which the line p + t*d is inside the oriented box; None if it misses"""
    c, h = box[1], box[2]
    axes = quat_axes(box[3])
    lo = hi = None
    for i in range(3):
        o = sum((p[j] - c[j]) * axes[i][j] for j in range(3))
        di = sum(d[j] * axes[i][j] for j in range(3))
        if di == 0:
            if abs(o) > h[i]:
                return None
            continue
        a, b = sorted(((-h[i] - o) / di, (h[i] - o) / di))
        lo = a if lo is None else max(lo, a)
        hi = b if hi is None else min(hi, b)
    if lo is None or lo >= hi:
        return None
    return lo, hi


def face_interior(box, p, d, t, m=MARGIN):
    """does p + t*d lie on exactly one face of the box, keeping the margin from its edges and from both diagonals
    (the mesh's faces are split into two triangles; rays through an edge are numerically undecidable)"""
    c, h = box[1], box[2]
    axes = quat_axes(box[3])
    x = tuple(p[j] + t * d[j] for j in range(3))
    loc = [sum((x[j] - c[j]) * axes[i][j] for j in range(3)) for i in range(3)]
    on = [i for i in range(3) if abs(abs(loc[i]) - h[i]) <= m]
    if len(on) != 1 or abs(loc[on[0]]) != h[on[0]]:
        return False
    u, w = [loc[i] / h[i] for i in range(3) if i != on[0]]
    return abs(u - w) > 2 * m and abs(u + w) > 2 * m


def proj_verdict_surf(Rg, v, d, q, box, p):
    """a box surface: the members on the line are its two crossing points (exact slab computation); the result must be
    the nearer one.  -> (key, what) | None | "undecided" """
    M = real()
    dn2 = sum(x * x for x in d)
    dn = math.sqrt(float(dn2))
    sl = slab_line(box, p, d)
    if sl is None:
        return None                     # (a result, if any, was checked to be a member on the line by the caller)
    ts = sorted(sl, key=abs)
    if abs(ts[0]) * dn < 0.125 or (abs(ts[1]) - abs(ts[0])) * dn < 0.125:
        return "undecided"              # start point (nearly) on the surface, or two hits at (nearly) the same distance
    if not all(face_interior(box, p, d, t) for t in ts):
        return "undecided"
    cand = M["Vector"](*(float(p[j] + ts[0] * d[j]) for j in range(3)))
    if float(Rg.distanceTo(cand)) > 1e-6 or not Rg.containsPoint(cand):
        return "undecided"              # the real classes do not regard the exact crossing point as a member
    if q is None:
        return ("projectVector:surf:none-but-member", f"projection of {tuple(v)} along ±{[float(x) for x in d]} onto the box "
                f"surface is None but {tuple(cand)} is on the line and in the region")
    tq = sum((q[j] - v[j]) * float(d[j]) for j in range(3)) / float(dn2)
    if abs(tq) * dn > abs(float(ts[0])) * dn + 1e-5:
        return ("projectVector:surf:not-nearest", f"projection of {tuple(v)} along ±{[float(x) for x in d]} onto the box surface "
                f"is {tuple(q)} (|t|={abs(tq) * dn:.4f}) but {tuple(cand)} (|t|={abs(float(ts[0])) * dn:.4f}) is on the line "
                f"and in the region")
    return None


def proj_verdict(Rg, v, d, q, spec=None, p=None):
    """the property of one projection result: on the line, a member, nothing nearer (volumes: scan; surfaces: exact
    crossing points) -> (key, what) | None | "undecided" """
    M = real()
    if q is None:
        return proj_verdict_surf(Rg, v, d, q, spec, p) if spec is not None and spec[0] == "surf" else None
    dn = math.sqrt(sum(float(x) ** 2 for x in d))
    du = [float(x) / dn for x in d]
    w = [q[j] - v[j] for j in range(3)]
    tpar = sum(w[j] * du[j] for j in range(3))
    perp = math.sqrt(max(0.0, sum(x * x for x in w) - tpar * tpar))
    if perp > 1e-6:
        return ("projectVector:off-line", f"projection {tuple(q)} of {tuple(v)} is not on the line along {d}")
    if float(Rg.distanceTo(q)) > 1e-5:
        return ("projectVector:not-member", f"projection {tuple(q)} is not in the region")
    if spec is not None and spec[0] == "surf":
        if tuple(q) == tuple(v):
            return None                 # the start point itself is on the surface
        return proj_verdict_surf(Rg, v, d, q, spec, p)
    steps = 400
    for s_ in range(1, steps):
        for sg in (1, -1):
            tt = sg * abs(tpar) * s_ / steps
            if abs(tt) < abs(tpar) - 1e-3:
                cand = M["Vector"](*(v[j] + tt * du[j] for j in range(3)))
                if Rg.containsPoint(cand) and float(Rg.distanceTo(cand)) == 0.0:
                    return ("projectVector:not-nearest", f"projection of {tuple(v)} along ±{[float(x) for x in d]} is {tuple(q)} "
                            f"(|t|={abs(tpar):.4f}) but {tuple(cand)} (|t|={abs(tt):.4f}) is in the region")
    return None


def seq_run(shape, steps, upto=None):
    """several mesh operations on ONE footprint object -> list of (status, value) per step"""
    fp = build(("foot", shape))
    out = []
    for box, op in steps[: (upto + 1) if upto is not None else None]:
        out.append(run_op(build(box), fp, op))
    return out


def seq_probe_verdict(shape, box, op, val, p):
    """set semantics of box `op` footprint at one probe, against fresh objects -> (inBox, inFoot, inResult, expected)"""
    v = vec(p)
    ina = py_mem3(build(box), v)
    inb = bool(build(("foot", shape)).containsPoint(v))
    return ina, inb, py_mem3(val, v), expected(op, ina, inb)


def sequence_checks(ctx, rng):
    """state kept between operations (a footprint caches the vertically bounded slab built for the previous mesh
    operation; results are cached on region objects): a sequence of operations on the SAME footprint object with boxes of
    very different vertical extent must obey set semantics at every step, exactly as fresh objects do"""
    found = False
    pats = ["below", "above", "random"]
    for i in range(ctx.budget(6, 36)):
        shape = ("poly", gen_poly(rng)[0])
        pat = pats[i % 3]
        cz1 = rng.choice([Fr(0), Fr(2), Fr(-2)])
        b1 = ("vol", (d8(rng, 2, 4), d8(rng, 2, 4), cz1), (d8(rng, 1, 3), d8(rng, 1, 3), rng.choice([Fr(1, 2), Fr(1)])), (1, 0, 0, 0))
        hz2 = rng.choice([Fr(150), Fr(400), Fr(60)])
        if pat == "below":
            cz2 = cz1 + rng.choice([Fr(1), Fr(5), Fr(20)]) - hz2
        elif pat == "above":
            cz2 = cz1 - rng.choice([Fr(1), Fr(5), Fr(20)]) + hz2
        else:
            cz2 = rng.choice([Fr(0), Fr(-60), Fr(120), Fr(-400)])
        b2 = ("vol", (d8(rng, 2, 4), d8(rng, 2, 4), cz2), (d8(rng, 1, 3), d8(rng, 1, 3), hz2), (1, 0, 0, 0))
        steps = [(b1, rng.choice(["intersect", "difference", "intersects"])), (b2, "intersect"), (b2, "difference")]
        if rng.random() < 0.3:
            steps.append((b1, "intersect"))
        try:
            outs = seq_run(shape, steps)
        except Exception as e:  # noqa
            ctx.hist("sequence", "generator:" + type(e).__name__)
            continue
        for si, ((box, op), (st, val)) in enumerate(zip(steps, outs)):
            ctx.case(("seq", spec_json(shape), spec_json(tuple(steps[: si + 1]))), nontrivial=si > 0)
            ctx.hist("sequence", f"{pat}:step{si}:{op}:{st}")
            if st == "crash":
                if ctx.violation(f"crash:sequence:{op}:vol-foot:{val}", f"step {si} of a sequence of mesh operations on one footprint raised {val}",
                                 {"kind": "seq", "shape": spec_json(shape), "steps": spec_json(tuple(steps)), "step": si}):
                    found = True
                break
            if st != "ok":
                continue
            c, h = box[1], box[2]
            bad = None
            for f in (Fr(-15, 16), Fr(-3, 4), Fr(-1, 2), Fr(-1, 4), Fr(0), Fr(1, 4), Fr(1, 2), Fr(3, 4), Fr(15, 16)):
                for _ in range(3):
                    pnt = (d8(rng, -1, 8), d8(rng, -1, 8), c[2] + f * h[2])
                    if any(abs(abs(pnt[j] - c[j]) - h[j]) <= MARGIN for j in range(3)) or near_py(("foot", shape), pnt):
                        continue
                    ina, inb, inr, want = seq_probe_verdict(shape, box, op, val, pnt)
                    if inr != want:
                        bad = (pnt, ina, inb, inr, want)
                        break
                if bad:
                    break
            if bad:
                pnt, ina, inb, inr, want = bad
                if ctx.violation(f"sequence:{op}:vol-foot", f"step {si} ({op}) of a sequence of mesh operations on ONE footprint object: point "
                                 f"{[float(t) for t in pnt]} in box: {ina}, in footprint: {inb}, in result: {inr} (expected {want}); "
                                 f"earlier steps used boxes with z-centre/half-height "
                                 f"{[(float(b[1][2]), float(b[2][2])) for b, _ in steps[:si]]}, this one {(float(c[2]), float(h[2]))}",
                                 {"kind": "seq", "shape": spec_json(shape), "steps": spec_json(tuple(steps)), "step": si,
                                  "probe": spec_json(pnt)}):
                    found = True
                break
    return found


def workspace_checks(ctx):
    """workspaces.py: a Workspace delegates every region operation to its region, including the reversed dispatch"""
    M = real()
    R, V, W = M["R"], M["Vector"], M["Workspace"]
    found = False
    box = R.BoxRegion(dimensions=(2, 2, 2), position=V(0, 0, 0))
    other = R.BoxRegion(dimensions=(2, 2, 2), position=V(1, 0, 0))
    ws = W(box)
    tests = [
        ("intersects-reversed", lambda: other.intersects(ws), lambda r: r is True or r == True),  # noqa
        ("intersects", lambda: ws.intersects(other), lambda r: bool(r) is True),
        ("projectVector", lambda: ws.projectVector(V(0, 0, 5), V(0, 0, 1)), lambda r: r is not None and abs(r[2] - 1) < 1e-6),
        ("distanceTo", lambda: ws.distanceTo(V(0, 0, 5)), lambda r: abs(r - 4) < 1e-6),
        ("containsPoint", lambda: ws.containsPoint(V(0.5, 0, 0)), lambda r: bool(r)),
        ("intersect", lambda: ws.intersect(other).containsPoint(V(0.75, 0, 0)), lambda r: bool(r)),
        ("intersect-reversed", lambda: other.intersect(ws).containsPoint(V(0.75, 0, 0)), lambda r: bool(r)),
        ("AABB", lambda: ws.AABB, lambda r: tuple(r[0]) == (-1, -1, -1)),
        ("difference", lambda: (lambda r: (bool(r.containsPoint(V(-0.75, 0, 0))), bool(r.containsPoint(V(0.75, 0, 0)))))(ws.difference(other)),
         lambda r: r == (True, False)),
        ("union", lambda: (lambda r: (bool(r.containsPoint(V(-0.75, 0, 0))), bool(r.containsPoint(V(1.75, 0, 0)))))(ws.union(other)),
         lambda r: r == (True, True)),
        ("size", lambda: ws.size, lambda r: abs(r - 8) < 1e-6),
    ]
    for name, f, ok in tests:
        ctx.case(("workspace", name))
        try:
            r = f()
            good = ok(r)
            what = f"returned {r!r}"
        except Exception as e:  # noqa
            good = False
            what = f"raised {type(e).__name__}: {str(e)[:80]}"
        ctx.hist("workspace", f"{name}:{'ok' if good else 'bad'}")
        if not good:
            if ctx.violation(f"workspace:{name}", f"Workspace(box).{name} {what}", {"kind": "workspace", "name": name}):
                found = True
    return found


REGRESSIONS = [
    # (name, A, op, B, probe, expected membership of the probe in the result)  — fixed defects of round 0
    ("polygon-op-keeps-z", ("planar", Fr(5), ("poly", ((0, 0), (4, 0), (4, 4), (0, 4))), "points"), "intersect",
     ("planar", Fr(5), ("poly", ((2, 2), (6, 2), (6, 6), (2, 6))), "points"), (3, 3, 5), True),
    ("polygon-union-keeps-z", ("planar", Fr(5), ("poly", ((0, 0), (4, 0), (4, 4), (0, 4))), "points"), "union",
     ("planar", Fr(5), ("poly", ((2, 2), (6, 2), (6, 6), (2, 6))), "points"), (5, 5, 5), True),
    ("polygon-difference-keeps-z", ("planar", Fr(5), ("poly", ((0, 0), (4, 0), (4, 4), (0, 4))), "points"), "difference",
     ("planar", Fr(5), ("poly", ((2, 2), (6, 2), (6, 6), (2, 6))), "points"), (1, 1, 5), True),
    ("pointset-pointset", ("pts", ((1, 1, 0), (2, 2, 0))), "intersect", ("pts", ((2, 2, 0), (3, 3, 0))), (2, 2, 0), True),
]


def regression_checks(ctx):
    """the five defects repaired in round 0, as fixed inputs"""
    M = real()
    R, V = M["R"], M["Vector"]
    found = False
    for name, A, op, B, p, want in REGRESSIONS:
        A = spec_unjson(spec_json(A))
        B = spec_unjson(spec_json(B))
        st, val = run_op(build(A), build(B), op)
        got = py_mem3(val, vec(p)) if st == "ok" else f"{st}:{val}"
        ctx.case(("regression", name))
        if got != want:
            if ctx.violation(f"regression:{name}", f"{name}: membership of {p} in the result is {got}, expected {want}",
                             {"kind": "regression", "name": name}):
                found = True
    d5 = R.CircularRegion(V(0, 0, 5), 1)
    for p, want in (((3, 0, 5), 2.0), ((3, 0, 0), math.hypot(2, 5)), ((0, 0, 0), 5.0)):
        ctx.case(("regression", "disc-distance", p))
        got = float(d5.distanceTo(V(*p)))
        if abs(got - want) > 2e-3:
            if ctx.violation("regression:disc-distance", f"CircularRegion((0,0,5),1).distanceTo({p}) = {got}, expected {want}",
                             {"kind": "regression", "name": "disc-distance"}):
                found = True
    ctx.case(("regression", "footprint-containsRegionInner"))
    try:
        f = R.PolygonalRegion(points=[(0, 0), (4, 0), (4, 4), (0, 4)]).footprint
        r = f.containsRegion(R.PolygonalRegion(points=[(1, 1), (2, 1), (2, 2), (1, 2)], z=3))
        if r is not True and r != True:  # noqa
            raise AssertionError(f"returned {r}")
    except Exception as e:  # noqa
        if ctx.violation("regression:footprint-containsRegionInner", f"footprint.containsRegion(polygon) failed: {type(e).__name__} {e}",
                         {"kind": "regression", "name": "footprint-containsRegionInner"}):
            found = True
    return found


def run(ctx):
    ctx.rule = ("cases = ordered pairs of region kinds (all/empty/polygon/disc/footprint/polyline/path/point set/box volume/"
                "box surface/composite) x height cases (equal, different, flat, mixed) x lazy/eager operands x the four "
                "operations, each with its own random exactly-representable shapes and probe points; plus distance/AABB/size "
                "queries per primitive, containsRegion per pair, projectVector on boxes, Workspace delegation and the fixed "
                "regression inputs; non-trivial = some probe with the exact margin belongs to an operand; distinct by content hash")
    ctx.assumptions += [
        "Shapely boolean operations / predicates and trimesh (manifold) boolean operations compute the ideal point sets "
        "(checked only through probe points that keep an exact margin of 1/32 from every boundary)",
        "CircularRegion's polygon (128 vertices) is identified with the disc (margin enlarged by r/500)",
        "floating point: all generated coordinates are dyadic rationals, so inputs are exact; results are compared with "
        "tolerance 1e-6 (2e-3·r where the 128-gon stands for a disc)",
        "SectorRegion, GridRegion, VoxelRegion, SpheroidRegion and view regions are outside the model (they inherit the "
        "dispatch of their base classes, which is covered)",
    ]
    ctx.trusted_base += ["tools/translate/regionops.py (template extraction of the isinstance chains and height flags)",
                         "tools/props/c16.py (correspondence + direct oracle on the real classes)",
                         "shapely / trimesh / scipy as geometric oracles (see assumptions)"]
    ctx.fingerprint(FINGERPRINTS)
    from translate import regionops
    try:
        ctx.gen("RegionOps", regionops.to_lean(regionops.extract()))
    except TemplateMismatch as e:
        ctx.escalated.append(f"translator tie lost (regionops): {e}")
        ctx.notes.append(f"translator tie lost for regions.py: {e}; relying on the correspondence run at thorough budget")
    pr = ctx.prove(THEOREMS, side_conditions=SIDE)
    if ctx.tier == "thorough" and pr.build_ok:
        ctx.leanchecker(["ScenicModel.Props.C16", "ScenicModel.Props.C16Sem", "ScenicModel.Props.C16Points",
                         "ScenicModel.Props.C16Metric"])
    use_lean = True
    try:
        ctx.driver(["C16 aabb all"])
    except Infra as e:
        use_lean = False
        ctx.notes.append(f"Lean driver unavailable ({str(e)[:120]}): margins computed in floating point, no correspondence run")
        ctx.broken("correspondence", "Lean driver", "the model driver does not build")
    rng = ctx.rng
    random.seed(rng.getrandbits(32))
    M = real()
    M["numpy"].random.seed(rng.getrandbits(32))
    timing = {"lean_build_and_audit": round(ctx.elapsed(), 1)}
    t = time.time()
    cases = gen_cases(ctx, rng)
    compute_safe(ctx, cases, use_lean)
    found = False
    found |= regression_checks(ctx)
    timing["generate+margins"] = round(time.time() - t, 1)
    for name, fn in (("pairs x operations", lambda: correspondence_and_oracle(ctx, cases, use_lean)),
                     ("distance/AABB/size", lambda: point_queries(ctx, cases, use_lean)),
                     ("containsRegion", lambda: contains_region_checks(ctx, cases, use_lean)),
                     ("projectVector", lambda: projection_checks(ctx, rng, use_lean)),
                     ("workspace", lambda: workspace_checks(ctx))):
        t = time.time()
        found |= fn()
        timing[name] = round(time.time() - t, 1)
    ctx.extra["timing_s"] = timing
    ctx.extra["cases"] = len(cases)
    ctx.resolve_brokens(found)


# =========================================================================== replay
class _Rec:
    """minimal ctx for re-running a fixed check during a replay"""
    def __init__(self):
        self.hits = []
    def case(self, *a, **k): pass
    def hist(self, *a, **k): pass
    def violation(self, key, what, rep):
        print(key, "-", what)
        self.hits.append(key)
        return True


def replay(ctx, path):
    """re-executes the recorded input on the real code; exit status 1 (and a REPRODUCED line) when it still fails"""
    body = json.load(open(path))
    rep = body.get("replay", body)
    kind = rep.get("kind")
    M = real()
    failing = False
    if kind in ("op", "membership", "sample", "creg"):
        A, B = spec_unjson(rep["A"]), spec_unjson(rep["B"])
        print("A =", " ".join(tokens(A)))
        print("B =", " ".join(tokens(B)))
        probes = [tuple(p) for p in spec_unjson(rep["probes"])]
        if kind == "creg":
            ra, rb = build(A), build(B)
            try:
                ans = bool(ra.containsRegion(rb))
                print("A.containsRegion(B) =", ans)
            except (NotImplementedError, TypeError, AssertionError) as e:
                print("A.containsRegion(B) refused:", type(e).__name__)
                ans = None
            except Exception as e:  # noqa
                print("A.containsRegion(B) raised", type(e).__name__, e)
                failing = True
                ans = None
            if "probe" in rep and ans:
                v = vec(probes[rep["probe"]])
                ina, inb = py_mem3(ra, v), py_mem3(rb, v)
                print("probe", tuple(v), "in A:", ina, "in B:", inb)
                failing = inb and not ina
        else:
            op = rep.get("op", "intersect")
            ra, rb = build(A), build(B)
            st, val = run_op(ra, rb, op)
            print(f"A.{op}(B) ->", st, py_type(val) if st == "ok" else val, getattr(val, "z", ""))
            As, Bs = sample_if_lazy(build(A)), sample_if_lazy(build(B))
            if st == "crash":
                failing = True
            elif kind == "membership":
                j = rep["probe"]
                v = vec(probes[j])
                R_ = As if rep.get("which") == "A" else Bs
                print("probe", tuple(v), "_trueContainsPoint:", py_mem3(R_, v))
            elif kind == "sample" and st == "ok":
                for _ in range(12):
                    try:
                        p = val.uniformPointInner()
                    except Exception as e:  # noqa
                        if type(e).__name__ == "RejectionException":
                            continue
                        print("sampling raised", type(e).__name__, e)
                        failing = True
                        break
                    ina, inb = py_mem3(As, p), py_mem3(Bs, p)
                    print("sample", tuple(p), "in A:", ina, "in B:", inb)
                    if not (ina and inb):
                        failing = True
                        break
            elif op == "intersects" and st == "bool":
                truth = rep.get("truth")
                for j in rep.get("witness", []):
                    v = vec(probes[j])
                    print("probe", tuple(v), "in A:", py_mem3(As, v), "in B:", py_mem3(Bs, v))
                    truth = truth and py_mem3(As, v) and py_mem3(Bs, v)
                print("intersects =", val, " ground truth:", truth)
                failing = truth is not None and bool(val) != bool(truth)
            elif st == "ok" and "probe" in rep:
                v = vec(probes[rep["probe"]])
                ina, inb, inr = py_mem3(As, v), py_mem3(Bs, v), py_mem3(val, v)
                print("probe", tuple(v), "in A:", ina, "in B:", inb, "in result:", inr, "expected:", expected(op, ina, inb))
                failing = inr != expected(op, ina, inb)
    elif kind in ("dist", "aabb", "size"):
        spec = spec_unjson(rep["R"])
        Rg = build(spec)
        print("region:", " ".join(tokens(spec)))
        if kind == "dist":
            v = vec(spec_unjson(rep["p"]))
            d, m = float(Rg.distanceTo(v)), py_mem3(Rg, v)
            print("distanceTo", tuple(v), "=", d, " member:", m)
            failing = (m and abs(d) > 1e-6) or (not m and d <= 1e-6 and (kind_of(spec) != "foot" or d < -1e-6))
        elif kind == "aabb":
            bb = Rg.AABB
            print("AABB =", bb, " member:", rep.get("member"))
            m = rep.get("member")
            failing = m is not None and not all(float(bb[0][i]) - 1e-9 <= m[i] <= float(bb[1][i]) + 1e-9 for i in range(3))
        else:
            es = exact_size(spec)
            print("size =", Rg.size, " exact:", es)
            rel = 2e-3 if kind_of(spec) in ("disc", "foot") else 1e-6
            failing = abs(float(Rg.size) - es) > rel * max(1.0, es)
    elif kind == "proj":
        b = spec_unjson(rep["box"])
        p, d = spec_unjson(rep["p"]), spec_unjson(rep["d"])
        Rg = build(b)
        try:
            q = Rg.projectVector(vec(p), tuple(float(x) for x in d))
            print("projectVector ->", q)
            bad = proj_verdict(Rg, vec(p), d, q, b, p)
            if bad == "undecided":
                print("undecided (hit near an edge)")
            elif bad:
                print(bad[0], "-", bad[1])
                failing = True
            elif rep.get("model") is not None:
                want = rep["model"]
                ok = (q is None) if want == "none" else (q is not None and max(abs(float(Fr(want[j])) - q[j]) for j in range(3)) < 1e-5)
                print("exact slab computation:", want)
                failing = not ok
        except Exception as e:  # noqa
            print("projectVector raised", type(e).__name__, e)
            failing = True
    elif kind == "seq":
        shape, steps, si = spec_unjson(rep["shape"]), spec_unjson(rep["steps"]), rep["step"]
        steps = [(b, o) for b, o in steps]
        outs = seq_run(shape, steps, upto=si)
        st, val = outs[si]
        box, op = steps[si]
        print(f"step {si}: box(z-centre {float(box[1][2])}, half height {float(box[2][2])}).{op}(footprint) after",
              [(o, float(b[1][2]), float(b[2][2])) for b, o in steps[:si]], "->", st, py_type(val) if st == "ok" else val)
        if st == "crash":
            failing = True
        elif st == "ok" and "probe" in rep:
            pnt = spec_unjson(rep["probe"])
            ina, inb, inr, want = seq_probe_verdict(shape, box, op, val, pnt)
            print("probe", [float(t) for t in pnt], "in box:", ina, "in footprint:", inb, "in result:", inr, "expected:", want)
            failing = inr != want
    elif kind == "workspace":
        r = _Rec()
        workspace_checks(r)
        failing = f"workspace:{rep.get('name')}" in r.hits
    elif kind == "regression":
        r = _Rec()
        regression_checks(r)
        failing = f"regression:{rep.get('name')}" in r.hits
    else:
        print(json.dumps(rep, indent=1)[:3000])
    print("REPRODUCED: the recorded input still fails on this tree" if failing else "not reproduced on this tree (passes)")
    return 1 if failing else 0
