"""C10 — the front end is total: a scenario or a located syntax error, never a crash.

Proof:  lean/ScenicModel/Props/C10*.lean
          * PEG part (Model/PegTotal.lean): the *whole* grammar of scenic.gram, flattened exactly as pegen flattens it
            (artificial _tmp/_loop/_gather rules, memoisation kinds, left-recursion leaders), is regenerated into
            Gen/PegGrammarC10.lean; a Lean checker `WF` (nullable table is a post-fixpoint, no loop over a nullable body,
            every left call descends in rank unless it enters a memoised left-recursion leader) is re-decided by the
            kernel on it; `wellformed_terminates` shows that for every WF grammar, token string, terminal-matching
            function and action oracle the pegen-style interpreter (memo cache, seed growing, cut, lookahead, forced
            tokens, invalid_-rule gating, two passes) finishes within fuel linear in the input length.
          * State part (Model/FrontState.lean): veneer.activate/deactivate and the try/finally skeletons of
            _scenarioFromStream / compileStream as regenerated data; `compile_restores_inactive`: for every tree of
            nested module compilations with a failure injected at any point the state afterwards is the inactive state.
Tie:    (T) translate/pegwf_c10.py (pegen's own grammar parser + generator objects), translate/frontstate_c10.py (ast);
        (C) Lean recogniser vs the real generated parser on token streams; Lean state machine vs the real veneer on
            nested-import scripts with injected failures;
        (S) the property itself on the real code: mutants of every Scenic program of examples/ and tests/ and the
            grammar forms quoted in docs/reference, through parse_string + compileScenicAST + compile and through
            scenic.scenarioFromString, with a time box and a comparison of all veneer globals afterwards.
The parser is regenerated from the *current* scenic.gram into a scratch directory on every run and loaded as
scenic.syntax.parser (src/scenic/syntax/parser.py is a git-ignored build product that may be stale).
"""
import ast
import glob
import importlib.abc
import importlib.util
import inspect
import io
import json
import multiprocessing
import os
import random
import re
import signal
import subprocess
import sys
import textwrap
import time
import traceback
from collections import Counter

from vlib.ctx import Infra, TemplateMismatch, load_findings

THEOREMS = [
    # parser: PEG interpreter (Model/PegTotal.lean), for every WF grammar / input / matching function / action oracle
    "Scenic.PegTotal.interp_pos_mono",
    "Scenic.PegTotal.nullable_sound",
    "Scenic.PegTotal.wellformed_terminates",
    "Scenic.PegTotal.terminates_of_le",
    "Scenic.PegTotal.parse_terminates",
    "Scenic.PegTotal.fuelBound_linear",
    "Scenic.PegTotal.oracle_invariant",
    "Scenic.PegTotal.actions_see_tokens",
    "Scenic.PegTotal.parse_actions_see_tokens",
    # ... instantiated on the grammar regenerated from scenic.gram
    "Scenic.C10.scenic_grammar_terminates",
    "Scenic.C10.scenic_parse_never_hangs",
    "Scenic.C10.scenic_loc_actions_see_tokens",
    # compiler state (Model/FrontState.lean), for every data set / script of nested compilations
    "Scenic.FrontState.deactivate_activate",
    "Scenic.FrontState.compile_restores_except_leaks",
    "Scenic.FrontState.compile_restores_inactive",
    "Scenic.FrontState.compile_restores_inactive_guarded",
    "Scenic.FrontState.unguarded_witness",
    "Scenic.FrontState.leak_witness",
    # ... instantiated on the data regenerated from veneer.py / translator.py
    "Scenic.C10.front_state_restored",
    "Scenic.C10.front_inactive_afterwards",
    "Scenic.C10.front_no_frame_left",
    # error-location layer (Model/ErrLoc.lean): for every fetched-token history / helper / arguments drawn from it
    "Scenic.ErrLoc.rangeKnown_preload",
    "Scenic.ErrLoc.build_line",
    "Scenic.ErrLoc.build_located",
    "Scenic.ErrLoc.helper_located",
    "Scenic.ErrLoc.helper_line_inside_input",
    "Scenic.ErrLoc.table_located",
    "Scenic.ErrLoc.tokenError_line",
    "Scenic.ErrLoc.unprotected_witness",
    "Scenic.ErrLoc.offset_witness",
    "Scenic.ErrLoc.endline_witness",
    # ... instantiated on the data regenerated from the generated parser
    "Scenic.C10.scenic_error_helpers_located",
    "Scenic.C10.scenic_token_error_line",
]
SIDE = [
    "Scenic.C10.gen_grammar_wf",
    "Scenic.C10.gen_start_ok",
    "Scenic.C10.gen_loc_safe",
    "Scenic.C10.gen_veneer_resets_cover_writes",
    "Scenic.C10.gen_skeleton_ok",
    "Scenic.C10.gen_finally_guarded",
    "Scenic.C10.gen_errloc_ok",
]

FINGERPRINTS = {
    "scenic.gram": ("src/scenic/syntax/scenic.gram", None),
    "veneer.activate": ("src/scenic/syntax/veneer.py", "activate"),
    "veneer.deactivate": ("src/scenic/syntax/veneer.py", "deactivate"),
    "veneer.isActive": ("src/scenic/syntax/veneer.py", "isActive"),
    "veneer.model": ("src/scenic/syntax/veneer.py", "model"),
    "_scenarioFromStream": ("src/scenic/syntax/translator.py", "_scenarioFromStream"),
    "compileStream": ("src/scenic/syntax/translator.py", "compileStream"),
    "topLevelNamespace": ("src/scenic/syntax/translator.py", "topLevelNamespace"),
    "compileTranslatedTree": ("src/scenic/syntax/translator.py", "compileTranslatedTree"),
    "ScenicLoader": ("src/scenic/syntax/translator.py", "ScenicLoader"),
    "compileScenicAST": ("src/scenic/syntax/compiler.py", "compileScenicAST"),
    "Transformer": ("src/scenic/syntax/compiler.py", "Transformer"),
    "ScenicToPythonTransformer": ("src/scenic/syntax/compiler.py", "ScenicToPythonTransformer"),
    "ParseCompileError": ("src/scenic/core/errors.py", "ParseCompileError"),
    "ScenicParseError": ("src/scenic/core/errors.py", "ScenicParseError"),
    "getText": ("src/scenic/core/errors.py", "getText"),
}

TIMEBOX = 10          # seconds per input inside a worker (machine may be loaded)
TIMEBOX_SOLO = 60     # re-run of a timed-out input alone before it is called a hang
MAX_SEED_LEN = 1500   # characters; longer programs are used for splicing only


# =========================================================================== loading the real front end
class _ParserFinder(importlib.abc.MetaPathFinder):
    def __init__(self, path):
        self.path = path

    def find_spec(self, name, path, target=None):
        if name == "scenic.syntax.parser":
            return importlib.util.spec_from_file_location(name, self.path)
        return None


class Front:
    """The real front end with the parser regenerated from the current scenic.gram."""
    parser_path = None
    loaded = False


def regenerate_parser(ctx):
    """python -m pegen scenic.gram -o <scratch>/parser.py ; returns (path, error text or None)."""
    gram = os.path.join(ctx.repo, "src", "scenic", "syntax", "scenic.gram")
    out = os.path.join(ctx.tmp, "genparser", "parser.py")
    os.makedirs(os.path.dirname(out), exist_ok=True)
    try:
        p = subprocess.run([sys.executable, "-m", "pegen", gram, "-o", out], capture_output=True, text=True, timeout=300,
                           cwd=ctx.tmp)
    except subprocess.TimeoutExpired:
        raise Infra("pegen timed out")
    if p.returncode != 0 or not os.path.exists(out):
        return None, (p.stderr or p.stdout)[-1500:]
    return out, None


def load_front(parser_path):
    if Front.loaded:
        return
    sys.meta_path.insert(0, _ParserFinder(parser_path))
    for m in [m for m in sys.modules if m == "scenic" or m.startswith("scenic.")]:
        if m == "scenic.syntax.parser":
            del sys.modules[m]
    import scenic  # noqa
    import scenic.syntax.parser as P
    if os.path.realpath(P.__file__) != os.path.realpath(parser_path):
        raise Infra(f"scenic.syntax.parser was loaded from {P.__file__}, not from the regenerated {parser_path}")
    Front.parser_path = parser_path
    Front.loaded = True


def front_modules():
    import scenic.core.errors as E
    import scenic.syntax.compiler as C
    import scenic.syntax.parser as P
    import scenic.syntax.translator as T
    import scenic.syntax.veneer as V
    return P, C, T, V, E


# =========================================================================== veneer state snapshot
VENEER_SCALARS = ["activity", "currentScenario", "evaluatingRequirement", "lockedModel", "loadingModel",
                  "currentSimulation", "inInitialScenario", "currentBehavior", "simulatorFactory", "evaluatingGuard",
                  "mode2D"]
VENEER_CONTAINERS = ["scenarioStack", "scenarios", "_globalParameters", "lockedParameters", "runningScenarios"]


def veneer_state():
    P, C, T, V, E = front_modules()
    import scenic.core.object_types as OT
    st = {}
    for n in VENEER_SCALARS:
        v = getattr(V, n, "<missing>")
        st[n] = v if isinstance(v, (int, bool, type(None), str)) else f"<{type(v).__name__}>"
    for n in VENEER_CONTAINERS:
        v = getattr(V, n, None)
        st[n] = len(v) if v is not None else "<missing>"
    oc = getattr(V, "_originalConstructibles", (None, None, None))
    st["constructibles"] = (V.Point is oc[0] and V.OrientedPoint is oc[1] and V.Object is oc[2]
                            and OT.Point is oc[0] and OT.OrientedPoint is oc[1] and OT.Object is oc[2])
    st["isActive"] = bool(V.isActive())
    return st


def veneer_reset():
    """Force the veneer back to its initial state (only used after a violation was recorded, to keep exploring)."""
    P, C, T, V, E = front_modules()
    import scenic.core.object_types as OT
    V.activity = 0
    V.currentScenario = None
    V.scenarioStack.clear()
    V.scenarios = []
    V.evaluatingRequirement = False
    V._globalParameters = {}
    V.lockedParameters = set()
    V.lockedModel = None
    V.loadingModel = False
    V.currentSimulation = None
    V.inInitialScenario = True
    V.runningScenarios = []
    V.currentBehavior = None
    V.simulatorFactory = None
    V.evaluatingGuard = False
    V.mode2D = False
    V.Point, V.OrientedPoint, V.Object = V._originalConstructibles
    OT.Point, OT.OrientedPoint, OT.Object = V._originalConstructibles


# =========================================================================== the oracle on one input text
class _Timeout(BaseException):
    pass


_FIRED = [0]


def _alarm(signum, frame):
    # the flag is what counts: the exception may be swallowed (a __del__ frame, an `except BaseException` of the code under
    # test); `boxed` discards the result of any call during which the alarm fired, and the timer keeps firing every second
    # until the exception gets through
    _FIRED[0] += 1
    raise _Timeout()


def n_lines(src):
    return max(1, len(src.splitlines()))


SCENIC_FILES = ("parser.py", "compiler.py", "translator.py", "errors.py", "veneer.py", "ast.py")


def crash_site(exc):
    """innermost frame inside Scenic's own front-end sources -> function name (stable across runs)"""
    tb = traceback.extract_tb(exc.__traceback__)
    site = None
    for fr in tb:
        fn = fr.filename.replace("\\", "/")
        base = os.path.basename(fn)
        if base in SCENIC_FILES and ("/scenic/" in fn or "genparser" in fn):
            site = fr.name
    if site is None and tb:
        site = tb[-1].name
    return site or "?"


def check_lineno(exc, src):
    """-> None (fine) | 'eof' (the line just after the last one: tokenize's ENDMARKER convention, tolerated) | text"""
    ln = getattr(exc, "lineno", "<absent>")
    n = n_lines(src)
    if isinstance(ln, bool) or not isinstance(ln, int):
        return f"lineno={ln!r}"
    if 1 <= ln <= n:
        return None
    if ln == n + 1:
        return "eof"
    return "lineno<1" if ln < 1 else "lineno>eof"


def front_compile(src, mode2D=False):
    """parse_string + compileScenicAST + compile on one text. Returns a JSON-able verdict dict."""
    P, C, T, V, E = front_modules()
    stage = "parse"
    try:
        tree = P.parse_string(src, "exec", filename="<string>")
        stage = "compile"
        pytree, _reqs = C.compileScenicAST(tree, filename="<string>")
        stage = "pycompile"
        T.compileTranslatedTree(pytree, "<string>")
        return {"o": "ok"}
    except E.ScenicSyntaxError as e:
        bad = check_lineno(e, src)
        return {"o": "syntax", "cls": type(e).__name__, "stage": stage, "line": getattr(e, "lineno", None),
                "lineck": bad, "msg": str(e)[:120]}
    except RecursionError:
        return {"o": "recursion", "stage": stage}
    except MemoryError:
        return {"o": "memory", "stage": stage}
    except _Timeout:
        return {"o": "timeout", "stage": stage}
    except BaseException as e:  # noqa: everything else is an internal exception escaping the front end
        cause = e.__cause__ or e.__context__
        if isinstance(e, SystemError) and isinstance(cause, SyntaxError) and "null byte" in str(cause):
            # CPython 3.12.1 tokenizer bug (SystemError wrapping the real SyntaxError); not Scenic's
            return {"o": "cpython-nul", "stage": stage}
        return {"o": "crash", "exc": type(e).__name__, "site": crash_site(e), "stage": stage, "msg": str(e)[:160]}


def verdict_key(v):
    """stable identity of a failing verdict (matched against known findings), or None if the verdict is fine"""
    o = v["o"]
    if o == "crash":
        return f"crash:{v['exc']}:{v['site']}"
    if o == "syntax" and v.get("lineck") not in (None, "eof"):
        return f"badline:{v['cls']}:{v['lineck'].split('=')[0]}"
    if o == "hang":
        return f"hang:{v.get('stage', '?')}"
    if o == "state":
        return "state:" + ",".join(sorted(v["diff"]))
    if o == "inconsistent":
        return f"inconsistent:{v['a']}:{v['b']}"
    return None


UNSAFE_EXEC = re.compile(r"\b(import|model|open|exec|eval|compile|os|sys|subprocess|shutil|input|breakpoint|exit|quit|"
                         r"localPath|verbosePrint|print|globals|locals|getattr|setattr|delattr|vars|dir)\b|__")


def front_exec(src, initial, mode2D=False):
    """scenic.scenarioFromString on one text, then compare every veneer global with its initial value."""
    import scenic
    P, C, T, V, E = front_modules()
    out = {"o": "ok"}
    path0 = list(sys.path)
    try:
        random.seed(0)
        scenic.scenarioFromString(src, mode2D=mode2D)
    except E.ScenicSyntaxError as e:
        out = {"o": "syntax", "cls": type(e).__name__}
    except _Timeout:
        veneer_reset()
        sys.path[:] = path0
        return {"o": "timeout-exec"}
    except BaseException as e:  # noqa: run-time errors of the (mutated) program itself are allowed here
        out = {"o": "other", "exc": type(e).__name__}
    after = veneer_state()
    diff = [k for k in initial if after.get(k) != initial[k]]
    if sys.path != path0:
        diff.append("sys.path")
        sys.path[:] = path0
    if diff:
        det = {k: after.get(k) for k in diff if k != "sys.path"}
        veneer_reset()
        return {"o": "state", "diff": diff, "after": det, "raised": out}
    return out


# =========================================================================== corpus
def load_corpus(repo):
    """every Scenic program of examples/ and tests/ (files, and program strings passed to the test helpers)"""
    seeds = []
    files = sorted(glob.glob(os.path.join(repo, "examples", "**", "*.scenic"), recursive=True)
                   + glob.glob(os.path.join(repo, "tests", "**", "*.scenic"), recursive=True))
    for f in files:
        try:
            seeds.append((os.path.relpath(f, repo), open(f, encoding="utf-8").read()))
        except (OSError, UnicodeDecodeError):
            pass
    for f in sorted(glob.glob(os.path.join(repo, "tests", "**", "*.py"), recursive=True)):
        try:
            tree = ast.parse(open(f, encoding="utf-8").read())
        except (SyntaxError, OSError, UnicodeDecodeError):
            continue
        k = 0
        for n in ast.walk(tree):
            if not (isinstance(n, ast.Call) and n.args):
                continue
            a = n.args[0]
            s = None
            if isinstance(a, ast.Constant) and isinstance(a.value, str):
                s = a.value
            elif isinstance(a, ast.JoinedStr):
                s = "".join(v.value if isinstance(v, ast.Constant) and isinstance(v.value, str) else "x" for v in a.values)
            if not s or len(s) <= 5 or not ("\n" in s or " " in s):
                continue
            fn = n.func.id if isinstance(n.func, ast.Name) else getattr(n.func, "attr", "")
            if re.search(r"ompile|ample|parse|check|scenario", fn, re.I):
                seeds.append((f"{os.path.relpath(f, repo)}#{k}", inspect.cleandoc(s) + "\n"))
                k += 1
    # regression inputs of repaired defects (kept forever)
    seeds.append(("regression:fstring-conversion", 'a = 1\nx = f"{a!r}" + f"{a!s:>4}"\n'))
    seeds.append(("regression:fstring-eq", 'a = 1\nx = f"{a=}"\n'))
    return seeds


# =========================================================================== mutation
_TOK = re.compile(r"[A-Za-z_][A-Za-z_0-9]*|\d+\.?\d*(?:[eE][+-]?\d+)?|\s+|[^\sA-Za-z_0-9]")
PUNCT = list("()[]{}:,.=\"'\\\n \t#@!$?`;*-+/<>%&|^~")
EXTRA_WORDS = ["(", ")", "[", "]", "{", "}", ",", ":", ".", ";", "@", "=", "->", "+=", "-=", "*", "**", "+", "-", "/",
               "//", "%", "<", ">", "<=", ">=", "==", "!=", "|", "&", "^", "~", ":=", "...", "!", "'", '"', "f'", 'f"{',
               "}'", "'''", '"""', "\\", "#", "\n", "\t", "    ", " ", "0", "1", "1.5", "1e", "0x", "05", "1j", "1_", "x",
               "ego", "self", "deg", "lambda", "*args", "**kw", "\x0c", "\u00e9", "\r", "\r\n", "NEWLINE", "INDENT",
               "DEDENT", "ENDMARKER", "ASYNC", "AWAIT", "print", "exec", "int", "str", "float", "None", "True", "match",
               "case", "type", "_", "b'x'", "rb'", "u'x'", "f'{x!r}'", "f'{x=}'", "f'{x:{y}}'", "@ 3", "relative to x",
               "new Object", "at 0", "with a 1", "x: int", "x: int = 3", "until", "always", "implies", "->int"]


def vocabulary():
    P = front_modules()[0]
    kws = set(P.ScenicParser.KEYWORDS) | set(P.ScenicParser.SOFT_KEYWORDS)
    return sorted(kws) + EXTRA_WORDS


def toks(src):
    return _TOK.findall(src)


def mutate_once(rng, src, seeds, V):
    """one byte/token/line level edit (delete, insert, replace, swap, re-indent, truncate, splice)"""
    if not src:
        return rng.choice(V)
    k = rng.randrange(18)
    if k >= 16:
        return spread(src, rng, rng.choice([1, 2, 3, 99]))
    if k == 0:
        i = rng.randrange(len(src))
        return src[:i] + src[i + rng.choice([1, 1, 1, 2, 5]):]
    if k == 1:
        i = rng.randrange(len(src) + 1)
        return src[:i] + rng.choice(V + PUNCT) + src[i:]
    if k == 2:
        i = rng.randrange(len(src))
        return src[:i] + rng.choice(PUNCT + ["0", "a", "Z", "_"]) + src[i + 1:]
    if k == 3:
        return src[:rng.randrange(len(src))]
    T = toks(src)
    if not T:
        return src + rng.choice(V)
    if k == 4 and len(T) > 1:
        del T[rng.randrange(len(T))]
        return "".join(T)
    if k == 5:
        T.insert(rng.randrange(len(T) + 1), rng.choice(V) + rng.choice(["", " "]))
        return "".join(T)
    if k == 6:
        T[rng.randrange(len(T))] = rng.choice(V)
        return "".join(T)
    if k == 7 and len(T) > 2:
        i, j = rng.randrange(len(T)), rng.randrange(len(T))
        T[i], T[j] = T[j], T[i]
        return "".join(T)
    if k == 8 and len(T) > 2:
        idx = [i for i, t in enumerate(T) if not t.isspace()]
        if len(idx) > 1:
            a = rng.randrange(len(idx) - 1)
            i, j = idx[a], idx[a + 1]
            T[i], T[j] = T[j], T[i]
        return "".join(T)
    L = src.split("\n")
    if k == 9:
        i = rng.randrange(len(L))
        if rng.random() < 0.7:
            L[i] = rng.choice(["", " ", "  ", "    ", "        ", "\t", " \t", "   "]) + L[i].lstrip()
        else:
            L[i] = " " * rng.randrange(9) + L[i]
        return "\n".join(L)
    if k == 10 and len(L) > 1:
        i, j = rng.randrange(len(L)), rng.randrange(len(L))
        m = rng.randrange(4)
        if m == 0:
            del L[i]
        elif m == 1:
            L.insert(j, L[i])
        elif m == 2:
            L[i], L[j] = L[j], L[i]
        else:
            L.insert(i, rng.choice(["", "# c", "    ", "\\"]))
        return "\n".join(L)
    if k == 11:
        other = rng.choice(seeds)[1].split("\n")
        L.insert(rng.randrange(len(L) + 1), rng.choice(other))
        return "\n".join(L)
    if k == 12:
        other = toks(rng.choice(seeds)[1])
        if other:
            a = rng.randrange(len(other))
            T[rng.randrange(len(T) + 1):0] = other[a:min(len(other), a + rng.randrange(1, 6))]
        return "".join(T)
    if k == 13:
        i = rng.randrange(len(T))
        T[i] = rng.choice(["(", "[", "f'{", "not ", "*", "-", "lambda: ", "new ", "await ", "yield ", "always ", "("]) + T[i]
        return "".join(T)
    if k == 14:
        # a Scenic-only / unusual expression in a target or operand position
        idx = [i for i, t in enumerate(T) if t in ("=", ":", "in", "for", "del", "as", ":=", "+=", "with")]
        if idx:
            i = rng.choice(idx)
            frag = rng.choice(["x @ 3", "new Object", "x relative to y", "front of x", "distance to x", "x deg",
                               "visible x", "x can see y", "(x until y)", "always x", "x implies y", "05", "1__0",
                               "f'{a!r}'", "x offset by y", "not visible x", "x at y", "*x", "**x", "x.y[0]", "()"])
            if rng.random() < 0.5:
                T.insert(max(0, i - 1), frag + " ")
            else:
                T.insert(i + 1, " " + frag)
        return "".join(T)
    # k == 15: join with the next physical line / split a line
    if len(L) > 1:
        i = rng.randrange(len(L) - 1)
        if rng.random() < 0.5:
            L[i:i + 2] = [L[i] + " " + L[i + 1].lstrip()]
        else:
            cut = rng.randrange(len(L[i]) + 1)
            L[i:i + 1] = [L[i][:cut], L[i][cut:]]
    return "".join(T) if len(L) <= 1 else "\n".join(L)


_OPEN, _CLOSE = "([{", ")]}"


def spread(src, rng=None, count=99):
    """put line breaks followed by a blank or comment-only line between tokens inside brackets (the tokenizer keeps no
    text for such lines: error ranges that cross them need the lines the parser no longer holds)"""
    T = toks(src)
    depth, cand = 0, []
    for i, t in enumerate(T):
        if t in _OPEN:
            depth += 1
        elif t in _CLOSE:
            depth = max(0, depth - 1)
        elif depth > 0 and t.isspace() and "\n" not in t and 0 < i < len(T) - 1:
            cand.append(i)
    if not cand:
        return src
    if rng is not None and count < len(cand):
        cand = rng.sample(cand, count)
    for i in cand:
        T[i] = (rng.choice(["\n\n", "\n# c\n", "\n\n\n  ", "\n  \n"]) if rng is not None else "\n\n")
    return "".join(T)


def make_mutant(seed, index, seeds, small, V):
    """the index-th mutant of the run with the given seed: deterministic, independent of worker scheduling"""
    rng = random.Random(f"C10/{seed}/{index}")
    name, src = small[rng.randrange(len(small))]
    m = src
    n = rng.choice([1, 1, 1, 2, 2, 3, 5])
    for _ in range(n):
        m = mutate_once(rng, m, seeds, V)
    m = m.replace("\x00", "")
    return name, m, rng


# =========================================================================== workers
_W = {}


def _winit():
    signal.signal(signal.SIGALRM, _alarm)
    _W["devnull"] = open(os.devnull, "w")


def boxed(timebox, fn, *args, **kw):
    """fn(*args) under a SIGALRM time box; None (= cut off, the case is dropped / re-run alone, never an outcome) when the
    alarm fired at any moment of the call, whether or not the exception reached us"""
    _FIRED[0] = 0
    r = None
    try:
        try:
            signal.setitimer(signal.ITIMER_REAL, timebox, 1.0)
            try:
                r = fn(*args, **kw)
            finally:
                signal.setitimer(signal.ITIMER_REAL, 0)
        except _Timeout:
            r = None
    except _Timeout:        # fired while the timer was being cancelled
        r = None
    if _FIRED[0]:
        _FIRED[0] = 0
        return None
    return r


def run_one(src, do_exec, initial, mode2D=False, timebox=TIMEBOX):
    """full oracle on one text -> list of verdicts (first: compile path; second, if any: scenarioFromString path)"""
    v = boxed(timebox, front_compile, src) or {"o": "timeout", "stage": "?"}
    out = [v]
    P, C, T, V, E = front_modules()
    if V.isActive() or V.activity != 0:
        out.append({"o": "state", "diff": ["activity"], "after": {"activity": V.activity}, "raised": v})
        veneer_reset()
    if do_exec and v["o"] in ("ok", "syntax") and not UNSAFE_EXEC.search(src):
        so, se = sys.stdout, sys.stderr
        sys.stdout = sys.stderr = _W.get("devnull") or open(os.devnull, "w")
        try:
            w = boxed(timebox, front_exec, src, initial, mode2D=mode2D)
        finally:
            sys.stdout, sys.stderr = so, se
        if w is None:
            veneer_reset()
            w = {"o": "timeout-exec"}
        if v["o"] == "syntax" and w["o"] in ("ok", "other"):
            w = {"o": "inconsistent", "a": "syntax:" + v["cls"], "b": w["o"] + ":" + w.get("exc", "")}
        out.append(w)
    return out


def verdict_keys(v):
    """one key per violated clause (a state verdict yields one key per global that differs)"""
    if v["o"] == "state":
        return ["state:" + g for g in sorted(set(v["diff"]))]
    k = verdict_key(v)
    return [k] if k else []


def _wchunk(task):
    kind, lo, hi = task
    hist = Counter()
    findings = []
    samples = []
    done = lo
    for i in range(lo, hi):
        if i > lo and time.time() > _W.get("deadline", float("inf")):
            break               # phase deadline: return what was finished, the rest of the chunk is not counted
        done = i + 1
        if kind == "corpus":
            name, m = _W["seeds"][i]
            do_exec, mode2D = False, False
        else:
            name, m, rng = make_mutant(_W["seed"], i, _W["seeds"], _W["small"], _W["V"])
            do_exec = bool(_W["exec_every"]) and (i % _W["exec_every"] == 0)
            mode2D = do_exec and (i // max(1, _W["exec_every"])) % 5 == 0
        vs = run_one(m, do_exec, _W["initial"], mode2D=mode2D)
        for j, v in enumerate(vs):
            tag = ("exec:" if j else "") + v["o"] + (":" + v["cls"] if "cls" in v else "")
            if v["o"] == "syntax" and v.get("lineck") == "eof":
                tag += ":eof-line"
            hist[tag] += 1
            if v["o"] == "timeout":
                findings.append(("timeout", i, name, m, v, mode2D))
            for key in verdict_keys(v):
                findings.append((key, i, name, m, v, mode2D))
        hist["len:" + str(min(len(m) // 200 * 200, 1400))] += 1
        if kind == "mut" and len(samples) < 1 and vs[0]["o"] == "syntax":
            samples.append(m[:300])
    return kind, lo, done, dict(hist), findings, samples


# =========================================================================== (C) error-location model vs the real helper
def corr_errloc(ctx):
    """Model/ErrLoc.build + known on Gen.errLocData vs Parser._build_syntax_error, hooked from outside (one record per
    syntax error built): reported line, whether the KeyError fallback was used, the keys of tokenizer._lines"""
    P = front_modules()[0]
    cls = P.Parser
    orig = cls._build_syntax_error
    recs = []
    cur = {}

    def hook(self, message, start=None, end=None):
        tz = self._tokenizer
        calls = [0]
        gl = tz.get_lines

        def counting(x):
            calls[0] += 1
            return gl(x)
        tz.get_lines = counting
        out = None
        try:
            try:
                r = orig(self, message, start, end)
                out = ("ok", getattr(r, "lineno", None), 1 if calls[0] >= 2 else 0)
                return r
            except KeyError:
                out = ("keyerror",)
                raise
        finally:
            del tz.get_lines
            if out is not None and len(recs) < 20000:
                recs.append({"src": cur.get("src"), "N": cur.get("N"), "s": start[0] if start else None,
                             "e": end[0] if end else None, "h": [(t.start[0], t.end[0]) for t in tz._tokens],
                             "keys": sorted(tz._lines), "out": out, "helper": sys._getframe(1).f_code.co_name})

    seeds = load_corpus(ctx.repo)
    small = [x for x in seeds if len(x[1]) <= MAX_SEED_LEN]
    Vv = vocabulary()
    texts = [p[1] for p in fixed_probes()]
    texts += [p[1] for p in target_matrix()][:: 7]
    rng = random.Random(f"errloc{ctx.seed}")
    for x in small[:: max(1, len(small) // 40)]:
        texts += list(spread(x[1], rng, 3))
    for i in range((min(ctx.budget(250, 3000), 400) if ctx.tier == "quick" else ctx.budget(250, 3000))):
        texts.append(make_mutant(f"errloc{ctx.seed}", i, seeds, small, Vv)[1])
    texts += ["x = (1,\n\n\n 2 3)\n", '"""a\nb""" = 3', "f(\n\n# c\n a b)", "x = 1 +\n", "\n\n\n)", "if x:\n",
              "a = $\n\n", "def f(:\n\n  pass", "x = [\n1,\n\n2\n3]", "x = 1 2", "(a\n\n\n=\n\n1)"]
    cls._build_syntax_error = hook
    t_end = time.time() + (30 if ctx.tier == "quick" else ctx.budget(45, 300))
    nrun = 0
    try:
        for src in texts:
            if time.time() > t_end:
                break
            cur.update(src=src, N=len(io.StringIO(src).readlines()))
            n0 = len(recs)
            if boxed(TIMEBOX_SOLO, _parse_quiet, P, src) is None:
                del recs[n0:]            # cut off: whatever was recorded in flight is dropped
            nrun += 1
    finally:
        cls._build_syntax_error = orig
    lines = []
    for r in recs:
        mx = max([r["N"] + 1] + r["keys"] + [t[1] for t in r["h"]]) + 1
        r["mx"] = mx
        lines.append("C10 errloc %d %s %s %d %s" % (r["N"], "-" if r["s"] is None else r["s"],
                                                    "-" if r["e"] is None else r["e"], mx,
                                                    " ".join(f"{a}:{b}" for a, b in r["h"])))
    outs = ctx.driver(lines) if lines else []
    bad = 0
    for r, o in zip(recs, outs):
        ctx.case(("errloc", r["src"], r["s"], r["e"], len(r["h"])), nontrivial=r["s"] is not None)
        head, _, bits = o.partition(" keys=")
        real = "keyerror" if r["out"][0] == "keyerror" else f"ok {r['out'][1]} {r['out'][2]}"
        realbits = "".join("1" if ln in r["keys"] else "0" for ln in range(r["mx"] + 1))
        N = r["N"]
        wf = all(1 <= a <= N + 1 and a <= b and (b == a or b <= N) for a, b in r["h"])
        ctx.hist("errloc_helper", r["helper"])
        ctx.hist("errloc_outcome", ("fallback" if real.endswith(" 1") else real.split()[0]) + ("" if wf else ":tokens-not-wf"))
        if head != real or bits != realbits:
            bad += 1
            if bad <= 3:
                ctx.broken("correspondence", "ErrLoc.build/known on Gen.errLocData vs Parser._build_syntax_error",
                           f"{r['src']!r}: helper {r['helper']} start={r['s']} end={r['e']} N={N} tokens={r['h'][-6:]}: "
                           f"lean {head} keys={bits}; real {real} keys={realbits}")
    ctx.extra["errloc_correspondence"] = {"programs": nrun, "errors_built": len(recs), "disagreements": bad}
    return False


def _parse_quiet(P, src):
    try:
        P.parse_string(src, "exec")
    except _Timeout:
        raise
    except BaseException:  # noqa
        pass
    return True


# =========================================================================== shrinking
def shrink(src, still_fails, budget=250):
    """ddmin over lines, then over tokens, keeping `still_fails(text)` true"""
    calls = [0]

    def test(t):
        if calls[0] >= budget:
            return False
        calls[0] += 1
        try:
            return still_fails(t)
        except Exception:
            return False

    def ddmin(parts, join):
        n = 2
        while len(parts) >= 2 and calls[0] < budget:
            chunk = max(1, len(parts) // n)
            reduced = False
            for i in range(0, len(parts), chunk):
                cand = parts[:i] + parts[i + chunk:]
                if cand and test(join(cand)):
                    parts = cand
                    n = max(n - 1, 2)
                    reduced = True
                    break
            if not reduced:
                if chunk == 1:
                    break
                n = min(len(parts), n * 2)
        return parts

    lines = src.split("\n")
    lines = ddmin(lines, "\n".join)
    cur = "\n".join(lines)
    T = toks(cur)
    T = ddmin(T, "".join)
    return "".join(T)


# =========================================================================== direct oracle (S)
def direct_oracle(ctx, parser_path):
    """the property on the real code: corpus, regression inputs, docs forms, then seeded mutants"""
    load_front(parser_path)
    signal.signal(signal.SIGALRM, _alarm)
    P, C, T, V, E = front_modules()
    found = False
    seeds = load_corpus(ctx.repo)
    small = [s for s in seeds if len(s[1]) <= MAX_SEED_LEN]
    ctx.extra["corpus"] = {"programs": len(seeds), "mutation_seeds": len(small)}
    veneer_reset()
    initial = veneer_state()
    known = load_findings().get(ctx.prop, {})

    def report(key, what, replay):
        nonlocal found
        if ctx.violation(key, what, replay):
            found = True

    def fails_with(key, do_exec, mode2D=False):
        def f(text):
            vs = run_one(text, do_exec, initial, mode2D=mode2D, timebox=TIMEBOX)
            return any(key in verdict_keys(v) for v in vs)
        return f

    # ---- (1) fixed probes: regression inputs and inputs derived from the mechanisms named in the property
    for name, src, do_exec in fixed_probes():
        vs = run_one(src, do_exec, initial)
        ctx.case(("probe", name, src))
        ctx.hist("probe_outcome", vs[0]["o"])
        for v in vs:
            for key in verdict_keys(v):
                report(key, f"probe {name}: {v}", {"kind": "text", "text": src, "origin": name, "exec": do_exec, "verdict": v})

    for name, src in target_matrix():
        v = boxed(TIMEBOX, front_compile, src) or {"o": "timeout", "stage": "?"}
        ctx.case(("target", src))
        ctx.hist("target_matrix_outcome", v["o"])
        for key in verdict_keys(v):
            report(key, f"expression in target position ({name}): {v}", {"kind": "text", "text": src, "origin": name, "verdict": v})
    ctx.extra["target_matrix"] = {"programs": len(TARGET_EXPRS) * len(TARGET_CONTEXTS)}

    # ---- (2) grammar forms and examples quoted in docs/reference must be accepted, with the documented grouping
    found |= docs_oracle(ctx)

    # ---- (3) the unmutated corpus, then seeded mutants, 16 workers, until the count or the time budget is reached
    n = ctx.budget(5000, 300000)
    budget_s = 200 if ctx.tier == "quick" else ctx.budget(165, 1500)   # quick: hard overall cap, also when budgets escalate
    _unused = ctx.budget(165, 1500)          # wall-clock target of the whole check (quick ≲ 3 min, thorough ≲ 30 min)
    if os.environ.get("C10_TIME_BUDGET"):     # development runs on a loaded machine
        budget_s = float(os.environ["C10_TIME_BUDGET"])
    exec_every = 4
    nproc = max(1, int(os.environ.get("VERIF_WORKERS") or min(3 if ctx.tier == "quick" else 8, os.cpu_count() or 4)))
    chunk = 25 if n <= 20000 else 200
    tasks = [("corpus", lo, min(len(seeds), lo + 40)) for lo in range(0, len(seeds), 40)]
    tasks += [("mut", lo, min(n, lo + chunk)) for lo in range(0, n, chunk)]
    _W.update(seeds=seeds, small=small, V=vocabulary(), seed=ctx.seed, exec_every=exec_every, initial=initial,
              deadline=time.time() + max(60.0, budget_s - ctx.elapsed()) + 45.0)
    mp = multiprocessing.get_context("fork")
    t0 = time.time()
    results = []
    stopped = False
    pool = mp.Pool(nproc, initializer=_winit)
    try:
        for r in pool.imap_unordered(_wchunk, tasks):
            results.append(r)
            done_mut = sum(x[2] - x[1] for x in results if x[0] == "mut")
            if ctx.elapsed() > budget_s and done_mut >= 100:
                stopped = True
                break
    finally:
        pool.terminate()
        pool.join()
    results.sort(key=lambda x: (x[0], x[1]))
    total = ncorpus = 0
    cand = {}
    for kind, lo, hi, hist, findings, samples in results:
        if kind == "corpus":
            ncorpus += hi - lo
        else:
            total += hi - lo
        for k, c in hist.items():
            if k.startswith("len:"):
                if kind == "mut":
                    ctx.hist("mutant_length", k[4:], c)
            else:
                ctx.hist("corpus_outcome" if kind == "corpus" else "mutant_outcome", k, c)
        for f in findings:
            cand.setdefault(f[0], []).append((kind,) + tuple(f))
        for smp in samples:
            if len(ctx.samples) < 8:
                ctx.samples.append(smp)
    ctx.evaluations += total + ncorpus
    ids = [("corpus", i) for i in range(ncorpus)] + [("mutant", ctx.seed, lo + j) for k, lo, hi, *_ in results if k == "mut"
                                                      for j in range(hi - lo)]
    ctx._cases.update(ids)
    ctx._nontrivial.update(ids)
    ctx.extra["mutants"] = {"n": total, "requested": n, "stopped_by_time_budget": stopped, "corpus_programs_run": ncorpus,
                            "wall_s": round(time.time() - t0, 1), "workers": nproc, "scenarioFromString_every": exec_every}
    if ncorpus < len(seeds):
        ctx.notes.append(f"only {ncorpus} of {len(seeds)} corpus programs were run within the time budget")
    for key in sorted(cand):
        items = sorted(cand[key], key=lambda f: (len(f[4]), f[2]))
        if key == "timeout":
            # re-run alone with a large box before calling it a hang
            nsolo = 0
            for _k, _, i, name, m, v, mode2D in items[:3]:
                vs = run_one(m, False, initial, timebox=TIMEBOX_SOLO)
                if vs[0]["o"] == "timeout":
                    report(f"hang:{vs[0].get('stage', '?')}", f"input derived from {name} did not finish within {TIMEBOX_SOLO}s",
                           {"kind": "text", "text": m, "origin": name, "index": i, "seed": ctx.seed})
                else:
                    nsolo += 1
            ctx.hist("slow_under_load", "finished-alone", nsolo)
            ctx.hist("slow_under_load", "not-rechecked", max(0, len(items) - 3))
            continue
        kind0, _, i, name, m, v, mode2D = items[0]
        do_exec = v["o"] in ("state", "inconsistent")
        ctx.hist("failing_kinds", key, len(items))
        small_text = m
        try:
            if len(m) < 4000 and key not in known:
                small_text = shrink(m, fails_with(key, do_exec, mode2D))
        except Exception:
            small_text = m
        what = (f"{len(items)} inputs, e.g. {'mutant ' + str(i) + ' of' if kind0 == 'mut' else 'corpus program'} {name}: "
                f"{v}; minimised input: {small_text!r}")
        report(key, what[:900], {"kind": "text", "text": small_text, "original": m, "origin": name, "index": i,
                                 "seed": ctx.seed, "exec": do_exec, "mode2D": mode2D, "verdict": v})
    veneer_reset()
    return found


def fixed_probes():
    P = [
        ("regression:fstring-conversion-25c050e7", 'a = 1\nx = f"{a!r}"\n', True),
        ("regression:fstring-conversion-spec", 'a = 1\nx = f"{a!s:>{4}}"\n', True),
        ("scenic-expression-as-assignment-target", "x @ 3 = 1\n", False),
        ("new-as-assignment-target", "new Object = 3\n", False),
        ("scenic-expression-as-for-target", "for x relative to y in z:\n    pass\n", False),
        ("scenic-expression-as-del-target", "del x @ y\n", False),
        ("scenic-expression-as-walrus-target", "(x @ 3 := 1)\n", False),
        ("error-span-over-blank-line", "x = (1,\n\n  2 3)\n", False),
        ("error-span-over-comment-line", "x = (f(a,\n # c\n b c)\n", False),
        ("error-range-two-operands-blank-line-between", "x = (a\n\n  b)\n", False),
        ("error-range-list-comment-line-between", "x = [a\n# c\n b]\n", False),
        ("error-range-genexp-argument", "f(a for a in b\n\n, c)\n", False),
        ("error-range-ifexp-without-else", "x = (1 if\n\n 2)\n", False),
        ("error-range-kwarg-assignment", "f(a.b\n\n = 1)\n", False),
        ("error-range-missing-new", "x = (Object\n\n at 1)\n", False),
        ("multiline-literal-as-assignment-target", '"""a\nb""" = 3\n', False),
        ("multiline-literal-in-forgotten-comma", 'x = (1 """a\nb""")\n', False),
        ("error-range-multiline-string", 'x = ("""a\nb""" """c\nd""" 3)\n', False),
        ("missing-new-with-specifier", "Object beyond position by distance\n", False),
        ("leading-zero-literal", "x = 05\n", False),
        ("annotation-in-behavior", "behavior B():\n    x: int = 3\n    wait\n", False),
        ("temporal-group-then-implies", "require (always a) implies b\n", False),
        ("unterminated-triple-quote", 'x = """abc\n', False),
        ("unterminated-paren", "x = (1,\n", False),
        ("tab-space-mix", "if x:\n\ty = 1\n        z = 2\n", False),
        ("dedent-mismatch", "if x:\n        y = 1\n    z = 2\n", False),
        ("only-backslash", "\\", False),
        ("form-feed", "x = 1\x0c\ny = 2\n", False),
        ("crlf", "x = 1\r\ny = new Object\r\n", True),
        ("empty", "", True),
        ("only-comment", "# nothing\n", True),
        ("deep-unary", "x = " + "not " * 40 + "y\n", False),
        ("token-name-NEWLINE", "if x: NEWLINE INDENT pass NEWLINE DEDENT\n", False),
        ("name-ENDMARKER", "pass\nENDMARKER\n", False),
        ("param-then-error", "param a = 1\nego = new Object\nraise RuntimeError('x')\n", True),
        ("require-error", "ego = new Object\nrequire (1/0) > 0\n", True),
        ("scenario-def-then-error", "scenario S():\n    setup:\n        ego = new Object\nx = 1/0\n", True),
        ("simulator-then-error", "simulator None\nx = undefined_name\n", True),
    ]
    return P


TARGET_EXPRS = ["a < b", "a + b", "-a", "not a", "a and b", "f()", "f(x)[0]()", "lambda: 1", "a if b else c", "[a, b + 1]",
                "(a, f())", "{1: 2}", "{1, 2}", "[x for x in y]", "{x for x in y}", "{x: 1 for x in y}", "(x for x in y)",
                "1", "1.5", "'s'", "f's{a}'", "None", "True", "...", "*a", "*a, b()", "a.b()", "(yield)", "await a",
                "(a := 1)", "a @ b", "a deg", "a relative to b", "a offset by b", "new Object", "new Object at 3",
                "front of a", "visible a", "a can see b", "distance to a", "a at b", "(a until b)", "always a",
                "a implies b", "ego", "workspace", "globalParameters", "a.b", "a[0]", "a[0:1]", "x"]
TARGET_CONTEXTS = ["{e} = 1\n", "{e} += 1\n", "z = {e} = 1\n", "for {e} in z:\n    pass\n", "del {e}\n", "({e} := 1)\n",
                   "with z as {e}:\n    pass\n", "{e}: int = 1\n", "[q for {e} in z]\n", "f({e}=1)\n",
                   "behavior B():\n    {e} = 1\n", "import m as {e}\n", "def f({e}): pass\n"]


def target_matrix():
    """every expression form (Python and Scenic) in every assignment-target-like position"""
    return [(f"target:{i}:{j}", c.format(e=e)) for i, e in enumerate(TARGET_EXPRS) for j, c in enumerate(TARGET_CONTEXTS)]


def docs_oracle(ctx):
    from translate import docforms_c10 as D
    P, C, T, V, E = front_modules()
    found = False
    forms = D.doc_forms(ctx.repo)
    nform = 0
    for f in forms:
        if f["kind"] == "untranslatable":
            ctx.hist("docs_forms", "untranslatable-heading")
            ctx.notes.append(f"docs heading not instantiated: {f['origin']} {f['heading']!r}: {f['error']}")
            continue
        cands = D.wrap(f["kind"], f["form"])
        vs = [front_compile(c) for c in cands]
        nform += 1
        ctx.case(("docform", f["form"]))
        if any(v["o"] == "ok" for v in vs):
            ctx.hist("docs_forms", "accepted")
            continue
        ctx.hist("docs_forms", "rejected")
        key = "docs-form-rejected:" + re.sub(r"[^a-z]+", "-", f["heading"].lower()).strip("-")[:60]
        if ctx.violation(key, f"{f['origin']}: the reference shows `{f['heading']}` but `{f['form']}` is rejected: "
                              f"{vs[0].get('msg', vs[0])}",
                         {"kind": "docform", "candidates": cands, "origin": f["origin"], "form": f["form"]}):
            found = True
    for origin, src in D.literal_blocks(ctx.repo):
        v = front_compile(src)
        if v["o"] != "ok":
            v2 = front_compile("behavior B():\n" + textwrap.indent(src, "    "))
            if v2["o"] == "ok":
                v = v2
        ctx.case(("docblock", origin, src))
        ctx.hist("docs_examples", "accepted" if v["o"] == "ok" else "rejected")
        if v["o"] != "ok":
            key = "docs-example-rejected:" + origin.split(":")[0]
            if ctx.violation(key, f"{origin}: example of the reference is rejected: {v}",
                             {"kind": "text", "text": src, "origin": origin}):
                found = True
    for origin, a, b in D.PRECEDENCE:
        try:
            ta = ast.dump(C.compileScenicAST(P.parse_string(a, "exec"))[0])
            tb = ast.dump(C.compileScenicAST(P.parse_string(b, "exec"))[0])
            same = ta == tb
            err = None
        except E.ScenicSyntaxError as e:
            same, err = False, f"{type(e).__name__}: {e}"
        except Exception as e:  # noqa
            same, err = False, f"crash {type(e).__name__}: {e}"
        ctx.case(("docprec", a, b))
        ctx.hist("docs_precedence", "as-documented" if same else "differs")
        if not same:
            key = "docs-precedence:" + re.sub(r"[^a-z]+", "-", a.lower()).strip("-")[:50]
            if ctx.violation(key, f"{origin}: `{a.strip()}` is not parsed as `{b.strip()}` ({err or 'different trees'})",
                             {"kind": "precedence", "a": a, "b": b, "origin": origin}):
                found = True
    ctx.extra["docs"] = {"forms": nform, "literal_examples": len(D.literal_blocks(ctx.repo)), "precedence_claims": len(D.PRECEDENCE)}
    return found


# =========================================================================== main
def run(ctx):
    ctx.rule = ("cases = (a) every Scenic program of examples/ and tests/ (files and strings passed to the test helpers), "
                "(b) fixed probes, (c) every expansion of every grammar template heading and every literal example of "
                "docs/reference, (d) seeded mutants (1-5 byte/token/line edits: delete, insert, replace, swap, re-indent, "
                "truncate, splice, Scenic-expression-in-target) of the programs of (a) with at most 1500 characters, each "
                "run through parse_string+compileScenicAST+compile and every 4th also through scenarioFromString; "
                "(e) token streams for the Lean recogniser, (f) nested-compilation scripts with injected failures for the "
                "Lean state machine; non-trivial = all (mutant index is part of the identity); distinct by content hash")
    ctx.assumptions += [
        "tokenize (CPython) terminates and raises only TokenError/IndentationError/SyntaxError (its SystemError on NUL "
        "bytes in 3.12.1 is counted separately, NUL is removed from mutants)",
        "the grammar actions (Python snippets) are abstracted in the Lean model as an arbitrary oracle "
        "(truthy / falsy / raises); their freedom from internal exceptions is settled only by enumeration",
        "a line number equal to (number of lines + 1) is accepted as 'inside the input' (tokenize puts ENDMARKER there)",
        "RecursionError / MemoryError on pathologically deep inputs are counted, not reported",
    ]
    ctx.trusted_base += ["pegen's grammar parser and rule flattening (used by tools/translate/pegwf_c10.py)",
                         "tools/translate/pegwf_c10.py, frontstate_c10.py, docforms_c10.py (template extraction)",
                         "tools/props/c10.py (correspondence + direct oracle on the real code)"]
    ctx.fingerprint(FINGERPRINTS)
    parser_path, err = regenerate_parser(ctx)
    if parser_path is None:
        ctx.violation("parser-generation-failed", f"pegen cannot generate a parser from the current scenic.gram: {err}",
                      {"kind": "pegen"})
        return
    from translate import frontstate_c10, pegwf_c10
    gram = None
    try:
        gram = pegwf_c10.extract(ctx.repo)
        ctx.gen("PegGrammarC10", pegwf_c10.to_lean(gram))
        ctx.extra["grammar"] = pegwf_c10.stats(gram)
    except TemplateMismatch as e:
        ctx.gen_restore("PegGrammarC10")
        ctx.escalated.append(f"translator tie lost (grammar): {e}")
        ctx.notes.append(f"translator tie lost for scenic.gram: {e}")
    fs = None
    try:
        fs = frontstate_c10.extract(ctx.repo)
        ctx.gen("FrontStateC10", frontstate_c10.to_lean(fs))
    except TemplateMismatch as e:
        ctx.gen_restore("FrontStateC10")
        ctx.escalated.append(f"translator tie lost (veneer/translator skeleton): {e}")
        ctx.notes.append(f"translator tie lost for veneer.activate/deactivate or the try/finally skeletons: {e}")
    try:
        from translate import errloc_c10
        el = errloc_c10.extract(parser_path)
        ctx.gen("ErrLocC10", errloc_c10.to_lean(el))
        ctx.extra["errloc_data"] = {k: (v if k != "helpers" else len(v)) for k, v in el.items()}
    except TemplateMismatch as e:
        ctx.gen_restore("ErrLocC10")
        ctx.escalated.append(f"translator tie lost (error-location helpers): {e}")
        ctx.notes.append(f"translator tie lost for parse_string / Parser._build_syntax_error / raise_syntax_error_*: {e}")
    phases = ctx.extra.setdefault("phase_wall_s", {})
    phases["translate"] = round(ctx.elapsed(), 1)
    pr = ctx.prove(THEOREMS, side_conditions=SIDE)
    phases["prove"] = round(ctx.elapsed(), 1)
    if ctx.tier == "thorough" and pr.build_ok:
        ctx.leanchecker(["ScenicModel.Props.C10"])
    load_front(parser_path)
    signal.signal(signal.SIGALRM, _alarm)
    found = False
    driver_ok = pr.build_ok
    if not driver_ok:
        # a side condition / proof no longer checks: the model driver (no proofs inside) may still build
        rc, _log = ctx.lake(["build", "drv_c10"])
        driver_ok = rc == 0
    only = set((os.environ.get("C10_PHASES") or "front,peg,errloc,direct").split(","))   # development switch
    if "front" in only:
        found |= corr_frontstate(ctx, fs, use_model=driver_ok)
    phases["corr_frontstate"] = round(ctx.elapsed(), 1)
    if driver_ok and gram is not None and "peg" in only:
        found |= corr_peg(ctx, gram)
    phases["corr_peg"] = round(ctx.elapsed(), 1)
    if driver_ok and "errloc" in only:
        found |= corr_errloc(ctx)
    phases["corr_errloc"] = round(ctx.elapsed(), 1)
    if "direct" in only:
        found |= direct_oracle(ctx, parser_path)
    phases["direct_oracle"] = round(ctx.elapsed(), 1)
    ctx.resolve_brokens(found)


# =========================================================================== (C) state machine vs the real veneer
def gen_script(rng, fs, refused):
    """a random flat script (see Model/FrontState.lean); `refused`: may contain nested top-level calls with parameter
    overrides / 2D mode, whose activation assertion fails (the rest of an uncaught one is skipped, so only every other
    script has them)"""
    writable = [fs["names"].index(n) for n in fs["compileWrites"]]
    toks, depth = [], 0
    for _ in range(rng.choice([1, 2, 3, 5, 8, 12])):
        k = rng.random()
        if k < 0.25 and writable:
            toks.append(f"w{rng.choice(writable)}")
        elif k < 0.45:
            toks.append("p")
        elif k < 0.55:
            toks.append("f")
        elif k < 0.72 and depth < 3:
            toks.append("I")
            depth += 1
        elif k < 0.85 and depth < 3:
            ov, m2 = (rng.random() < 0.5, rng.random() < 0.3) if refused else (False, False)
            toks.append(f"T{int(ov)}{int(m2)}{int(rng.random() < 0.6)}")
            depth += 1
        elif depth > 0:
            toks.append("c")
            depth -= 1
        else:
            toks.append("p")
    o = (int(rng.random() < 0.3), int(rng.random() < 0.3))
    return {"o": o, "toks": toks}


def _parse_script(toks):
    """flat tokens -> nested events of the outermost frame (tokens after it is closed are dropped, like the model)"""
    root = []
    stack = [root]
    for t in toks:
        cur = stack[-1]
        if t == "c":
            if len(stack) == 1:
                break
            stack.pop()
        elif t == "I":
            fr = []
            cur.append(("I", fr))
            stack.append(fr)
        elif t[0] == "T":
            fr = []
            cur.append(("T", t[1] == "1", t[2] == "1", t[3] == "1", fr))
            stack.append(fr)
        elif t[0] == "w":
            cur.append(("w", int(t[1:])))
        else:
            cur.append((t,))
    return root


_MODCOUNT = [0]


def _render(events, names, tmp, uid):
    """Scenic source text performing the events (nested modules are written to `tmp`)"""
    lines = ["import scenic.syntax.veneer as _c10v", "import builtins as _c10b", "import scenic as _c10s"]
    n = 0
    for ev in events:
        n += 1
        if ev[0] == "p":
            lines.append("_c10b._c10log.append((_c10v.activity, len(_c10v.scenarioStack)))")
        elif ev[0] == "f":
            lines.append("raise RuntimeError('c10-injected')")
        elif ev[0] == "w":
            g = names[ev[1]]
            if g == "_globalParameters":
                lines.append(f"param c10p{uid}_{n} = 1")
            elif g == "simulatorFactory":
                lines.append("simulator 1")
            elif g == "scenarios":
                lines += [f"scenario C10S{uid}_{n}(c10arg):", "    setup:", "        pass"]
            elif g == "inInitialScenario":
                lines.append("_c10v.finishScenarioSetup(None)")
            else:
                lines.append("pass")
        elif ev[0] == "I":
            _MODCOUNT[0] += 1
            mod = f"c10m_{uid}_{_MODCOUNT[0]}"
            with open(os.path.join(tmp, mod + ".scenic"), "w") as f:
                f.write(_render(ev[1], names, tmp, uid))
            lines.append(f"import {mod}")
        elif ev[0] == "T":
            _, ov, m2, caught, fr = ev
            text = _render(fr, names, tmp, uid)
            call = f"_c10s.scenarioFromString({text!r}, params={{'c10ov': 1}}, mode2D={m2})" if ov else \
                f"_c10s.scenarioFromString({text!r}, mode2D={m2})"
            if caught:
                lines += ["try:", "    " + call, "except BaseException:", "    pass"]
            else:
                lines.append(call)
    return "\n".join(lines) + "\n"


def run_script_real(script, fs, tmp):
    """execute the script on the real front end; -> observable summary comparable with the Lean machine"""
    import builtins

    import scenic
    P, C, T, V, E = front_modules()
    veneer_reset()
    initial = veneer_state()
    builtins._c10log = []
    _MODCOUNT[0] += 1
    uid = f"{os.getpid()}_{_MODCOUNT[0]}"
    d = os.path.join(tmp, "scripts")
    os.makedirs(d, exist_ok=True)
    text = _render(_parse_script(script["toks"]), fs["names"], d, uid)
    cwd = os.getcwd()
    so, se = sys.stdout, sys.stderr
    sys.stdout = sys.stderr = open(os.devnull, "w")
    raised = None
    path0 = list(sys.path)
    try:
        os.chdir(d)
        ov, m2 = script["o"]
        kw = {"params": {"c10top": 1}} if ov else {}
        def call():
            try:
                scenic.scenarioFromString(text, mode2D=bool(m2), **kw)
                return "returned"
            except _Timeout:
                raise
            except BaseException as e:  # noqa
                return type(e).__name__
        r = boxed(TIMEBOX_SOLO, call)
        raised = "timeout" if r is None else (None if r == "returned" else r)
    finally:
        os.chdir(cwd)
        sys.stdout, sys.stderr = so, se
    after = veneer_state()
    dirty = sorted(k for k in initial if k in fs["names"] and after.get(k) != initial[k])
    if not after["constructibles"]:
        dirty.append("constructibles")
    res = {"act": V.activity, "stack": len(V.scenarioStack), "m2": int(bool(V.mode2D)), "dirty": sorted(set(dirty)),
           "trace": [list(x) for x in builtins._c10log], "raised": raised, "text": text}
    sys.path[:] = path0
    for m in [m for m in sys.modules if m.startswith("c10m_")]:
        del sys.modules[m]
    veneer_reset()
    return res


def corr_frontstate(ctx, fs, use_model=True):
    """Lean state machine vs the real veneer on scripts of nested compilations with injected failures; every script is
    also a direct test of the property (the veneer must be back in its initial state).  `use_model=False` (the Lean
    driver could not be built): only the direct test.  `fs=None` (the translator lost its template): the names of the
    tracked globals and the compile-time writers come from the data the Lean driver was built with."""
    found = False
    rng = ctx.rng
    if fs is None:
        fs = {"names": sorted(VENEER_SCALARS[1:] + VENEER_CONTAINERS[1:] + ["constructibles"]),
              "compileWrites": ["_globalParameters", "inInitialScenario", "scenarios", "simulatorFactory"],
              "sfsGuarded": None, "sfsInnerActivates": False, "fallback": True}
        if use_model:
            kv = dict(x.split("=", 1) for x in ctx.driver(["C10 frontdata"])[0].split())
            fs["names"] = kv["names"].split(",")
            fs["compileWrites"] = [fs["names"][int(i)] for i in kv["writes"].split(",") if i != "-"]
    guarded = fs["sfsGuarded"]
    scripts = [
        {"o": (0, 0), "toks": []},
        {"o": (1, 1), "toks": ["p", "I", "p", "I", "p", "f", "c", "p", "c", "p"]},
        {"o": (0, 0), "toks": ["I", "T001", "p", "f", "c", "p", "c", "p"]},
        {"o": (0, 0), "toks": ["T100", "c"]},          # the witness script of FrontState.unguarded_witness
        {"o": (0, 0), "toks": ["T101", "c", "p"]},
        {"o": (0, 0), "toks": ["T010", "p", "c", "p"]},
        {"o": (0, 1), "toks": ["T010", "p", "c", "p"]},
        {"o": (0, 1), "toks": ["I", "p", "T111", "p", "c", "p", "c", "p"]},
        {"o": (1, 0), "toks": ["I", "I", "T001", "I", "f"]},
    ] + [{"o": (0, 0), "toks": [f"w{fs['names'].index(n)}"]} for n in fs["compileWrites"] if n in fs["names"]] \
      + [{"o": (0, 0), "toks": ["I", f"w{fs['names'].index(n)}", "c", "T001", f"w{fs['names'].index(n)}", "f"]}
         for n in fs["compileWrites"] if n in fs["names"]]
    n = ctx.budget(60, 1500) if ctx.tier != "quick" else min(ctx.budget(60, 1500), 150)   # quick: capped also when escalated
    for i in range(n):
        scripts.append(gen_script(rng, fs, refused=(i % 2 == 0)))
    if fs.get("sfsInnerActivates"):
        # compileStream is called in its activating form inside _scenarioFromStream: every top frame is doubled
        for sc in scripts:
            out = []
            depthkinds = ["T"]
            for t in sc["toks"]:
                if t[0] == "T":
                    out += [t, "I"]
                    depthkinds.append("T")
                elif t == "I":
                    out.append(t)
                    depthkinds.append("I")
                elif t == "c":
                    k = depthkinds.pop() if len(depthkinds) > 1 else None
                    out += ["c", "c"] if k == "T" else ["c"]
                else:
                    out.append(t)
            sc["model_toks"] = ["I"] + out
    lines = [f"C10 front - o{sc['o'][0]}{sc['o'][1]} " + " ".join(sc.get("model_toks", sc["toks"])) for sc in scripts]
    lean = ctx.driver(lines) if use_model else [None] * len(lines)
    focus = [n for n in fs["compileWrites"]]
    bad = 0
    for sc, ln, out in zip(scripts, lines, lean):
        real = run_script_real(sc, fs, ctx.tmp)
        ctx.case(("script", sc["o"], tuple(sc["toks"])), nontrivial=len(sc["toks"]) > 0)
        if out is not None:
            m = dict(kv.split("=", 1) for kv in out.split())
            mdirty = set() if m["dirty"] == "-" else {fs["names"][int(x)] for x in m["dirty"].split(",")}
            mtrace = [] if m["trace"] == "-" else [[int(a) for a in x.split(":")] for x in m["trace"].split(";")]
            agree = (int(m["act"]) == real["act"] and int(m["stack"]) == real["stack"] and int(m["m2"]) == real["m2"]
                     and mtrace == real["trace"] and set(real["dirty"]) <= mdirty
                     and {g for g in real["dirty"] if g in focus} == {g for g in mdirty if g in focus})
            if not agree:
                bad += 1
                if bad <= 3:
                    ctx.broken("correspondence", "FrontState machine vs veneer/translator",
                               f"{ln}: lean={out} real={ {k: v for k, v in real.items() if k != 'text'} }")
        ctx.hist("script_final_activity", real["act"])
        ctx.hist("script_outcome", "raised" if real["raised"] else "returned")
        ctx.hist("script_len", min(len(sc["toks"]), 12))
        # the property itself on this run: inactive afterwards, every global at its initial value
        diff = list(real["dirty"])
        if real["act"] != 0:
            diff.append("activity")
        if real["stack"] != 0:
            diff.append("scenarioStack")
        if real["raised"] == "timeout":
            continue
        for g in sorted(set(diff)):
            if ctx.violation("state:" + g, f"after scenarioFromString on a nested-compilation script {sc['toks']} "
                                           f"(options {sc['o']}) the veneer is not in its initial state: "
                                           f"activity={real['act']}, len(scenarioStack)={real['stack']}, "
                                           f"changed globals {real['dirty']}",
                             {"kind": "script", "script": sc, "names": fs["names"], "program": real["text"]}):
                found = True
    ctx.extra["frontstate"] = {"scripts": len(scripts), "disagreements": bad, "guarded_finally": guarded,
                               "compared_with_model": bool(use_model),
                               "leaks": None if fs.get("fallback") else frontstate_leaks(fs)}
    return found


def frontstate_leaks(fs):
    from translate import frontstate_c10
    return frontstate_c10.leaks(fs)


# =========================================================================== (C) Lean recogniser vs the real parser
def _term_matcher(gram):
    import token as TK

    from pegen.tokenizer import exact_token_types
    P = front_modules()[0]
    KW, SKW = set(P.ScenicParser.KEYWORDS), set(P.ScenicParser.SOFT_KEYWORDS)
    fs_ = (getattr(TK, "FSTRING_START", None), getattr(TK, "FSTRING_MIDDLE", None), getattr(TK, "FSTRING_END", None))
    lits = {}
    kinds = {}
    for i, (kind, v) in enumerate(gram["termlist"]):
        (lits if kind == "lit" else kinds)[v] = i
    type_lits = {}
    for v, i in lits.items():
        if v in exact_token_types:
            type_lits.setdefault(exact_token_types[v], []).append(i)
        if v in TK.__dict__ and isinstance(TK.__dict__[v], int):
            type_lits.setdefault(TK.__dict__[v], []).append(i)
    cache = {}

    def ids(tok):
        key = (tok.type, tok.string)
        r = cache.get(key)
        if r is None:
            out = set()
            if tok.string in lits:
                out.add(lits[tok.string])
            out.update(type_lits.get(tok.type, ()))
            if tok.type == TK.NAME:
                if tok.string not in KW and "name" in kinds:
                    out.add(kinds["name"])
                if tok.string in SKW and "soft_keyword" in kinds:
                    out.add(kinds["soft_keyword"])
            for nm, ty in (("number", TK.NUMBER), ("string", TK.STRING), ("fstring_start", fs_[0]),
                           ("fstring_middle", fs_[1]), ("fstring_end", fs_[2]), ("op", TK.OP),
                           ("type_comment", TK.TYPE_COMMENT)):
                if nm in kinds and ty is not None and tok.type == ty:
                    out.add(kinds[nm])
            r = cache[key] = ".".join(map(str, sorted(out))) or "-"
        return r
    return ids


def _token_words(src, ids):
    import token as TK
    import tokenize

    from pegen.tokenizer import Tokenizer
    tz = Tokenizer(tokenize.generate_tokens(io.StringIO(src).readline))
    out = []
    try:
        while True:
            t = tz.getnext()
            out.append(ids(t))
            if t.type == TK.ENDMARKER:
                break
    except _Timeout:
        raise
    except BaseException:  # noqa: the token stream ends where the tokenizer raises
        pass
    return out


def _real_pass1(src):
    import tokenize

    from pegen.tokenizer import Tokenizer
    P = front_modules()[0]
    tz = Tokenizer(tokenize.generate_tokens(io.StringIO(src).readline))
    ps = P.ScenicParser(tz, filename="<string>")
    ps.call_invalid_rules = False
    try:
        r = ps.file()
    except RecursionError:
        return "recursion"
    except _Timeout:
        raise
    except BaseException:  # noqa
        return "raise"
    return "fail" if r is None else f"ok {ps._mark()}"


def corr_peg(ctx, gram):
    """the Lean interpreter on Gen.pegGrammar vs the generated parser: first-pass result and overall accept/reject"""
    P, C, T, V, E = front_modules()
    ids = _term_matcher(gram)
    seeds = load_corpus(ctx.repo)
    small = [s for s in seeds if len(s[1]) <= MAX_SEED_LEN]
    Vv = vocabulary()
    cases = [(n, s) for n, s in small[:: max(1, len(small) // ctx.budget(120, 1000))]]
    for name, src, _ in fixed_probes():
        cases.append((name, src))
    for i in range((min(ctx.budget(200, 4000), 400) if ctx.tier == "quick" else ctx.budget(200, 4000))):
        name, m, _ = make_mutant(f"peg{ctx.seed}", i, seeds, small, Vv)
        cases.append((name + "~", m))
    lines, real = [], []
    t_end = time.time() + (60 if ctx.tier == "quick" else ctx.budget(75, 600))   # quick: hard cap even when escalated      # phase deadline checked between cases; the cases done stay valid
    for name, src in cases:
        if time.time() > t_end:
            ctx.notes.append(f"PEG correspondence stopped by its time budget after {len(real)} of {len(cases)} inputs")
            break
        def one():
            ws = _token_words(src, ids)
            r1 = _real_pass1(src)
            try:
                P.parse_string(src, "exec")
                rf = "ok"
            except RecursionError:
                rf = "recursion"
            except _Timeout:
                raise
            except BaseException:  # noqa
                rf = "raise"
            return ws, r1, rf
        got = boxed(TIMEBOX_SOLO, one)
        if got is None:
            continue
        ws, r1, rf = got
        if len(ws) > 600:
            continue
        lines.append("C10 peg " + " ".join(ws))
        real.append((name, src, r1, rf, len(ws)))
    lean = ctx.driver(lines)
    bad = hang = 0
    for (name, src, r1, rf, n), out in zip(real, lean):
        ctx.case(("peg", src), nontrivial=n > 1)
        p1, pf = out[len("pass1="):].split(" parse=")
        ctx.hist("peg_tokens", min(n // 10 * 10, 200))
        if "hang" in out:
            hang += 1
            ctx.broken("proof", "scenic_parse_never_hangs", f"the Lean interpreter ran out of fuel on {src!r}")
            continue
        if "recursion" in (r1, rf):
            ctx.hist("peg_agreement", "python-recursion-limit")
            continue
        l1 = p1 if p1.startswith("ok") else p1.split()[0]
        lf = "ok" if pf.startswith("ok") else pf
        if r1 == l1 and rf == lf:
            ctx.hist("peg_agreement", "agree:" + l1.split()[0])
        elif r1 == "raise" and l1 != "raise" and rf == "raise":
            # the real first pass stopped with an exception raised by an action (abstracted by the oracle)
            ctx.hist("peg_agreement", "real-action-raised")
        else:
            bad += 1
            ctx.hist("peg_agreement", "DISAGREE")
            if bad <= 3:
                ctx.broken("correspondence", "PegTotal interpreter on Gen.pegGrammar vs generated parser",
                           f"{name}: {src!r}: lean pass1={p1} parse={pf}; real pass1={r1} parse={rf}")
    ctx.extra["peg_correspondence"] = {"inputs": len(real), "disagreements": bad, "hangs": hang}
    return False


def replay(ctx, path):
    """re-execute the recorded input on the real code of $SCENIC_REPO; exit status 1 = the violation is reproduced,
    0 = the input passes on this tree"""
    body = json.load(open(path))
    rep = body.get("replay", body)
    key = body.get("key", "")
    kind = rep.get("kind")

    def done(reproduced):
        print("REPRODUCED: " + key if reproduced else "not reproduced: the recorded input passes on this tree")
        return 1 if reproduced else 0

    if kind == "pegen":
        p, err = regenerate_parser(ctx)
        print("parser generation:", "ok" if p else err)
        return done(p is None)
    if "broken" in rep:
        print(json.dumps(rep, indent=1)[:4000])
        print("(no concrete input was recorded: re-run ./check C10 to see whether the obligation still fails)")
        return 0
    parser_path, err = regenerate_parser(ctx)
    if parser_path is None:
        print("cannot generate parser:", err)
        return 2
    load_front(parser_path)
    signal.signal(signal.SIGALRM, _alarm)
    veneer_reset()
    initial = veneer_state()
    P, C, T, V, E = front_modules()
    if kind == "precedence":
        dumps = []
        for s in (rep["a"], rep["b"]):
            try:
                dumps.append(ast.dump(C.compileScenicAST(P.parse_string(s, "exec"))[0]))
                print(repr(s), "->", dumps[-1][:400])
            except Exception as e:  # noqa
                dumps.append(f"raised {type(e).__name__}: {e}")
                print(repr(s), "->", dumps[-1])
        return done(dumps[0] != dumps[1] or dumps[0].startswith("raised"))
    if kind == "script":
        from translate import frontstate_c10
        try:
            fs = frontstate_c10.extract(ctx.repo)
        except TemplateMismatch:
            fs = {"names": rep.get("names", [])}
        if rep.get("names"):
            fs = dict(fs, names=rep["names"])
        r = run_script_real(rep["script"], fs, ctx.tmp)
        print("program:\n" + r.pop("text"))
        print(json.dumps(r, indent=1))
        return done(bool(r["dirty"]) or r["act"] != 0 or r["stack"] != 0 or r["m2"] != 0)
    if kind == "docform":
        from translate import docforms_c10 as D
        if rep.get("form") not in [f.get("form") for f in D.doc_forms(ctx.repo)]:
            print("the reference of this tree does not show the form", repr(rep.get("form")))
            return done(False)
        vs = [front_compile(c) for c in rep["candidates"]]
        for c, v in zip(rep["candidates"], vs):
            print("candidate:", repr(c[-120:]), "->", json.dumps(v, default=str))
        return done(not any(v["o"] == "ok" for v in vs))
    if kind == "errloc":
        out = errloc_replay(rep)
        return done(out)
    text = rep["text"]
    print("input text:", repr(text))
    vs = run_one(text, bool(rep.get("exec")), initial, mode2D=bool(rep.get("mode2D")), timebox=TIMEBOX_SOLO)
    keys = []
    for v in vs:
        keys += verdict_keys(v)
        print("verdict:", json.dumps(v, default=str), "keys:", verdict_keys(v))
    try:
        tree = P.parse_string(text, "exec", filename="<string>")
        pytree, _ = C.compileScenicAST(tree, filename="<string>")
        T.compileTranslatedTree(pytree, "<string>")
        print("front end: ok")
    except BaseException:  # noqa
        traceback.print_exc(limit=-6)
    if key.startswith("docs-example-rejected"):
        v = vs[0]
        if v["o"] != "ok":
            v = front_compile("behavior B():\n" + textwrap.indent(text, "    "))
        return done(v["o"] != "ok")
    if key.startswith("hang:"):
        return done(vs[0]["o"] == "timeout")
    return done(key in keys if key else bool(keys))
