"""C09 — plain Python inside Scenic compiles to exactly what CPython would parse (apart from the documented rewrites).

Proof:  lean/ScenicModel/Props/C09*.lean
          * PEG conservativity: on token streams without Scenic-only words, the grammar generated from scenic.gram
            parses exactly like the grammar with every keyword-guarded Scenic alternative erased (all fuels, all streams);
          * the compile step (documented rewrites + fix_missing_locations) is the identity off the triggers, keeps the
            location of every rewritten node, invents no line number and leaves no node without a location.
        Both are instantiated on data regenerated from /repo on every run (Gen/Grammar.lean from scenic.gram through pegen's
        own grammar parser; Gen/RewriteData.lean from compiler.py), side conditions re-decided by the kernel.
Tie:    (T) translate/gram2lean.py, translate/rewrites.py;
        (C) Lean `compile` vs its Python mirror on CPython trees; Lean PEG interpreter vs a pegen-generated label parser
            built from the same grammar, on real token streams;
        (S) the property itself on the real code: parser regenerated from the CURRENT scenic.gram, run on top-level
            statements of the standard library / site-packages and on Python fragments embedded in behaviors, requirements
            and specifiers; trees (with lineno/end_lineno) compared with CPython's after the documented rewrites.
"""
import ast
import collections
import importlib.abc
import importlib.util
import io
import json
import keyword
import multiprocessing
import os
import re
import subprocess
import sys
import sysconfig
import textwrap
import time
import tokenize

from vlib.ctx import Infra, TemplateMismatch

sys.setrecursionlimit(12000)

THEOREMS = []   # filled below (kept in one place with the Lean files)
SIDE = []

REPO = os.environ.get("SCENIC_REPO", "/repo")

# --------------------------------------------------------------------------- the real code, from the current grammar
_real = {}


def build_parser(scratch):
    """python -m pegen <current scenic.gram> -o <scratch>/parser.py   (parser.py in the repo is git-ignored and only
    regenerated when missing, so the check never trusts it)"""
    gram = os.path.join(REPO, "src/scenic/syntax/scenic.gram")
    out = os.path.join(scratch, "parser.py")
    p = subprocess.run([sys.executable, "-m", "pegen", "-q", gram, "-o", out], capture_output=True, text=True, timeout=600)
    if p.returncode != 0 or not os.path.exists(out):
        return None, (p.stdout + p.stderr)[-1500:]
    return out, ""


def load_real(parser_path):
    """import scenic with scenic.syntax.parser taken from parser_path"""
    if _real:
        return _real

    class Finder(importlib.abc.MetaPathFinder):
        def find_spec(self, name, path, target=None):
            if name == "scenic.syntax.parser":
                return importlib.util.spec_from_file_location(name, parser_path)
            return None
    sys.meta_path.insert(0, Finder())
    if "scenic.syntax.parser" in sys.modules:
        del sys.modules["scenic.syntax.parser"]
    import scenic.syntax.parser as P
    if not os.path.samefile(P.__file__, parser_path):
        raise Infra(f"scenic.syntax.parser was loaded from {P.__file__}, not from the regenerated parser")
    from scenic.core.errors import ScenicParseError
    from scenic.syntax.compiler import compileScenicAST
    _real.update(P=P, compile=compileScenicAST, ParseError=ScenicParseError)
    return _real


def scenic_compile(src, filename="<chunk>"):
    R = _real
    tree = R["P"].parse_string(src, "exec", filename=filename)
    node, _reqs = R["compile"](tree, filename=filename)
    return node


# --------------------------------------------------------------------------- comparison of trees
from translate import pytree  # noqa: E402
from translate.pytree import Rejected, canon, ident, mirror_compile, tokens  # noqa: E402

_cfg = {}          # the DOCUMENTED rewrite data: what the oracle expects (set by run / worker init)
_cfg_gen = {}      # the rewrite data extracted from compiler.py: what the Lean model runs on (correspondence only)
_words = {}        # keyword sets from the grammar


def fields_of(tag):
    cls = getattr(ast, tag, None)
    return getattr(cls, "_fields", ()) if cls is not None else ()


def tree_diff(got, exp, parent, field, out, limit=12):
    """all places where the two canonical trees differ (a mismatching subtree is reported once, not descended)"""
    if len(out) >= limit:
        return
    if isinstance(got, str) or isinstance(exp, str):
        if got != exp:
            out.append({"at": f"{parent}.{field}", "got": got, "exp": exp, "kind": "atom"})
        return
    if got[0] != exp[0]:
        out.append({"at": f"{parent}.{field}", "got": got, "exp": exp, "kind": "shape"})
        return
    if got[0] == "L":
        if len(got[1]) != len(exp[1]):
            out.append({"at": f"{parent}.{field}", "got": got, "exp": exp, "kind": "length"})
            return
        for g, e in zip(got[1], exp[1]):
            tree_diff(g, e, parent, field, out, limit)
        return
    if got[1] != exp[1]:
        out.append({"at": f"{parent}.{field}", "got": got, "exp": exp, "kind": "tag"})
        return
    if got[2] != exp[2]:
        out.append({"at": f"{got[1]}.lineno", "got": got, "exp": exp, "kind": "loc"})
        return
    if len(got[3]) != len(exp[3]):
        out.append({"at": f"{got[1]}.fields", "got": got, "exp": exp, "kind": "length"})
        return
    fs = fields_of(got[1])
    for i, (g, e) in enumerate(zip(got[3], exp[3])):
        tree_diff(g, e, got[1], fs[i] if i < len(fs) else str(i), out, limit)


def brief(t, vals=None, depth=0):
    if isinstance(t, str):
        if vals and t in vals:
            return repr(vals[t])[:40]
        return ident(t) if ident(t) is not None else t
    if t[0] == "L":
        return "[" + ", ".join(brief(x, vals, depth + 1) for x in t[1][:4]) + (", ..." if len(t[1]) > 4 else "") + "]"
    if depth > 2:
        return t[1] + "(...)"
    return t[1] + "(" + ", ".join(brief(x, vals, depth + 1) for x in t[3][:4]) + ")"


def idents_in(t, acc):
    if isinstance(t, str):
        i = ident(t)
        if i is not None:
            acc.add(i)
    elif t[0] == "L":
        for x in t[1]:
            idents_in(x, acc)
    else:
        for x in t[3]:
            idents_in(x, acc)
    return acc


def mismatch_key(m, gvals, evals):
    """stable identity of one difference: the construct, not the file"""
    at, got, exp = m["at"], m["got"], m["exp"]
    gtag = got[1] if isinstance(got, tuple) and got[0] == "N" else None
    etag = exp[1] if isinstance(exp, tuple) and exp[0] == "N" else None
    # --- Scenic operators shadowing Python ones
    if etag == "BinOp" and gtag == "Call" and is_matmul(exp):
        return "matmul-operator-becomes-Vector"
    g = gtag or (got if isinstance(got, str) and got == "~" else ("list" if isinstance(got, tuple) else "atom"))
    e = etag or (exp if isinstance(exp, str) and exp == "~" else ("list" if isinstance(exp, tuple) else "atom"))
    return f"diff:{at}:{g}!={e}" if m["kind"] != "loc" else f"lineno:{got[1]}"


def is_matmul(t):
    return (isinstance(t, tuple) and t[0] == "N" and t[1] == "BinOp" and len(t[3]) == 3
            and isinstance(t[3][1], tuple) and t[3][1][1] == "MatMult")


def reserved_words():
    """Scenic's reserved words = exactly the hard and soft keywords the grammar data lists that are not Python's (the
    words of `scenicWordMask` in the Lean theorem), minus the names the property itself puts in scope through a documented
    rewrite (`ego`, `workspace`: soft keywords of the grammar that plain Python may read; they become accessor calls)"""
    w = _words.get("reserved")
    if w is None:
        w = (_words.get("scenic_hard", set()) | _words.get("scenic_soft", set())) \
            - set(_cfg.get("tracked", ())) - {_cfg.get("globalParams")}
        _words["reserved"] = w
    return w


def name_tokens(src):
    res = set()
    try:
        for tok in tokenize.generate_tokens(io.StringIO(src).readline):
            if tok.type == tokenize.NAME:
                res.add(tok.string)
    except Exception:
        pass
    return res


def norm_msg(msg):
    msg = re.sub(r"\(<[^>]*>, line \d+\)|line \d+|\d+", "N", msg)
    return re.sub(r"\s+", " ", msg)[:70]


def compare(src, detail=False):
    """One program through CPython + documented rewrites and through Scenic's parser + compiler.
    -> dict(outcome=..., keys=[...], ...)
       outcome: same | both-reject | excluded:<why> | DIFF | SCENIC-REJECTS | SCENIC-ACCEPTS | SCENIC-CRASH | skip:<why>"""
    try:
        ref = ast.parse(src)
    except (SyntaxError, ValueError, RecursionError, MemoryError):
        return {"outcome": "skip:not-python"}
    evals, gvals = {}, {}
    try:
        cref = canon(ref, evals)
    except RecursionError:
        return {"outcome": "skip:recursion"}
    used = name_tokens(src)
    reserved = used & reserved_words()
    if reserved:
        # a Scenic reserved word (hard or soft keyword of scenic.gram) used as an identifier: outside the quantifier of
        # the property and outside the hypothesis `wordFree scenicWordMask` of the theorem, whatever Scenic does with it
        return {"outcome": "excluded:reserved-word-as-identifier", "words": sorted(reserved)}
    why = None
    try:
        expect = mirror_compile(_cfg, cref)
    except Rejected as e:
        expect, why = None, str(e)
    except RecursionError:
        return {"outcome": "skip:recursion"}
    res = {"nodes": count_nodes(cref)}
    if why in ("tracked-name-bound", "builtin-name-bound"):
        # the module binds ego/workspace/globalParameters/str/int/float.  Assigning to ego/workspace is a Scenic statement
        # with its own documented meaning, binding the others is documented as not allowed ("can be used but not
        # overwritten"): such a module uses a reserved name as an identifier it defines, which is outside the quantifier
        # of the property whatever Scenic does with it (accept with Scenic's meaning, or refuse)
        return dict(res, outcome="excluded:reserved-name-bound", why=why)
    try:
        got = canon(scenic_compile(src), gvals)
    except _real["ParseError"] as e:
        if expect is None:
            return dict(res, outcome="SCENIC-REJECTS", msg=str(e)[:200], keys=["reject:class-body-annotated-assignment"])
        msg = str(e)
        return dict(res, outcome="SCENIC-REJECTS", msg=msg[:200], keys=[reject_key(src, ref, msg)])
    except RecursionError:
        return {"outcome": "skip:recursion"}
    except Exception as e:
        return dict(res, outcome="SCENIC-CRASH", msg=f"{type(e).__name__}: {str(e)[:200]}",
                    keys=[f"crash:{type(e).__name__}"])
    if expect is None:
        # why == "class-annotation": by design (known finding)
        return dict(res, outcome="SCENIC-ACCEPTS", why=why, keys=["class-body-annotation-becomes-property"])
    if got == expect:
        return dict(res, outcome="same")
    ms = []
    tree_diff(got, expect, "Module", "root", ms)
    keys = []
    for m in ms:
        k = mismatch_key(m, gvals, evals)
        if k not in keys:
            keys.append(k)
    out = dict(res, outcome="DIFF", keys=keys)
    if detail:
        out["diffs"] = [{"at": m["at"], "key": mismatch_key(m, gvals, evals), "scenic": brief(m["got"], gvals),
                         "cpython+rewrites": brief(m["exp"], evals)} for m in ms]
    return out


def count_nodes(t):
    if isinstance(t, str):
        return 0
    if t[0] == "L":
        return sum(count_nodes(x) for x in t[1])
    return 1 + sum(count_nodes(x) for x in t[3])


def reject_key(src, ref, msg):
    if "annotated assignments are not allowed" in msg:
        return "reject:class-body-annotated-assignment"      # by design (known finding)
    return "reject:" + norm_msg(msg)


# --------------------------------------------------------------------------- corpus
def read_source(path):
    try:
        with open(path, "rb") as f:
            raw = f.read()
        enc = tokenize.detect_encoding(io.BytesIO(raw).readline)[0]
        src = raw.decode(enc)
    except Exception:
        return None
    src = src.replace("\r\n", "\n").replace("\r", "\n")
    if src.startswith("\ufeff"):
        src = src[1:]
    return src


def stmt_span(st):
    lo = st.lineno
    for d in getattr(st, "decorator_list", None) or []:
        lo = min(lo, d.lineno)
    return lo, st.end_lineno


def chunks_of(src):
    """top-level statements as stand-alone modules (whole source lines)"""
    try:
        ref = ast.parse(src)
    except (SyntaxError, ValueError, RecursionError, MemoryError):
        return None
    lines = src.split("\n")
    spans = []
    prev_end = 0
    for st in ref.body:
        lo, hi = stmt_span(st)
        if lo <= prev_end and spans:
            spans[-1] = (spans[-1][0], max(hi, spans[-1][1]))
        else:
            spans.append((lo, hi))
        prev_end = max(prev_end, hi)
    return [(lo, "\n".join(lines[lo - 1:hi]) + "\n") for lo, hi in spans]


def nested_statements(node):
    out = []
    for field in ("body", "orelse", "finalbody"):
        out += [n for n in getattr(node, field, []) or [] if isinstance(n, ast.stmt)]
    for h in getattr(node, "handlers", []) or []:
        out += h.body
    for c in getattr(node, "cases", []) or []:
        out += c.body
    return out


def child_statements(src):
    """the statements directly nested in the (single) top-level statement of src, as dedented stand-alone modules
    (for several top-level statements: each of them); a nested statement that cannot stand alone (`elif ...`) is
    replaced by its own nested statements"""
    try:
        ref = ast.parse(src)
    except Exception:
        return []
    lines = src.split("\n")
    nodes = list(ref.body) if len(ref.body) != 1 else nested_statements(ref.body[0])
    out = []

    def add(node, depth=0):
        lo, hi = stmt_span(node)
        seg = lines[lo - 1:hi]
        text = None
        if seg:
            ind = len(seg[0]) - len(seg[0].lstrip())
            if ind <= node.col_offset:
                text = textwrap.dedent("\n".join(seg)) + "\n"
                try:
                    ast.parse(text)
                except SyntaxError:
                    text = None
        if text is not None and len(text) < len(src):
            out.append(text)
        elif depth < 50:
            for ch in nested_statements(node):
                add(ch, depth + 1)
    for node in nodes:
        add(node)
    return out


def key_class(k):
    return k


def minimise(src, pred, budget=400):
    """descend into the nested statement whose result still satisfies pred, as long as there is one"""
    cur, n = src, 0
    while n < budget:
        nxt = None
        for c in child_statements(cur):
            n += 1
            if n > budget:
                break
            try:
                r = compare(c)
            except Exception:
                continue
            if pred(r):
                nxt = c
                break
        if nxt is None:
            break
        cur = nxt
    return cur


def minimise_result(text, r):
    """smallest nested statement showing the same deviation; keys are recomputed on it (they may name words of the text)"""
    if r["outcome"] in ("SCENIC-REJECTS", "SCENIC-CRASH"):
        msg = norm_msg(r.get("msg", ""))
        m = minimise(text, lambda x: x["outcome"] == r["outcome"] and norm_msg(x.get("msg", "")) == msg)
        r2 = compare(m)
        if r2["outcome"] == r["outcome"] and r2.get("keys"):
            return m, r2["keys"]
        return text, r["keys"]
    best, keys = text, list(r["keys"])
    for key in list(r["keys"]):
        kc = key_class(key)
        m = minimise(text, lambda x: kc in {key_class(k) for k in x.get("keys", [])})
        if len(m) < len(best):
            best = m
    return best, keys


def corpus_roots():
    roots = []
    std = sysconfig.get_paths()["stdlib"]
    roots.append(("stdlib", std))
    pure = sysconfig.get_paths()["purelib"]
    if os.path.isdir(pure) and not pure.startswith(std):
        roots.append(("site-packages", pure))
    return roots


def corpus_files():
    files = []
    for label, root in corpus_roots():
        for dp, dn, fn in os.walk(root):
            dn.sort()
            if "__pycache__" in dp:
                continue
            for f in sorted(fn):
                if f.endswith(".py"):
                    p = os.path.join(dp, f)
                    try:
                        sz = os.path.getsize(p)
                    except OSError:
                        continue
                    files.append((label, p, sz))
    return files


# --------------------------------------------------------------------------- workers
_TRAMP = None


def big_frame():
    """CPython 3.11+/3.12 keeps interpreter frames in 16 KB chunks obtained with mmap and returns a chunk as soon as the
    recursion leaves it; the recursive-descent parser crosses chunk boundaries all the time (tens of thousands of
    mmap/munmap pairs per file, most of the run time on this machine). Calling the parser from a frame that needs a
    > 512 KB chunk makes all deeper frames live in the unused half of that chunk. Purely a speed-up of the harness."""
    global _TRAMP
    if _TRAMP is None:
        import types

        def base(f):
            return f()
        c = base.__code__
        names = tuple(f"_pad{i}" for i in range(70000))
        try:
            c2 = c.replace(co_varnames=c.co_varnames + names, co_nlocals=c.co_nlocals + len(names))
            _TRAMP = types.FunctionType(c2, globals(), "big_frame_call")
            _TRAMP(lambda: None)
        except Exception:
            _TRAMP = base
    return _TRAMP


def _init_worker(parser_path, cfg, words):
    _cfg.clear()
    _cfg.update(cfg)
    _words.clear()
    _words.update({k: set(v) for k, v in words.items()})
    load_real(parser_path)


def work_file(task):
    """task = (label, path, max_chunks, max_lines, seed) -> list of chunk results"""
    import random
    label, path, max_chunks, max_lines, seed = task
    src = read_source(path)
    if src is None:
        return [{"file": path, "outcome": "skip:undecodable"}]
    ch = chunks_of(src)
    if ch is None:
        return [{"file": path, "outcome": "skip:not-python"}]
    rng = random.Random(repr((seed, path)))
    ch = [c for c in ch if c[1].count("\n") <= max_lines]
    if len(ch) > max_chunks:
        ch = sorted(rng.sample(ch, max_chunks))
    out = []
    for lo, text in ch:
        t0 = time.time()
        try:
            r = big_frame()(lambda: compare(text))
        except Exception as e:  # harness problem, never a violation
            r = {"outcome": "skip:harness-" + type(e).__name__}
        r.update(file=path, line=lo, lines=text.count("\n"), secs=round(time.time() - t0, 3), label=label)
        if r.get("keys"):
            r["min"] = text
            try:
                r["min"], r["keys"] = big_frame()(lambda: minimise_result(text, r))
            except Exception:
                pass
        if r["outcome"] == "same" and r.get("nodes", 0) <= 400:
            r["text"] = text          # candidates for the Lean correspondence run
        out.append(r)
    return out


def work_snippets(task):
    """task = list of (name, text) -> list of results (the fixed construct corpus and the embedded fragments)"""
    out = []
    for name, text in task:
        t0 = time.time()
        try:
            r = big_frame()(lambda: compare(text))
        except Exception as e:
            r = {"outcome": "skip:harness-" + type(e).__name__}
        r.update(file="<corpus:" + name + ">", line=1, lines=text.count("\n"), secs=round(time.time() - t0, 3), label="constructs")
        if r.get("keys"):
            r["min"] = text
        if r["outcome"] == "same":
            r["text"] = text
        out.append(r)
    return out


# --------------------------------------------------------------------------- fixed construct corpus
# one entry per construct family named by the property (and per past finding: these run first, on every seed)
CONSTRUCTS = {
    "fstring-conversion": 'x = f"{a!r} {b!s:>10} {c!a}"\n',
    "fstring-nested-spec": 'x = f"{value:{width}.{prec}f} and {d[\'k\']}"\n',
    "fstring-escape": 'x = f"line\\n{a}\\ttab"\n',
    "fstring-debug": 'x = f"{a=} {b = }"\n',
    "fstring-debug-spec": 'x = f"{a=:>5}"\n',
    "fstring-braces": 'x = f"{{{a}}} {{}} {b}}}"\n',
    "fstring-debug-conv": 'x = f"z{c=!s}{d=:}{ e = !r:>{w}}"\n',
    "fstring-escape-spec": 'x = f"{a:\\n}\\x41\\N{EM DASH}\\\\{b}" rf"\\n{c}"\n',
    "fstring-braces-only": 'x = f"{{" f"}}" f"{{x}} {a}" f"{ {1, 2} }"\n',
    "fstring-raw": 'x = rf"\\d{a}\\n" f\'\' F"""multi\n{line}\n"""\n',
    "fstring-concat": 'x = "a" f"{b}" "c" f"d{e}"\n',
    "bytes-concat": 'x = b"a" b"b"\ny = "a" \'b\' """c"""\n',
    "decorators": "@a.b(c)\n@d\ndef f(x: int = 1, /, y=2, *args, z, **kw) -> int:\n    return x\n",
    "class-decorated": "@dec\nclass C(Base, metaclass=M):\n    def m(self):\n        return super().m()\n",
    "class-plain": "class C:\n    a = 1\n    def f(self): pass\n",
    "class-annotated": "class C:\n    x: int\n",
    "class-annassign": "class C:\n    x: int = 3\n",
    "class-subscript-stmt": "class C(B):\n    table = dict(B.table)\n    table['k'] = 1\n",
    "class-subscript-augassign": "class C(B):\n    t[0] += 1\n    t[0].append(3)\n    u[0], v = 1, 2\n",
    "match": "match p:\n    case [1, 2, *rest] if rest:\n        pass\n    case {'k': v, **kw}:\n        pass\n    case Point(x=0) | None:\n        pass\n    case _:\n        pass\n",
    "walrus": "if (n := len(a)) > 10:\n    print(n)\nx = [y := f(x), y ** 2]\n",
    "star-targets": "a, *b = c\n[d, *e], f = g\nfor i, *j in k:\n    pass\n",
    "empty-list-target": "[] = x\n",
    "empty-tuple-target": "() = x\n[[], ()] = y\n",
    "empty-del-for-with-targets": "del [], ()\nfor [] in x: pass\nwith a as (): pass\n",
    "star-call": "f(*a, b, *c, d=1, **e)\nprint(*args, sep='')\n",
    "lifted-calls": "x = str(1) + str(int(float('2')))\ny = int\n",
    "tracked-names": "x = ego.foo\ny = workspace\nz = globalParameters.foo\nw = [ego, f(workspace)]\n",
    "lambda": "f = lambda x, *a, y=1, **k: (x, a, y, k)\n",
    "comprehensions": "a = [x for x in y if x for z in x]\nb = {k: v for k, v in d.items()}\nc = {x async for x in y}\nd = (i for i in range(3))\n",
    "conditional": "x = a if b else c\n",
    "conditional-chained": "x = 0 if a else 1 if b else 2\n",
    "conditional-lambda-else": "x = a if b else lambda: 1\ny = [p if q else r if s else t for i in j if k]\n",
    "async": "async def f():\n    async with a as b, c:\n        async for x in y:\n            await z\n",
    "try": "try:\n    pass\nexcept (A, B) as e:\n    raise X from e\nelse:\n    pass\nfinally:\n    pass\n",
    "try-star": "try:\n    pass\nexcept* G as g:\n    pass\n",
    "with": "with open(a) as f, (b):\n    pass\nwith (open(a) as f, open(b) as g):\n    pass\n",
    # PEG ordered choice: forms whose prefixes overlap (an alternative moved in front of another changes the tree)
    "with-paren-no-as": "with (a, b):\n    pass\nwith (a, b,):\n    pass\nwith (\n    open(p),\n    open(q),\n):\n    pass\n",
    "with-paren-forms": "with (a, b) as c:\n    pass\nwith (a), (b):\n    pass\nwith (a, b), c:\n    pass\nwith (a):\n    pass\nwith (yield):\n    pass\n",
    "with-async-paren": "async def f():\n    async with (a, b):\n        pass\n    async with (a, b,):\n        pass\n    async with (a as x, b):\n        pass\n",
    "group-tuple-genexp": "x = (a)\ny = (a,)\nz = (a for a in b)\nf(a for a in b)\nw = ()\nv = (*a, b)\nu = (yield)\nt = (a := 1)\n",
    "dict-set": "a = {}\nb = {x}\nc = {x: y}\nd = {**x}\ne = {*x}\nf = {x: y, **z}\ng = {x for x in y}\nh = {x: y for x in z}\n",
    "targets-paren": "del (a, b)\ndel (a)\ndel [a, b]\nfor (a, b) in c:\n    pass\nfor a, in c:\n    pass\n(a) = 1\n(a, b) = c\n*a, = b\n(a.b) = (c[d]) = e\n",
    "return-forms": "def f():\n    return\n    return a, b\n    return (a, b)\n    return *a, b\n    raise\n    raise E\n",
    "not-in-is-not": "x = a not in b\ny = not a in b\nz = a is not b\nw = a is (not b)\nv = - -a ** -b\nu = ~a\nt = await_\n",
    "subscript-forms": "a[b]\na[b,]\na[b:c]\na[b:c, d]\na[:]\na[::]\na[b, c:d:e]\na[(b, c)]\na[b := 1]\n",
    "soft-keyword-python": "match = 1\nmatch(x)\nmatch[x]\ncase = 2\n_ = 3\nprint(match, case, _)\nmatch x:\n    case case: pass\n",
    "primary-chain": "a.b(c)[d].e(f)(g)[h:i].j\nx = a.b.c\na(b)(c)\n",
    "lambda-forms": "a = lambda: 0\nb = lambda x: x\nc = lambda *a: a\nd = lambda x, /, y: x\ne = lambda *, k: k\nf = lambda x=1, *a, **k: x\ng = lambda **k: k\n",
    "def-params": "def f(a, /, b, *, c): pass\ndef g(*, c=1): pass\ndef h(a=1, /): pass\ndef i(*a: int, **k: str) -> None: pass\ndef j(a, b=2, /, c=3, *d, e, f=6, **g): pass\n",
    "except-forms": "try:\n    pass\nexcept:\n    pass\ntry:\n    pass\nexcept A:\n    pass\nexcept (B, C):\n    pass\nexcept D as d:\n    pass\ntry:\n    pass\nfinally:\n    pass\n",
    "assign-forms": "a = b = c\na += 1\na: int\na: int = 1\n(a): int = 1\na.b: int\na[0]: int = 2\na, b = b, a\na = yield_\na = *b, c\n",
    # locations: calls and literals spread over several lines (the line of an inner node differs from its parent's)
    "star-call-multiline": "x = [\n    1,\n    f(*a,\n      *b),\n    g(2,\n      *c),\n]\ny = h(1,\n      k(*d))\nz = {\n  'k': m(*\n    e),\n}\n",
    "star-call-nested-lines": "def f():\n    return [\n        1,\n        g(\n            *a,\n            b,\n            *c\n        ),\n    ]\n",
    "lifted-multiline": "x = (\n  str(\n    a),\n  int(\n    *b),\n  float(c,\n    d))\ny = [\n  ego,\n  workspace.z,\n  globalParameters,\n]\n",
    "class-multiline": "@d\nclass C(\n):\n    a = 1\n\n    def f(self):\n        pass\nclass D(metaclass=M):\n    pass\nclass E(B, k=1): pass\nclass F():\n    class G: pass\n",
    "string-concat-multiline": "x = ('a'\n     'b'\n     f'{c}')\ny = (f'{a}'\n     'b'\n     'c')\nz = ('a'\n     'b')\nw = (b'a'\n     b'b')\n",
    "multiline-nodes": "x = a.b(\n  c\n).d[\n  e\n]\ny = (a\n  + b\n  * c)\nz = (a if\n  b else\n  c)\nw = [i\n  for i in j\n  if k]\nv = not (\n  a)\nu = a < (\n b) < c\n",
    "multiline-statements": "if (a and\n    b):\n    pass\nelif c:\n    pass\nelse:\n    pass\nwhile (a\n  ):\n    break\nfor i in (\n  j):\n    continue\ndef f(a,\n      b=(1,\n         2)):\n    pass\n",
    "global-nonlocal": "def f():\n    global a, b\n    def g():\n        nonlocal c\n",
    "comparison": "x = a < b <= c != d is not e not in f\n",
    "slices": "x = a[1:2, ::3, ...]\ny = a[b][c:d]\nz = a[*b]\n",
    "numbers": "x = 0x1F + 0b1 + 0o7 + 1_000 + 1e3 + 1.5j + .5\n",
    "operators": "x = -a ** b // c % d << e >> f & g ^ h | i\nx @= y\nx = not a and b or c\n",
    "matmul": "x = a @ b\n",
    "del-assert": "del a, b[0], c.d\nassert x, 'msg'\n",
    "import": "import a.b as c, d\nfrom . import e\nfrom ..f import (g as h, i)\nfrom j import *\n",
    "type-alias": "type X[T] = list[T]\ndef f[T: int, *Ts, **P](x: T) -> T: ...\nclass A[T]: pass\n",
    "annotations": "x: int = 1\ny: 'str'\n(z): int\na.b: int\n",
    "yield": "def g():\n    x = yield\n    y = yield from z\n    yield a, b\n",
    "multiline": "x = (1 +\n     2 +\n     3)\ny = [\n  a,\n  b,\n]\n",
    "semicolons": "a = 1; b = 2; c = 3\n",
    "docstring": '"""module doc"""\ndef f():\n    """doc"""\n',
    "unicode-identifier": "ǅ = 1\n",
    "unicode-identifier-uses": "def ﬁ(ﬁ, *ﬁ2, **ﬁ3):\n    global ªx\n    return ﬁ.ﬁ(ﬁ=ﬁ)\n",
    "soft-keyword-take": "take(2, a)\n",
    "soft-keyword-visible": "x = visible[header]\n",
    "soft-keyword-names": "left = right = 1\nposition.top = front\nmodel = initial.final\nnext(steps)\ntype(x)\n",
}

# Python fragments embedded in behaviors, requirements and specifiers: the fragment must compile as it does alone
FRAGMENT_EXPRS = [
    "a + b * 2", "f(x, y=1)", "[i for i in range(3) if i]", "a if b else c", "x.y[z](w)", "lambda q: q + 1",
    "{1: 2, **d}", "not (a and b) or c", "f'{a!r:>{w}}'", "(a, b, *c)", "a < b < c", "-x ** 2", "str(a) + 'b'",
    "g(*args, **kw)", "(n := 10)", "a[1:2]", "await_ + yield_", "b'x' b'y'", "1_000.5e3", "x @ y",
]


def find_node(t, pred):
    """first node (pre-order) of the canonical tree satisfying pred"""
    if isinstance(t, str):
        return None
    if t[0] == "L":
        for x in t[1]:
            r = find_node(x, pred)
            if r is not None:
                return r
        return None
    if pred(t):
        return t
    for x in t[3]:
        r = find_node(x, pred)
        if r is not None:
            return r
    return None


def name_is(t, nm):
    return pytree.is_node(t, "Name") and ident(t[3][0]) == nm


def compare_fragment(kind, expr):
    """The Python expression `expr` embedded in a behavior body / a requirement / a specifier must compile to what it
    compiles to on its own (documented rewrites applied; inside a behavior star arguments are not wrapped)."""
    if kind == "behavior":
        src, pad = f"behavior B():\n    ({expr})\n    wait\n", "\n"
    elif kind == "require":
        src, pad = f"require ({expr})\n", ""
    else:
        src, pad = f"ego = new Object with foo ({expr})\n", ""
    evals, gvals = {}, {}
    try:
        ref = ast.parse(pad + f"({expr})\n")
    except SyntaxError:
        return {"outcome": "skip:not-python"}
    cref = canon(ref, evals)
    reserved = name_tokens(expr) & reserved_words()
    if reserved:
        return {"outcome": "excluded:reserved-word-as-identifier", "words": sorted(reserved)}
    if kind == "require" and isinstance(ref.body[0].value, (ast.BoolOp, ast.IfExp)) or (
            kind == "require" and isinstance(ref.body[0].value, ast.UnaryOp) and isinstance(ref.body[0].value.op, ast.Not)):
        return {"outcome": "skip:temporal-operators"}   # and/or/not/if at the top of a requirement are Scenic's temporal operators
    cfg = dict(_cfg)
    if kind == "behavior":
        cfg.update(inBehavior=True, behaviorLocals=pytree.bound_names(cref, set()))
    try:
        expect = mirror_compile(cfg, cref)[3][0][1][0][3][0]      # Module.body[0].value
    except Rejected as e:
        return {"outcome": "excluded:reserved-name-bound", "why": str(e)}
    try:
        got = canon(scenic_compile(src), gvals)
    except _real["ParseError"] as e:
        return {"outcome": "SCENIC-REJECTS", "msg": str(e)[:200], "keys": [f"fragment-{kind}:" + reject_key(src, ref, str(e))]}
    except Exception as e:
        return {"outcome": "SCENIC-CRASH", "msg": f"{type(e).__name__}: {str(e)[:200]}", "keys": [f"fragment-{kind}:crash:{type(e).__name__}"]}
    if kind == "behavior":
        fn = find_node(got, lambda n: n[1] == "FunctionDef" and ident(n[3][0]) == "makeGenerator")
        sub = fn[3][2][1][0][3][0] if fn is not None and fn[3][2][1] and pytree.is_node(fn[3][2][1][0], "Expr") else None
    elif kind == "require":
        lam = find_node(got, lambda n: n[1] == "Lambda")
        sub = lam[3][1] if lam is not None else None
    else:
        call = find_node(got, lambda n: n[1] == "Call" and name_is(n[3][0], "With"))
        sub = call[3][1][1][1] if call is not None and len(call[3][1][1]) == 2 else None
    if sub is None:
        return {"outcome": "DIFF", "keys": [f"fragment-{kind}:not-found"]}
    if sub == expect:
        return {"outcome": "same"}
    ms = []
    tree_diff(sub, expect, "Fragment", "value", ms)
    keys = []
    for m in ms:
        k = mismatch_key(m, gvals, evals)
        if k.startswith("diff:") or k.startswith("lineno:"):
            k = f"fragment-{kind}:" + k
        if k not in keys:
            keys.append(k)
    return {"outcome": "DIFF", "keys": keys, "diffs": [{"at": m["at"], "scenic": brief(m["got"], gvals),
                                                         "cpython+rewrites": brief(m["exp"], evals)} for m in ms]}


def work_fragments(task):
    out = []
    for kind, expr in task:
        try:
            r = big_frame()(lambda: compare_fragment(kind, expr))
        except Exception as e:
            r = {"outcome": "skip:harness-" + type(e).__name__, "msg": str(e)[:200]}
        r.update(file=f"<fragment:{kind}>", line=1, lines=1, label="fragments", min=expr, fragment=[kind, expr])
        out.append(r)
    return out


# --------------------------------------------------------------------------- the check
THEOREMS = [
    "Scenic.C09.front_insertion_conservative",
    "Scenic.C09.front_insertion_conservative_expr",
    "Scenic.C09.erased_result_is_full_result",
    "Scenic.C09.guarded_alternative_fails",
    "Scenic.C09.scenic_grammar_conservative",
    "Scenic.C09.scenic_rules_fail",
    "Scenic.C09.compile_identity_off_triggers",
    "Scenic.C09.rw_keeps_location",
    "Scenic.C09.compile_keeps_root_location",
    "Scenic.C09.compile_invents_no_line",
    "Scenic.C09.compile_leaves_no_gap",
    "Scenic.C09.scenic_compile_identity_off_triggers",
    "Scenic.C09.scenic_compile_invents_no_line",
    "Scenic.C09.plain_python_partial",
]
SIDE = [
    "Scenic.C09.gen_F_ok", "Scenic.C09.gen_S_ok", "Scenic.C09.gen_residue", "Scenic.C09.gen_residue_named",
    "Scenic.C09.gen_residue_allowed", "Scenic.C09.gen_scenic_hard", "Scenic.C09.gen_cfg_ok",
    "Scenic.C09.gen_cfg_documented",
]

FINGERPRINTS = {
    "scenic.gram": ("src/scenic/syntax/scenic.gram", None),
    "compileScenicAST": ("src/scenic/syntax/compiler.py", "compileScenicAST"),
    "visit_Name": ("src/scenic/syntax/compiler.py", "ScenicToPythonTransformer.visit_Name"),
    "visit_Call": ("src/scenic/syntax/compiler.py", "ScenicToPythonTransformer.visit_Call"),
    "visit_ClassDef": ("src/scenic/syntax/compiler.py", "ScenicToPythonTransformer.visit_ClassDef"),
    "generic_visit": ("src/scenic/syntax/compiler.py", "ScenicToPythonTransformer.generic_visit"),
    "visit": ("src/scenic/syntax/compiler.py", "ScenicToPythonTransformer.visit"),
    "Transformer": ("src/scenic/syntax/compiler.py", "Transformer"),
    "PropertyDef": ("src/scenic/syntax/ast.py", "PropertyDef"),
    "AST": ("src/scenic/syntax/ast.py", "AST"),
}

WHAT = {
    "same": "identical trees",
}


def describe(r):
    k = r.get("keys", ["?"])
    loc = f"{r.get('file')}:{r.get('line')}"
    src = (r.get("min") or "").strip().split("\n")
    head = src[0][:120] + (" ..." if len(src) > 1 else "")
    if r["outcome"] == "DIFF":
        return f"tree differs from CPython's after the documented rewrites [{', '.join(k)}] at {loc}: {head}"
    if r["outcome"] == "SCENIC-REJECTS":
        return f"valid Python refused ({r.get('msg', '')[:80]}) [{', '.join(k)}] at {loc}: {head}"
    if r["outcome"] == "SCENIC-ACCEPTS":
        return f"accepted with another meaning [{', '.join(k)}] at {loc}: {head}"
    return f"{r['outcome']} {r.get('msg', '')[:100]} [{', '.join(k)}] at {loc}: {head}"


def select_tasks(ctx, files):
    """seeded choice of files and of top-level statements per file"""
    rng = ctx.rng
    per_file = ctx.budget(8, 60)
    max_lines = ctx.budget(80, 1500)
    by_label = collections.defaultdict(list)
    for lab, p, sz in files:
        if sz <= ctx.budget(60_000, 2_000_000):
            by_label[lab].append((lab, p, sz))
    tasks = []
    for lab in sorted(by_label):
        fl = by_label[lab]
        rng.shuffle(fl)
        tasks += [(lab, p, per_file, max_lines, ctx.seed) for lab, p, sz in fl]
    # interleave stdlib and site-packages so that a time-boxed run sees both
    rng.shuffle(tasks)
    return tasks


def report(ctx, r, found):
    """turn one non-identical result into a violation (or a known finding)"""
    if not r.get("keys"):
        return found
    rep = {"kind": "fragment", "fragment": r["fragment"]} if r.get("fragment") else \
        {"kind": "source", "source": r.get("min") or "", "file": r.get("file"), "line": r.get("line")}
    for key in r["keys"]:
        rep2 = dict(rep, key=key, outcome=r["outcome"])
        if ctx.violation(key, describe(r), rep2):
            found = True
    return found


def corr_rewrites(ctx, texts):
    """(C) Lean `compile Gen.cfg` vs the Python mirror on CPython's trees"""
    lines, exp, srcs = [], [], []
    for text in texts:
        try:
            t = canon(ast.parse(text))
        except Exception:
            continue
        toks = tokens(t)
        if any(x.startswith("h:") for x in toks):
            continue   # non-ASCII identifiers are opaque atoms for the model; nothing to compare
        lines.append("C09 rw " + " ".join(toks))
        try:
            exp.append(" ".join(tokens(mirror_compile(_cfg_gen or _cfg, t))))
        except Rejected:
            exp.append("reject")
        srcs.append(text)
    if not lines:
        return 0
    out = ctx.driver(lines)
    bad = 0
    for a, b, text in zip(out, exp, srcs):
        ctx.case(("rw", text), nontrivial=(a != "reject" and "s:_scenic_properties" in a or "callWithStarArgs" in a
                                          or "_to" in a or a == "reject"))
        ctx.hist("lean_rewrite", "reject" if b == "reject" else ("rewritten" if a != " ".join(tokens(canon(ast.parse(text)))) else "identity"))
        if a != b:
            bad += 1
            if bad <= 3:
                ctx.broken("correspondence", "Lean compile vs Python mirror of the rewrites",
                           f"source {text[:200]!r}: lean={a[:160]} mirror={b[:160]}")
    return len(lines)


PEG_SNIPPETS = ["pass\n", "x = 1\n", "import os\n", "del x\n", "a = b\n", "break\n", "global g\n"]


def corr_peg(ctx, gd):
    """(C, small) the Lean PEG machine on the generated grammar accepts real token streams, identically with and
    without the guarded alternatives (an instance of the theorem, and a smoke test of the transcription)"""
    lit_id = {s: i for i, s in enumerate(gd["lits"])}
    nolit = len(gd["lits"]) + 1000
    lines, meta = [], []
    for src in PEG_SNIPPETS:
        toks = []
        for t in tokenize.generate_tokens(io.StringIO(src).readline):
            if t.type in (tokenize.NL, tokenize.COMMENT):
                continue
            toks.append(f"{t.type}:{lit_id.get(t.string, nolit)}")
        for erased in ("0", "1"):
            lines.append(f"C09 peg 0 {erased} 600 " + " ".join(toks))
            meta.append((src, erased, len(toks)))
    out = ctx.driver(lines, timeout=600)
    for i in range(0, len(out), 2):
        src, _, n = meta[i]
        full, er = out[i], out[i + 1]
        ctx.case(("peg", src))
        ok = full.startswith(f"ok {n} ")
        ctx.hist("peg_model", "accepted-whole-stream" if ok else full.split(" ")[0])
        if full != er:
            ctx.broken("correspondence", "PEG machine: grammar vs erased grammar on a stream without Scenic words",
                       f"{src!r}: full={full[:100]} erased={er[:100]}")
        elif not ok:
            ctx.broken("correspondence", "PEG machine on the generated grammar vs the real parser (which accepts)",
                       f"{src!r}: model says {full[:100]}")


def run(ctx):
    ctx.rule = ("cases = (a) top-level statements of standard-library / site-packages files (seeded choice of files and of "
                "statements per file, each parsed alone by CPython and by Scenic's parser regenerated from the current "
                "scenic.gram, trees compared after the documented rewrites, lineno/end_lineno included), (b) a fixed corpus "
                "of one snippet per construct family, (c) Python expressions embedded in a behavior, a requirement and a "
                "specifier, (d) CPython trees sent through the Lean compile model; non-trivial = the statement has at least "
                "3 syntax nodes (a) / the model rewrote or rejected the tree (d); distinct by content hash")
    ctx.assumptions += [
        "CPython's own parser (ast.parse) is the reference for 'what CPython would parse'",
        "the erased grammar pythonCore and the rule actions agree with CPython only as far as the corpus shows",
        "token streams that use a Scenic soft keyword as an identifier are outside the hypothesis of the conservativity theorem",
        "the plain memo table of pegen is transparent for the PEG machine (not modelled)",
    ]
    ctx.trusted_base += [
        "tools/translate/gram2lean.py (transcription of scenic.gram through pegen's grammar parser), tools/translate/rewrites.py",
        "tools/translate/pytree.py (canonical trees + Python mirror of the Lean rewrites, cross-checked against the Lean driver each run)",
        "tools/props/c09.py (differential harness), pegen 0.3.0 (generates the parser under test from the current grammar)",
    ]
    ctx.fingerprint(FINGERPRINTS)
    from translate import gram2lean, rewrites
    t0 = time.time()
    # ---- (T) regenerate the data
    gd = None
    try:
        gd = gram2lean.extract()
        ctx.gen("Grammar", gram2lean.to_lean(gd))
    except TemplateMismatch as e:
        ctx.gen_restore("Grammar")
        ctx.escalated.append(f"translator tie lost (grammar): {e}")
        ctx.notes.append(f"scenic.gram could not be transcribed: {e}")
    cfg = None
    try:
        cfg = rewrites.extract()
        ctx.gen("RewriteData", rewrites.to_lean(cfg))
    except TemplateMismatch as e:
        ctx.gen("RewriteData", rewrites.to_lean(rewrites.DEFAULT))    # never a stale file from an earlier run
        ctx.escalated.append(f"translator tie lost (rewrites): {e}")
        ctx.notes.append(f"compiler.py rewrites could not be extracted ({e}); the Lean model runs on the documented defaults")
    ctx.extra["timing"] = {"translate_s": round(time.time() - t0, 1)}
    t0 = time.time()
    pr = ctx.prove(THEOREMS, side_conditions=SIDE)
    ctx.extra["timing"]["prove_s"] = round(time.time() - t0, 1)
    if ctx.tier == "thorough" and pr.build_ok:
        ctx.leanchecker(["ScenicModel.Props.C09", "ScenicModel.Props.C09Peg", "ScenicModel.Props.C09Rewrites"])
    # ---- the real code, with the parser generated from the current grammar
    parser_path, log = build_parser(ctx.tmp)
    found = False
    if parser_path is None:
        ctx.broken("translator", "pegen cannot generate a parser from scenic.gram", log[-600:])
        ctx.resolve_brokens(False)
        return
    # the oracle expects the DOCUMENTED constants (accessor names, lifted targets, wrapper names, default base, property
    # table), never the ones extracted from the code under test: a consistent change of a constant in compiler.py must
    # show up as a deviation.  The extracted data feed the Lean model (and its mirror in the correspondence run) only.
    cfg_used = dict(rewrites.DEFAULT)
    _cfg_gen.clear()
    _cfg_gen.update(cfg or rewrites.DEFAULT)
    words = {"scenic_hard": (gd or {}).get("scenic_hard") or ["at", "by", "do", "new", "of", "on", "require", "to", "until"],
             "scenic_soft": (gd or {}).get("scenic_soft") or []}
    _init_worker(parser_path, cfg_used, words)
    if not words["scenic_soft"]:
        P = _real["P"].ScenicParser
        words["scenic_soft"] = sorted(set(P.SOFT_KEYWORDS) - set(keyword.softkwlist) - set(keyword.kwlist))
        words["scenic_hard"] = sorted(set(P.KEYWORDS) - set(keyword.kwlist))
        _init_worker(parser_path, cfg_used, words)
    big_frame()
    # ---- (S) direct oracle + (C) inputs
    files = corpus_files()
    ctx.extra["corpus"] = {"files_available": len(files)}
    tasks = select_tasks(ctx, files)
    budget_s = float(os.environ.get("VERIF_C09_TIMEBOX") or ctx.budget(75, 900))   # seconds for the corpus files
    nproc = max(1, int(os.environ.get("VERIF_C09_WORKERS") or min(16, os.cpu_count() or 4)))
    outcomes = collections.Counter()
    lean_texts = []
    t0 = time.time()
    results = []
    snippets = list(CONSTRUCTS.items())
    frags = [(k, e) for k in ("behavior", "require", "specifier") for e in FRAGMENT_EXPRS]
    with multiprocessing.Pool(nproc, initializer=_init_worker, initargs=(parser_path, cfg_used, words)) as pool:
        first = [pool.apply_async(work_snippets, (snippets[i::4],)) for i in range(4)]
        first += [pool.apply_async(work_fragments, (frags[i::4],)) for i in range(4)]
        it = pool.imap_unordered(work_file, tasks, chunksize=1)
        for a in first:
            results += a.get(timeout=1200)
        ctx.extra["timing"]["pool_start_and_fixed_corpus_s"] = round(time.time() - t0, 1)
        t0 = time.time()           # the time box covers the corpus files only
        files_done = 0
        while True:
            left = budget_s - (time.time() - t0)
            if left <= 0:
                break
            try:
                res = it.next(timeout=left)
            except multiprocessing.TimeoutError:
                break
            except StopIteration:
                break
            results += res
            files_done += 1
        pool.terminate()
    ctx.extra["corpus"].update(files_compared=files_done, files_selected=len(tasks), seconds=round(time.time() - t0, 1),
                               workers=nproc)
    lines_total = 0
    for r in results:
        oc = r["outcome"]
        outcomes[oc] += 1
        ctx.hist("outcome", oc)
        ctx.hist("source", r.get("label", "?"))
        if "lines" in r:
            lines_total += r["lines"]
            ctx.hist("statement_lines", "1" if r["lines"] <= 1 else "2-5" if r["lines"] <= 5 else "6-20" if r["lines"] <= 20 else "21-80" if r["lines"] <= 80 else ">80")
        for w in r.get("words", []):
            ctx.hist("excluded_for_reserved_word", w)
        if oc.startswith("skip"):
            continue
        ctx.case((r.get("file"), r.get("line"), r.get("min") or r.get("text") or r.get("secs")),
                 nontrivial=r.get("nodes", 3) >= 3, sample=False)
        for k in r.get("keys", []):
            ctx.hist("deviation", k)
        found = report(ctx, r, found)
        if r.get("text") and len(lean_texts) < ctx.budget(1500, 20000):
            lean_texts.append(r["text"])
    ctx.extra["corpus"]["source_lines_compared"] = lines_total
    ctx.extra["outcomes"] = dict(outcomes)
    if outcomes.get("same", 0) < 50:
        raise Infra(f"only {outcomes.get('same', 0)} statements compared in {budget_s}s: machine too slow for a meaningful run")
    # ---- (C) the Lean models against the mirror / the real parser
    if pr.build_ok:
        t0 = time.time()
        extra = [t for _, t in snippets]
        n = corr_rewrites(ctx, extra + lean_texts)
        ctx.extra["timing"]["lean_rewrite_trees"] = n
        if gd is not None:
            corr_peg(ctx, gd)
        ctx.extra["timing"]["lean_corr_s"] = round(time.time() - t0, 1)
    ctx.resolve_brokens(found)


def replay(ctx, path):
    body = json.load(open(path))
    rep = body.get("replay", body)
    if "broken" in rep:
        print(json.dumps(rep, indent=1)[:4000])
        return 0
    from translate import rewrites
    parser_path, log = build_parser(ctx.tmp)
    if parser_path is None:
        print("pegen cannot generate the parser:", log[-500:])
        return 1
    cfg = dict(rewrites.DEFAULT)
    _init_worker(parser_path, cfg, {"scenic_hard": [], "scenic_soft": []})
    P = _real["P"].ScenicParser
    _init_worker(parser_path, cfg, {"scenic_hard": sorted(set(P.KEYWORDS) - set(keyword.kwlist)),
                                    "scenic_soft": sorted(set(P.SOFT_KEYWORDS) - set(keyword.softkwlist) - set(keyword.kwlist))})
    if rep.get("kind") == "fragment":
        kind, expr = rep["fragment"]
        r = compare_fragment(kind, expr)
        print(f"fragment ({kind}): {expr}")
    else:
        print(rep.get("source", ""))
        r = compare(rep.get("source", ""), detail=True)
    print("outcome:", r["outcome"], r.get("msg", ""), r.get("why", ""))
    print("keys:", r.get("keys"))
    for d in r.get("diffs", []):
        print("  ", json.dumps(d))
    return 1 if r.get("keys") else 0
