"""C19 — do choose / do shuffle and run-time random values follow the stated probabilities.

Proof:  lean/ScenicModel/Props/C19.lean — choose_prob, choose_exactly_one, choose_deadlock_rejects,
        choose_single_ignores_weight (recorded corner), choose_tuple_uniform, shuffle_each_once,
        shuffle_order_prob (product formula conditioning on the enabled set at the step of each pick),
        shuffle_deadlock_rejects, exec_total_mass, runtime_draws_chain / runtime_draws_indep, stated marginals,
        choices_interval; all for every item list / weights / precondition tables / running times / start step.
Tie:    (T) tools/translate/choose.py matches the anchored functions statement by statement and regenerates the
        constants of the model (Gen/Choose.lean); side condition `gen_config_wf` re-decided by the kernel.
        (C) generated programs (behavior / compose / monitor bodies with waits, run-time draws, do choose,
        do shuffle over <= 4 items with dyadic weights, step-dependent preconditions and running times) are run
        on the real interpreter under an RNG-branch enumerator (every outcome of random.choices / randint with its
        exact probability) and the exact PMF over (action log, end step | rejection | error) is compared with the
        PMF computed by the Lean driver from the same program.
        (S) the same exact PMF is compared with the property statement itself evaluated in plain Python
        (three-valued: programs whose stated probability is 0/0 or that use negative weights are 'undecided').
"""
import bisect
import builtins
import itertools
import json
import math
import os
import random
import sys
from fractions import Fraction

from vlib.ctx import Infra, TemplateMismatch

THEOREMS = [
    "Scenic.C19.choose_prob",
    "Scenic.C19.choose_prob_gen",
    "Scenic.C19.choose_exactly_one",
    "Scenic.C19.choose_deadlock_rejects",
    "Scenic.C19.choose_single_ignores_weight",
    "Scenic.C19.choose_tuple_uniform",
    "Scenic.C19.shuffle_each_once",
    "Scenic.C19.shuffle_order_prob",
    "Scenic.C19.shuffle_order_prob_gen",
    "Scenic.C19.shuffle_deadlock_rejects",
    "Scenic.C19.shuffle_reject_only_deadlock",
    "Scenic.C19.exec_total_mass",
    "Scenic.C19.shuffle_total_mass",
    "Scenic.C19.runtime_draws_chain",
    "Scenic.C19.runtime_draws_indep",
    "Scenic.C19.runtime_range_uniform",
    "Scenic.C19.runtime_options_weighted",
    "Scenic.C19.choices_interval",
    "Scenic.C19.named_operand_is_literal",
    "Scenic.C19.named_operand_is_literal_gen",
    "Scenic.C19.shuffleVar_consumes",
    "Scenic.C19.operand_copy_is_needed",
    "Scenic.C19.generator_unfolding",
    "Scenic.C19.generator_refines_bigstep",
    "Scenic.C19.runSteps_refines_bigstep",
    "Scenic.C19.lockstep_independent",
    "Scenic.C19.sequence_independent",
    # round 4: Options -> DiscreteRange -> random.choices -> Multiplexer as a function of the raw uniform value
    "Scenic.C19.selectIndex_wf",
    "Scenic.C19.select_interval",
    "Scenic.C19.select_interval_length",
    "Scenic.C19.select_partition",
    "Scenic.C19.optionsSelect_of_interval",
    "Scenic.C19.optionsSelect_lands",
    "Scenic.C19.weightedPick_entry",
    "Scenic.C19.options_raw_uniform_refines",
    "Scenic.C19.options_raw_uniform_refines_gen",
    "Scenic.C19.optionsSelect_negative_agrees",
]
SIDE = ["Scenic.C19.gen_config_wf", "Scenic.C19.gen_copies_operand", "Scenic.C19.gen_select_wf"]

FINGERPRINTS = {
    "_invokeSubBehavior": ("src/scenic/core/dynamics/invocables.py", "Invocable._invokeSubBehavior"),
    "_runSubBehavior": ("src/scenic/core/dynamics/invocables.py", "Invocable._runSubBehavior"),
    "_isEnabledForAgent": ("src/scenic/core/dynamics/invocables.py", "Invocable._isEnabledForAgent"),
    "_checkAllPreconditions": ("src/scenic/core/dynamics/invocables.py", "Invocable._checkAllPreconditions"),
    "Behavior._invokeInner": ("src/scenic/core/dynamics/behaviors.py", "Behavior._invokeInner"),
    "Behavior._start": ("src/scenic/core/dynamics/behaviors.py", "Behavior._start"),
    "DynamicScenario._invokeInner": ("src/scenic/core/dynamics/scenarios.py", "DynamicScenario._invokeInner"),
    "Distribution.__new__": ("src/scenic/core/distributions.py", "Distribution.__new__"),
    "Samplable.sample": ("src/scenic/core/distributions.py", "Samplable.sample"),
    "MultiplexerDistribution": ("src/scenic/core/distributions.py", "MultiplexerDistribution"),
    "DiscreteRange": ("src/scenic/core/distributions.py", "DiscreteRange"),
    "Options": ("src/scenic/core/distributions.py", "Options"),
    "Uniform": ("src/scenic/core/distributions.py", "Uniform"),
    "visit_DoChoose": ("src/scenic/syntax/compiler.py", "visit_DoChoose"),
    "visit_DoShuffle": ("src/scenic/syntax/compiler.py", "visit_DoShuffle"),
    "makeDoLike": ("src/scenic/syntax/compiler.py", "makeDoLike"),
    "generateInvocation": ("src/scenic/syntax/compiler.py", "generateInvocation"),
}

MAX_PATHS = 700
MAX_STEPS = 80
# a program the enumerator cannot follow to the end is *skipped*; skips are counted and reported, and more than this
# share of skipped programs breaks the correspondence (a skipped program must not be able to hide a defect)
MAX_SKIP_SHARE = 0.05
STATS = {"nonmonotone_choices": 0}


# --------------------------------------------------------------------------- RNG-branch enumerator
class TooManyPaths(Exception):
    """more RNG branches than the limit; `.partial` = the (result, probability) pairs enumerated so far"""
    partial = ()


class Unsupported(Exception):
    """the program used a random primitive outside the finite-discrete fragment"""


class RngEnum:
    """Depth-first enumeration of every outcome of the random primitives, with exact probabilities.

    `random` is idealised: randint uniform, choices proportional to the (differences of the cumulative) weights."""

    def __init__(self):
        self.script, self.fan, self.pos, self.prob = [], [], 0, Fraction(1)
        self.calls = 0
        self.nonmonotone = 0  # calls of choices with cumulative weights that are not ascending

    def choose(self, options):
        self.calls += 1
        if not options:
            raise Unsupported("empty choice")
        if self.pos < len(self.script):
            i = self.script[self.pos]
            self.fan[self.pos] = len(options)
        else:
            i = 0
            self.script.append(0)
            self.fan.append(len(options))
        self.pos += 1
        v, p = options[i]
        self.prob *= p
        return v

    # patched primitives
    def randint(self, a, b):
        if b < a:
            raise ValueError("empty range for randint")
        return self.choose([(k, Fraction(1, b - a + 1)) for k in range(a, b + 1)])

    def choices(self, population, weights=None, *, cum_weights=None, k=1):
        """`random.Random.choices` as CPython computes it, with `random()` an ideal uniform real on [0, 1):
        `population[bisect(cum_weights, random() * total, 0, n - 1)]`, `total = cum_weights[-1]`.  The bisection is
        followed literally, so cumulative weights that are *not* ascending (negative weights, weights handed over
        where cumulative weights are expected) are enumerated exactly as well: index i gets the measure of the raw
        values on which the bisection ends at i."""
        if k != 1:
            raise Unsupported("choices with k != 1")
        population = list(population)
        n = len(population)
        if cum_weights is None:
            if weights is None:
                if n == 0:
                    raise IndexError("list index out of range")
                return [self.choose([(x, Fraction(1, n)) for x in population])]
            cum = list(itertools.accumulate(weights))
        elif weights is not None:
            raise TypeError("Cannot specify both weights and cumulative weights")
        else:
            cum = list(cum_weights)
        if len(cum) != n:
            raise ValueError("The number of weights does not match the population")
        total = cum[-1] + 0.0
        if total <= 0.0:
            raise ValueError("Total of weights must be greater than zero")
        if not math.isfinite(total):
            raise ValueError("Total of weights must be finite")
        cw = [Fraction(c) for c in cum]
        tot = Fraction(total)
        # x = random() * total is uniform on [0, tot); between two neighbouring values of cw every comparison
        # `x < cw[mid]` of the bisection has a fixed result, so the index is constant there
        pts = sorted({Fraction(0), tot} | {c for c in cw if 0 < c < tot})
        mass = {}
        for a, b in zip(pts, pts[1:]):
            i = bisect.bisect_right(cw, a, 0, n - 1)
            mass[i] = mass.get(i, 0) + (b - a) / tot
        if any(c0 > c1 for c0, c1 in zip(cw, cw[1:])):
            self.nonmonotone += 1
        return [self.choose([(population[i], p) for i, p in sorted(mass.items())])]

    def unsupported(self, *a, **k):
        raise Unsupported("continuous / unsupported random primitive")

    def run_all(self, f, limit=MAX_PATHS):
        """all (result, probability) pairs of f() over every RNG branch"""
        names = ["randint", "choices", "random", "uniform", "gauss", "choice", "randrange", "triangular",
                 "shuffle", "sample", "getrandbits", "normalvariate", "betavariate", "expovariate"]
        saved = {n: getattr(random, n) for n in names}
        random.randint, random.choices = self.randint, self.choices
        for n in names[2:]:
            setattr(random, n, self.unsupported)
        try:
            self.script, self.fan, out = [], [], []
            while True:
                self.pos, self.prob = 0, Fraction(1)
                r = f()
                out.append((r, self.prob))
                if len(out) > limit:
                    e = TooManyPaths()
                    e.partial = out
                    raise e
                self.script, self.fan = self.script[: self.pos], self.fan[: self.pos]
                while self.script and self.script[-1] + 1 >= self.fan[-1]:
                    self.script.pop()
                    self.fan.pop()
                if not self.script:
                    return out
                self.script[-1] += 1
        finally:
            for n, v in saved.items():
                setattr(random, n, v)


# --------------------------------------------------------------------------- run-time tables seen by the program
class Runtime:
    def __init__(self):
        self.reset({})

    def reset(self, tables):
        self.LOG = []
        self.vals = []
        self.T = tables

    def log(self, kind, val, t):
        self.LOG.append((int(kind), int(val), int(t)))

    def pre(self, i, t):
        tb = self.T["pre"][i]
        return bool(tb[min(t, len(tb) - 1)])

    def dur(self, i, t):
        tb = self.T["dur"][i]
        return tb[min(t, len(tb) - 1)]

    def w(self, i):
        return self.T["w"][i]

    def p(self, k, j):
        return self.T["p"][k][j]

    # helpers used by the table-driven (generic) source
    @property
    def stmts(self):
        return self.T["stmts"]

    def operand(self, op):
        return self.vals[op[1]] if op[0] == "p" else op[1]

    def drew(self, v, t):
        self.vals.append(v)
        self.log(1, v, t)

    def optdict(self, s):
        return {v: wfloat(w) for v, w in s["opts"]}

    @property
    def t0(self):
        return self.T["t0"]

    @property
    def dicts(self):
        """ids of the items of the dicts the body holds in local variables"""
        return self.T.get("dicts", [])


RT = Runtime()


# --------------------------------------------------------------------------- programs
def wfloat(w):
    """weights are given as strings 'num/den' (dyadic); the program sees an int or a float"""
    f = Fraction(w)
    return int(f) if f.denominator == 1 else float(f)


def shape_of(prog):
    """everything the Scenic *source text* depends on (tables are looked up at run time)"""
    sh = [prog["ctx"], tuple(tuple(it["id"] for it in d) for d in prog.get("dicts", []))]
    for s in prog["stmts"]:
        k = s["k"]
        if s.get("form") == "v":
            sh.append((k, "v", s["var"]))
        elif k == "wait":
            sh.append(("wait", s["n"]))
        elif k == "range":
            sh.append(("range", s["lo"][0], s["lo"][1] if s["lo"][0] == "p" else None,
                       s["hi"][0], s["hi"][1] if s["hi"][0] == "p" else None))
        elif k in ("options", "uniform"):
            sh.append((k, len(s["opts"])))
        else:
            sh.append((k, s["form"], tuple(it["id"] for it in s["items"])))
    return tuple(sh)


def render(prog):
    """Scenic source of the program (depends only on shape_of(prog))"""
    ctx = prog["ctx"]
    now = "simulation().currentTime"
    step = {"behavior": "take {v}", "compose": "wait", "monitor": "wait"}[ctx]
    body = [f"_d{j} = {{" + ", ".join(f"Sub({it['id']}): _c19.w({it['id']})" for it in d) + "}"
            for j, d in enumerate(prog.get("dicts", []))]
    body += ["for _i in range(_c19.t0):", "    wait"]
    nd = 0  # number of draws so far
    for k, s in enumerate(prog["stmts"]):
        kind = s["k"]
        if s.get("form") == "v":
            body.append(f"do {kind} _d{s['var']}")
        elif kind == "wait":
            body += ["wait"] * s["n"]
        elif kind in ("range", "options", "uniform"):
            if kind == "range":
                ops = []
                for j, (tag, val) in enumerate((s["lo"], s["hi"])):
                    ops.append(f"v{val}" if tag == "p" else f"_c19.p({k}, {j})")
                expr = f"DiscreteRange({ops[0]}, {ops[1]})"
            elif kind == "options":
                expr = "Options({" + ", ".join(f"_c19.p({k}, {2*j}): _c19.p({k}, {2*j+1})"
                                               for j in range(len(s["opts"]))) + "})"
            else:
                expr = "Uniform(" + ", ".join(f"_c19.p({k}, {j})" for j in range(len(s["opts"]))) + ")"
            body += [f"v{nd} = {expr}", f"_c19.log(1, v{nd}, {now})", step.format(v=f"v{nd}")]
            nd += 1
        else:
            word = "choose" if kind == "choose" else "shuffle"
            if s["form"] == "d":
                arg = "{" + ", ".join(f"Sub({it['id']}): _c19.w({it['id']})" for it in s["items"]) + "}"
            else:
                arg = ", ".join(f"Sub({it['id']})" for it in s["items"])
            body.append(f"do {word} {arg}")
    body.append(f"_c19.log(2, 0, {now})")
    return _wrap(ctx, body)


def render_generic(ctx):
    """one table-driven source per context: the statement list is read from `_c19.stmts` at run time, so a single
    compiled scenario serves every generated program of that context (compilation dominates the running time)"""
    now = "simulation().currentTime"
    step = {"behavior": "take _v", "compose": "wait", "monitor": "wait"}[ctx]
    sched = []
    if ctx != "monitor":
        for word in ("choose", "shuffle"):
            sched += [f"elif _k == '{word}':",
                      "    _ids = [_it['id'] for _it in _s.get('items', ())]",
                      "    if _s['form'] == 'v':",
                      f"        do {word} _D[_s['var']]",
                      "    elif _s['form'] == 'd':",
                      f"        do {word} {{Sub(_i): _c19.w(_i) for _i in _ids}}"]
            for n in (1, 2, 3, 4):
                sched += [f"    elif len(_ids) == {n}:",
                          f"        do {word} " + ", ".join(f"Sub(_ids[{j}])" for j in range(n))]
    body = (["_D = [{Sub(_i): _c19.w(_i) for _i in _ids} for _ids in _c19.dicts]"] if ctx == "behavior" else []) + [
            "for _i in range(_c19.t0):", "    wait",
            "for _s in _c19.stmts:",
            "    _k = _s['k']",
            "    if _k == 'wait':",
            "        for _j in range(_s['n']):",
            "            wait",
            "    elif _k in ('range', 'options', 'uniform'):",
            "        if _k == 'range':",
            "            _v = DiscreteRange(_c19.operand(_s['lo']), _c19.operand(_s['hi']))",
            "        elif _k == 'options':",
            "            _v = Options(_c19.optdict(_s))",
            "        else:",
            "            _v = Uniform(*_s['opts'])",
            f"        _c19.drew(_v, {now})",
            f"        {step}"] + ["    " + ln for ln in sched] + [f"_c19.log(2, 0, {now})"]
    return _wrap(ctx, body)


def _wrap(ctx, body):
    now = "simulation().currentTime"
    ind = lambda lines, n: [" " * n + ln for ln in lines]
    if ctx == "behavior":
        src = ["behavior Sub(i):",
               f"    precondition: _c19.pre(i, {now})",
               f"    _c19.log(0, i, {now})",
               f"    for _k in range(_c19.dur(i, {now})):",
               "        take 1000 * i + _k",
               "behavior Main():"] + ind(body, 4) + ["    terminate", "ego = new Object with behavior Main()"]
        kw = {}
    elif ctx == "compose":
        src = ["scenario Sub(i):",
               f"    precondition: _c19.pre(i, {now})",
               "    compose:",
               f"        _c19.log(0, i, {now})",
               f"        for _k in range(_c19.dur(i, {now})):",
               "            wait",
               "scenario Main():",
               "    setup:",
               "        ego = new Object",
               "    compose:"] + ind(body, 8)
        kw = {"scenario": "Main"}
    else:
        src = ["monitor M():"] + ind(body, 4) + ["    terminate", "ego = new Object", "require monitor M()"]
        kw = {}
    return "\n".join(src) + "\n", kw


def tables_of(prog):
    T = {"pre": {}, "dur": {}, "w": {}, "p": {}, "t0": prog["t0"], "stmts": prog["stmts"],
         "dicts": [[it["id"] for it in d] for d in prog.get("dicts", [])]}
    for d in prog.get("dicts", []):
        for it in d:
            T["pre"][it["id"]] = it["pre"]
            T["dur"][it["id"]] = it["dur"]
            T["w"][it["id"]] = wfloat(it["w"])
    for k, s in enumerate(prog["stmts"]):
        kind = s["k"]
        if s.get("form") == "v":
            continue
        if kind == "range":
            T["p"][k] = [s["lo"][1] if s["lo"][0] == "c" else None, s["hi"][1] if s["hi"][0] == "c" else None]
        elif kind == "options":
            T["p"][k] = list(itertools.chain.from_iterable((v, wfloat(w)) for v, w in s["opts"]))
        elif kind == "uniform":
            T["p"][k] = list(s["opts"])
        elif kind in ("choose", "shuffle"):
            for it in s["items"]:
                T["pre"][it["id"]] = it["pre"]
                T["dur"][it["id"]] = it["dur"]
                T["w"][it["id"]] = wfloat(it["w"])
    return T


def lean_line(prog):
    toks = ["C19", "prog", str(prog["t0"])]
    fr = lambda w: "{}/{}".format(*Fraction(w).as_integer_ratio())
    item = lambda it, form: [str(it["id"]), fr(it["w"]) if form == "d" else "-",
                             "".join("1" if b else "0" for b in it["pre"]), "".join(str(d) for d in it["dur"])]
    for d in prog.get("dicts", []):
        toks += ["D", str(len(d))]
        for it in d:
            toks += item(it, "d")
    for s in prog["stmts"]:
        kind = s["k"]
        if s.get("form") == "v":
            toks += ["CV" if kind == "choose" else "SV", str(s["var"])]
        elif kind == "wait":
            toks += ["W", str(s["n"])]
        elif kind == "range":
            toks += ["R"] + [f"{tag}{val}" for tag, val in (s["lo"], s["hi"])]
        elif kind == "options":
            toks += ["O", str(len(s["opts"]))]
            for v, w in s["opts"]:
                toks += [str(v), fr(w)]
        elif kind == "uniform":
            toks += ["U", str(len(s["opts"]))] + [str(v) for v in s["opts"]]
        else:
            toks += ["C" if kind == "choose" else "S", s["form"], str(len(s["items"]))]
            for it in s["items"]:
                toks += item(it, s["form"])
    return " ".join(toks)


# --------------------------------------------------------------------------- the real interpreter
_compiled = {}


def compiled(prog):
    import scenic
    literal = prog.get("literal", False)
    sh = shape_of(prog) if literal else ("generic", prog["ctx"])
    if sh not in _compiled:
        src, kw = render(prog) if literal else render_generic(prog["ctx"])
        RT.reset(tables_of(prog))
        sc = scenic.scenarioFromString(src, **kw)
        scene, _ = sc.generate(maxIterations=5)
        _compiled[sh] = (sc, scene, src)
        if len(_compiled) > 400:
            _compiled.pop(next(iter(_compiled)))
    return _compiled[sh]


def canon(status, end, log):
    """outcome key: finished runs keep the end step, rejected/error runs only the log so far"""
    lg = tuple((t, k, v) for (k, v, t) in log)
    return (status, end if status == "done" else None, lg)


def real_pmf(prog):
    """exact PMF of the real interpreter over canonical outcomes; raises TooManyPaths/Unsupported"""
    from scenic.core.simulators import DummySimulator
    builtins._c19 = RT
    sc, scene, _ = compiled(prog)
    tables = tables_of(prog)

    def attempt():
        RT.reset(tables)
        try:
            sim = DummySimulator().simulate(scene, maxSteps=MAX_STEPS, maxIterations=1)
        except (Unsupported, TooManyPaths):
            raise
        except Exception as e:  # an exception escaping simulate(): neither finished nor rejected
            log = [e for e in RT.LOG if e[0] != 2]
            return canon("err", None, log) + (type(e).__name__,)
        log = list(RT.LOG)
        if sim is None:
            return canon("rej", None, [e for e in log if e[0] != 2])
        ends = [e for e in log if e[0] == 2]
        if len(ends) != 1 or log[-1][0] != 2:
            # the body did not reach its end within MAX_STEPS (every generated program ends well before that)
            return canon("timeout", None, [e for e in log if e[0] != 2][:12])
        return canon("done", ends[0][2], log[:-1])

    en = RngEnum()
    try:
        res = en.run_all(attempt)
    except TooManyPaths as e:
        e.partial = _fold(e.partial)[0]
        raise
    finally:
        STATS["nonmonotone_choices"] += en.nonmonotone
    pmf, errs = _fold(res)
    return pmf, len(res), errs


def _fold(res):
    pmf, errs = {}, set()
    for r, p in res:
        if r[0] == "err":
            errs.add(r[3])
            r = r[:3]
        pmf[r] = pmf.get(r, 0) + p
    return pmf, errs


def parse_lean(line):
    """'ok <status>,<end>,<log>=<num/den> ...' -> PMF over canonical outcomes"""
    if not line.startswith("ok"):
        raise Infra(f"Lean driver could not parse a program: {line[:100]}")
    pmf = {}
    for ent in line[2:].split():
        key, pr = ent.split("=")
        status, end, lg = key.split(",")
        log = () if lg == "-" else tuple(tuple(int(x) for x in ev.split(".")) for ev in lg.split(";"))
        n, d = pr.split("/")
        p = Fraction(int(n), int(d))
        if p == 0:
            continue
        k = (status, int(end) if status == "done" else None, log)
        pmf[k] = pmf.get(k, 0) + p
    return pmf


# --------------------------------------------------------------------------- the property statement, in plain Python
class Undecided(Exception):
    pass


def tab(tb, t):
    return tb[min(t, len(tb) - 1)]


def spec_pmf(prog):
    """PMF prescribed by the statement of C19 (independent of the Lean model).  Undecided when the statement
    does not determine a probability (0/0, negative weights)."""
    out = {}

    def pick(t, rem):
        en = [it for it in rem if tab(it["pre"], t)]
        if not en:
            return None
        ws = [Fraction(it["w"]) for it in en]
        if any(w < 0 for w in ws) or sum(ws) == 0:
            raise Undecided()
        tot = sum(ws)
        return [(it, w / tot) for it, w in zip(en, ws) if w > 0]

    def go(i, t, vals, log, p):
        if i == len(prog["stmts"]):
            k = ("done", t, tuple(log))
            out[k] = out.get(k, 0) + p
            return
        s = prog["stmts"][i]
        kind = s["k"]
        if kind == "wait":
            return go(i + 1, t + s["n"], vals, log, p)
        if kind in ("range", "options", "uniform"):
            if kind == "range":
                lo, hi = (vals[v] if tag == "p" else v for tag, v in (s["lo"], s["hi"]))
                dist = [(v, Fraction(1, hi - lo + 1)) for v in range(lo, hi + 1)]
            elif kind == "options":
                ws = [Fraction(w) for _, w in s["opts"]]
                if any(w < 0 for w in ws) or (s["opts"] and sum(ws) == 0):
                    raise Undecided()
                dist = [(v, w / sum(ws)) for (v, _), w in zip(s["opts"], ws) if w > 0]
            else:
                dist = [(v, Fraction(1, len(s["opts"]))) for v in s["opts"]]
            if not dist:  # empty domain: the sample is rejected
                k = ("rej", None, tuple(log))
                out[k] = out.get(k, 0) + p
                return
            for v, q in dist:
                go(i + 1, t + 1, vals + [v], log + [(t, 1, v)], p * q)
            return
        # a variable operand lists the items of the dict it was bound to
        listed = prog["dicts"][s["var"]] if s["form"] == "v" else s["items"]
        items = [dict(it, w=(it["w"] if s["form"] in "dv" else "1")) for it in listed]
        if kind == "choose":
            pk = pick(t, items)
            if pk is None:
                k = ("rej", None, tuple(log))
                out[k] = out.get(k, 0) + p
                return
            for it, q in pk:
                go(i + 1, t + tab(it["dur"], t), vals, log + [(t, 0, it["id"])], p * q)
            return

        def shuf(t, rem, log, p):
            if not rem:
                return go(i + 1, t, vals, log, p)
            pk = pick(t, rem)
            if pk is None:
                k = ("rej", None, tuple(log))
                out[k] = out.get(k, 0) + p
                return
            for it, q in pk:
                shuf(t + tab(it["dur"], t), [x for x in rem if x is not it], log + [(t, 0, it["id"])], p * q)
        shuf(t, items, log, p)

    go(0, prog["t0"], [], [], Fraction(1))
    return out


# --------------------------------------------------------------------------- generator
WEIGHTS = ["1", "2", "3", "1/2", "1/4", "3/2", "5", "1/8", "10", "7/4"]


def gen_table_pre(rng):
    r = rng.random()
    if r < 0.35:
        return [1]
    n = rng.randint(1, 7)
    if r < 0.55:
        a = rng.randint(0, n)
        return [0] * a + [1]
    if r < 0.7:
        a = rng.randint(1, n)
        return [1] * a + [0]
    if r < 0.78:
        return [0]
    return [rng.randint(0, 1) for _ in range(n)]


def gen_items(rng, next_id, kmax=4):
    k = rng.choice([1, 2, 2, 3, 3, 3, 4, 4] if kmax >= 4 else [1, 2, 2, 3, 3])
    if rng.random() < 0.03:
        k = 0
    items = []
    for _ in range(k):
        r = rng.random()
        w = "0" if r < 0.1 else ("-1" if r < 0.115 else rng.choice(WEIGHTS))
        dur = [rng.choice([0, 1, 1, 2, 3]) for _ in range(rng.choice([1, 1, 2, 4]))]
        items.append({"id": next_id[0], "w": w, "pre": gen_table_pre(rng), "dur": dur})
        next_id[0] += 1
    return items


def gen_draw(rng, ndraws):
    r = rng.random()
    if r < 0.45:
        lo = ["c", rng.choice([0, 1, -2, 3])]
        hi = ["c", lo[1] + rng.choice([0, 1, 2, 3, -1 if rng.random() < 0.1 else 2])]
        if ndraws and rng.random() < 0.4:
            hi = ["p", rng.randrange(ndraws)]
        elif ndraws and rng.random() < 0.15:
            lo = ["p", rng.randrange(ndraws)]
            hi = ["c", rng.choice([2, 4])]
        return {"k": "range", "lo": lo, "hi": hi}
    if r < 0.8:
        n = rng.randint(1, 3)
        vals = rng.sample([7, 8, 9, -4, 0, 12], n)
        if rng.random() < 0.15:
            vals[-1] = vals[0]  # a repeated key in the dict literal collapses in Python: keep them distinct instead
            vals = list(dict.fromkeys(vals))
        opts = [[v, "0" if rng.random() < 0.12 else rng.choice(WEIGHTS)] for v in vals]
        return {"k": "options", "opts": opts}
    n = rng.randint(1, 3)
    return {"k": "uniform", "opts": [rng.choice([1, 2, 3, 5, -1]) for _ in range(n)]}


def gen_program(rng, literal_share=0.05):
    ctx = rng.choice(["behavior", "behavior", "compose", "compose", "monitor"])
    stmts, next_id, ndraws = [], [1], 0
    n = rng.choice([1, 2, 2, 3, 3])
    sched = 0
    for _ in range(n):
        r = rng.random()
        if ctx == "monitor":
            r = 0.7 + 0.3 * r if r < 0.6 else r
        if r < 0.3 and sched < 2:
            stmts.append({"k": "choose", "form": rng.choice("dddt"), "items": gen_items(rng, next_id)})
            sched += 1
        elif r < 0.62 and sched < 2:
            stmts.append({"k": "shuffle", "form": rng.choice("dddt"), "items": gen_items(rng, next_id, 4 if sched == 0 else 3)})
            sched += 1
        elif r < 0.9:
            stmts.append(gen_draw(rng, ndraws))
            ndraws += 1
        else:
            stmts.append({"k": "wait", "n": rng.randint(1, 2)})
    if ctx == "monitor":
        stmts = [s for s in stmts if s["k"] not in ("choose", "shuffle")] or [gen_draw(rng, 0)]
    for s in stmts:
        if s["k"] in ("choose", "shuffle") and not s["items"]:
            s["form"] = "d"  # `do choose` with no operand is not syntax; the empty dict is
    prog = {"ctx": ctx, "t0": rng.choice([0, 0, 1, 2, 3]), "stmts": stmts}
    if ctx == "behavior" and rng.random() < 0.22:
        # the operand is a dict held in a local variable, used by two or three statements (behavior objects may be
        # started again once they have ended; scenario objects are single-use, so compose bodies do not get this form)
        d = []
        while not d:
            d = gen_items(rng, next_id, 3)
        uses = [{"k": rng.choice(["choose", "shuffle", "shuffle"]), "form": "v", "var": 0}
                for _ in range(rng.choice([2, 2, 3]))]
        keep = [s for s in stmts if s["k"] not in ("choose", "shuffle")][:1]
        stmts = uses[:1] + keep + uses[1:] if rng.random() < 0.5 else uses + keep
        prog = dict(prog, stmts=stmts, dicts=[d])
    if rng.random() < literal_share:
        prog["literal"] = True  # rendered as its own source text (dict/tuple literals) instead of the table-driven source
    return prog


def nontrivial(prog):
    nd = sum(1 for s in prog["stmts"] if s["k"] in ("range", "options", "uniform"))
    big = any(s["k"] in ("choose", "shuffle") and len(items_of(prog, s)) >= 2 for s in prog["stmts"])
    return big or nd >= 2


def items_of(prog, s):
    return prog["dicts"][s["var"]] if s.get("form") == "v" else s["items"]


def literalised(prog):
    """the same program with every variable operand written out as a dict literal"""
    stmts = [dict(k=s["k"], form="d", items=[dict(it) for it in prog["dicts"][s["var"]]]) if s.get("form") == "v" else s
             for s in prog["stmts"]]
    return {k: v for k, v in dict(prog, stmts=stmts).items() if k != "dicts"}


def violation_key(prog):
    return f"pmf:{kinds_of(prog)}"


CORPUS = [
    # the probe of DESIGN.md: step-dependent precondition changes the enabled set between two picks of a shuffle
    {"ctx": "behavior", "t0": 0, "stmts": [
        {"k": "choose", "form": "d", "items": [{"id": 1, "w": "2", "pre": [1], "dur": [2]},
                                               {"id": 2, "w": "3", "pre": [1], "dur": [2]},
                                               {"id": 3, "w": "1", "pre": [0], "dur": [1]}]},
        {"k": "shuffle", "form": "d", "items": [{"id": 4, "w": "2", "pre": [1], "dur": [2]},
                                                {"id": 5, "w": "3", "pre": [1], "dur": [0]},
                                                {"id": 6, "w": "1", "pre": [0, 0, 0, 1], "dur": [1]}]},
        {"k": "range", "lo": ["c", 1], "hi": ["c", 2]}]},
    # exactly one enabled item of weight 0 still runs (recorded corner)
    {"ctx": "compose", "t0": 0, "stmts": [
        {"k": "choose", "form": "d", "items": [{"id": 1, "w": "0", "pre": [1], "dur": [1]},
                                               {"id": 2, "w": "5", "pre": [0], "dur": [1]}]}]},
    # all enabled weights 0 with two enabled: empty domain -> rejection
    {"ctx": "behavior", "t0": 1, "stmts": [
        {"k": "shuffle", "form": "d", "items": [{"id": 1, "w": "0", "pre": [1], "dur": [1]},
                                                {"id": 2, "w": "0", "pre": [1], "dur": [1]}]}]},
    # deadlock in the middle of a shuffle
    {"ctx": "compose", "t0": 0, "stmts": [
        {"k": "shuffle", "form": "t", "items": [{"id": 1, "w": "1", "pre": [1], "dur": [1]},
                                                {"id": 2, "w": "1", "pre": [1, 0], "dur": [1]},
                                                {"id": 3, "w": "1", "pre": [1], "dur": [2]}]}]},
    # the same expression evaluated repeatedly, one bound depending on an earlier draw, in a monitor
    {"ctx": "monitor", "t0": 2, "stmts": [
        {"k": "range", "lo": ["c", 1], "hi": ["c", 3]}, {"k": "range", "lo": ["c", 1], "hi": ["c", 3]},
        {"k": "range", "lo": ["c", 0], "hi": ["p", 0]}, {"k": "options", "opts": [[7, "1"], [8, "3"], [9, "0"]]}]},
    # a dict held in a variable is chosen from twice, then shuffled, then chosen from again
    {"ctx": "behavior", "t0": 0, "dicts": [[{"id": 1, "w": "1", "pre": [1], "dur": [1]},
                                            {"id": 2, "w": "3", "pre": [1], "dur": [0, 2]}]],
     "stmts": [{"k": "choose", "form": "v", "var": 0}, {"k": "choose", "form": "v", "var": 0},
               {"k": "shuffle", "form": "v", "var": 0}, {"k": "choose", "form": "v", "var": 0}]},
    # four items, tuple form, everything enabled: 24 orders, each 1/24
    {"ctx": "behavior", "t0": 0, "stmts": [
        {"k": "shuffle", "form": "t", "items": [{"id": i, "w": "1", "pre": [1], "dur": [1]} for i in (1, 2, 3, 4)]}]},
]


# --------------------------------------------------------------------------- comparison
def show_outcome(k):
    status, end, log = k
    return f"{status}@{end} " + " ".join(f"t{t}:{'ran' if kd == 0 else 'drew'} {v}" for t, kd, v in log)


def diff_pmf(a, b):
    """first outcome whose probability differs, as text (None if equal)"""
    for k in sorted(set(a) | set(b), key=repr):
        pa, pb = a.get(k, 0), b.get(k, 0)
        if pa != pb:
            return f"outcome [{show_outcome(k)}]: {pa} vs {pb}"
    return None


def kinds_of(prog):
    return "+".join(sorted({s["k"] for s in prog["stmts"] if s["k"] != "wait"})) or "wait"


def shrink(prog, still_fails, budget=40):
    """greedy delta-debugging over statements and items"""
    cur = prog
    changed = True
    while changed and budget > 0:
        changed = False
        cands = []
        for i in range(len(cur["stmts"])):
            if len(cur["stmts"]) > 1:
                c = dict(cur, stmts=cur["stmts"][:i] + cur["stmts"][i + 1:])
                # dropping a draw invalidates later references to it: only drop if nothing refers to draws
                if not any(s["k"] == "range" and "p" in (s["lo"][0], s["hi"][0]) for s in cur["stmts"]):
                    cands.append(c)
                    if cur["stmts"][i]["k"] in ("range", "options", "uniform"):  # keep the time step, drop the draw
                        cands.append(dict(cur, stmts=cur["stmts"][:i] + [{"k": "wait", "n": 1}] + cur["stmts"][i + 1:]))
            s = cur["stmts"][i]
            if s["k"] in ("choose", "shuffle") and s.get("form") != "v" and len(s["items"]) > 1:
                for j in range(len(s["items"])):
                    s2 = dict(s, items=s["items"][:j] + s["items"][j + 1:])
                    cands.append(dict(cur, stmts=cur["stmts"][:i] + [s2] + cur["stmts"][i + 1:]))
        if cur.get("dicts"):
            cands.insert(0, literalised(cur))  # does the failure need the shared operand at all?
            for v, d in enumerate(cur["dicts"]):
                for j in range(len(d)):
                    if len(d) > 1:
                        cands.append(dict(cur, dicts=cur["dicts"][:v] + [d[:j] + d[j + 1:]] + cur["dicts"][v + 1:]))
        if cur["t0"]:
            cands.append(dict(cur, t0=0))
        for c in cands:
            budget -= 1
            if budget <= 0:
                break
            try:
                if still_fails(c):
                    cur, changed = c, True
                    break
            except Exception:
                continue
    return cur


def check_program(ctx, prog, lean_out, state):
    """run one program on the real interpreter; compare with Lean (C) and with the statement (S)"""
    state["attempted"] += 1
    try:
        real, npaths, errs = real_pmf(prog)
    except (TooManyPaths, Unsupported) as e:
        why = "too-many-paths" if isinstance(e, TooManyPaths) else f"unsupported ({e})"
        ctx.hist("program", "skipped:" + why)
        state["skipped"].setdefault(why, []).append(lean_line(prog))
        if isinstance(e, TooManyPaths):
            # the branches enumerated before the cut-off bound the real PMF from below: an outcome that already has
            # more probability than the statement gives it is a failing input (one-sided, never a false alarm)
            try:
                spec = spec_pmf(prog)
            except Undecided:
                return False
            over = [(k, p) for k, p in e.partial.items() if p > spec.get(k, 0)]
            if over:
                k, p = over[0]
                what = (f"{prog['ctx']} body [{lean_line(prog)}]: the first {MAX_PATHS} RNG branches of the real interpreter "
                        f"already give outcome [{show_outcome(k)}] probability {p}, stated: {spec.get(k, 0)}")
                return bool(ctx.violation(violation_key(prog), what, {"kind": "program", "program": prog}))
        return False
    ctx.case(json.dumps(prog, sort_keys=True), nontrivial=nontrivial(prog))
    ctx.hist("program", "enumerated")
    ctx.hist("source", "literal" if prog.get("literal") else "table-driven")
    ctx.hist("context", prog["ctx"])
    ctx.hist("rng_paths", 1 if npaths == 1 else 2 if npaths == 2 else "3-6" if npaths <= 6 else "7-24" if npaths <= 24 else "25+")
    for s in prog["stmts"]:
        if s["k"] in ("choose", "shuffle"):
            ctx.hist("schedule", f"{s['k']}:{s['form']}:{len(items_of(prog, s))} items")
        else:
            ctx.hist("statement", s["k"])
    for k, p in real.items():
        ctx.hist("outcome_status", k[0])
    if sum(real.values()) != 1:
        raise Infra("enumerated probabilities do not sum to 1")
    found = False
    # (C) model vs code
    if lean_out is not None:
        model = parse_lean(lean_out)
        d = diff_pmf(real, model)
        if d is not None:
            state["corr_bad"] += 1
            if state["corr_bad"] <= 4:
                ctx.broken("correspondence", "Choose model vs interpreter (exact PMF)",
                           f"{lean_line(prog)} :: real vs Lean: {d}")
    # (S) the statement itself
    try:
        spec = spec_pmf(prog)
        d = diff_pmf(real, spec)
        ctx.hist("oracle", "decided")
        if d is not None:
            def fails(p):
                r, _, _ = real_pmf(p)
                return diff_pmf(r, spec_pmf(p)) is not None
            small = shrink(prog, fails)
            r2, _, errs2 = real_pmf(small)
            d2 = diff_pmf(r2, spec_pmf(small)) or d
            what = (f"{small['ctx']} body [{lean_line(small)}]: real interpreter vs stated probabilities: {d2}"
                    + (f" (exceptions: {sorted(errs2)})" if errs2 else ""))
            key = violation_key(small)
            if ctx.violation(key, what, {"kind": "program", "program": small}):
                found = True
    except Undecided:
        ctx.hist("oracle", "undecided (0/0 or negative weight)")
        state["undecided"] += 1
    return found


def corr_choices(ctx):
    """CPython's random.choices index computation vs `choicesIndex` (dyadic weights, raw uniform values)"""
    rng = ctx.rng
    lines, py = [], []

    class Fixed(random.Random):
        def __init__(self, u):
            super().__init__()
            self.u = u

        def random(self):
            return self.u

    for _ in range(ctx.budget(150, 1500)):
        n = rng.randint(1, 5)
        ws = [Fraction(rng.choice(WEIGHTS)) for _ in range(n)]
        cum = list(itertools.accumulate(float(w) for w in ws))
        tot = sum(ws)
        # boundary-dense raw values: the interval end points, just inside, and random dyadics
        cands = [Fraction(0), Fraction(1, 2), Fraction(rng.randrange(1024), 1024), Fraction(1023, 1024)]
        acc = Fraction(0)
        for w in ws:
            acc += w
            for u in (acc / tot, acc / tot - Fraction(1, 2 ** 20)):
                if 0 <= u < 1 and Fraction(float(u)) == u:
                    cands.append(u)
        u = rng.choice(cands)
        lines.append("C19 cidx {}/{} {} {}".format(u.numerator, u.denominator, n,
                                                   " ".join(f"{w.numerator}/{w.denominator}" for w in ws)))
        py.append("ok " + str(Fixed(float(u)).choices(range(n), cum_weights=cum)[0]))
    out = ctx.driver(lines)
    bad = 0
    for ln, a, b in zip(lines, out, py):
        ctx.evaluations += 1
        if a != b:
            bad += 1
            if bad <= 3:
                ctx.broken("correspondence", "choicesIndex vs random.choices", f"{ln}: lean={a} python={b}")
    ctx.hist("choices_index", "agree", len(lines) - bad)
    if bad:
        ctx.hist("choices_index", "DISAGREE", bad)


# --------------------------------------------------------------------------- round 4: Options as a function of random()
def real_select(opts, u):
    """`Options({v: w})` constructed and sampled by the real code while `random()` returns `u` (the module-level
    `random.choices` is a bound method of `random._inst` and calls `self.random()`)"""
    from scenic.core.distributions import Options, RejectionException
    inst = random._inst
    had = "random" in inst.__dict__
    old = inst.__dict__.get("random")
    inst.random = lambda: float(u)
    try:
        try:
            d = Options({v: (int(w) if w.denominator == 1 else float(w)) for v, w in opts})
            return "picked " + str(d.sample())
        finally:
            if had:
                inst.random = old
            else:
                del inst.__dict__["random"]
    except ValueError as e:
        return "neg" if "negative" in str(e) else "crash"
    except RejectionException:
        return "empty"
    except Exception:
        return "crash"


def gen_options(rng):
    n = rng.choice([0, 1, 1, 2, 2, 3, 3, 4, 5, 6])
    vals = rng.sample(range(-3, 20), n)
    opts = []
    for v in vals:
        r = rng.random()
        w = Fraction(0) if r < 0.15 else Fraction(rng.choice(WEIGHTS))
        opts.append((v, w))
    r = rng.random()
    if opts and r < 0.05:      # malformed stream: a negative weight, all weights zero
        i = rng.randrange(len(opts))
        opts[i] = (opts[i][0], Fraction(-1, rng.choice([1, 2, 4])))
    elif opts and r < 0.09:
        opts = [(v, Fraction(0)) for v, _ in opts]
    return opts


def select_measure(opts):
    """the statement, directly on the real code: among the raw uniform values (an ideal uniform `random()`), the share that
    makes `Options(opts)` return `v` must be w_v / total.  All weights are multiples of 1/8, so every interval end of any
    cumulative-weight implementation is a multiple of 1/M with M = 8*total: the M cell midpoints measure the shares
    exactly.  -> (real shares, stated shares) or None when not applicable"""
    if not opts or any(w < 0 for _, w in opts):
        return None
    tot = sum(w for _, w in opts)
    M = 8 * tot
    if tot <= 0 or M.denominator != 1 or M > 480:
        return None
    M = int(M)
    real = {}
    for j in range(M):
        r = real_select(opts, Fraction(2 * j + 1, 2 * M))
        real[r] = real.get(r, 0) + Fraction(1, M)
    want = {"picked " + str(v): w / tot for v, w in opts if w != 0}
    return real, want


def corr_select(ctx):
    """(C) `optionsSelect` on the generated constants vs the real `Options(...).sample()` with `random()` patched, on
    boundary-dense raw values; (S) the measure of the raw values selecting each option vs weight/total"""
    rng = ctx.rng
    lines, py, cases = [], [], []
    found = False
    nmeasure = 0
    for _ in range(ctx.budget(400, 4000)):
        opts = gen_options(rng)
        pos = [w for _, w in opts if w > 0]
        tot = sum(pos) if pos else Fraction(1)
        cands = [Fraction(0), Fraction(1, 2), Fraction(rng.randrange(1024), 1024), Fraction(1023, 1024),
                 Fraction(2 ** 30 - 1, 2 ** 30)]
        acc = Fraction(0)
        for w in pos:
            acc += w
            cands += [acc / tot, acc / tot - Fraction(1, 2 ** 20), acc / tot + Fraction(1, 2 ** 20)]
        # only raw values for which the float computation `random() * total` of CPython is exact
        cands = [u for u in cands if 0 <= u < 1 and Fraction(float(u)) == u
                 and Fraction(float(u) * float(tot)) == u * tot]
        u = rng.choice(cands)
        lines.append("C19 osel {}/{} {}".format(u.numerator, u.denominator, " ".join(
            f"{v} {w.numerator}/{w.denominator}" for v, w in opts)))
        py.append("ok " + real_select(opts, u))
        cases.append((opts, u))
        ctx.case(("osel", tuple(opts), u), nontrivial=len(pos) >= 2)
        ctx.hist("options_select", py[-1].split()[1] + f" n={len(opts)}")
        if nmeasure < ctx.budget(40, 400) and not found:
            m = select_measure(opts)
            if m is not None:
                nmeasure += 1
                real, want = m
                if real != want:
                    what = ("Options({}) under an ideal uniform random(): shares of the raw values per result {} but "
                            "weight/total is {}").format({v: str(w) for v, w in opts},
                                                         {k: str(p) for k, p in sorted(real.items())},
                                                         {k: str(p) for k, p in sorted(want.items())})
                    if ctx.violation("select-measure", what,
                                     {"kind": "select", "opts": [[v, f"{w.numerator}/{w.denominator}"] for v, w in opts]}):
                        found = True
    try:
        out = ctx.driver(lines)
    except Infra:
        out = None
    bad = 0
    if out is not None:
        for ln, a, b in zip(lines, out, py):
            ctx.evaluations += 1
            if a != b:
                bad += 1
                if bad <= 3:
                    ctx.broken("correspondence", "optionsSelect vs Options(...).sample() with random() patched",
                               f"{ln}: lean={a} python={b}")
        ctx.hist("options_select", "agree", len(lines) - bad)
        if bad:
            ctx.hist("options_select", "DISAGREE", bad)
    ctx.extra["select_cases"] = len(lines)
    ctx.extra["select_measure_checks"] = nmeasure
    ctx.extra["select_disagreements"] = bad
    return found


def direct_api(ctx):
    """run-time sampling through the public API: a distribution object constructed while a simulation is in
    progress must be a plain sampled value, and two evaluations of one expression must be separate draws"""
    import scenic
    from scenic.core.distributions import Distribution
    from scenic.core.simulators import DummySimulator
    builtins._c19 = RT
    src = ("behavior B():\n"
           "    xs = [DiscreteRange(0, 1) for _i in range(3)]\n"
           "    for x in xs:\n"
           "        _c19.log(1, x, simulation().currentTime)\n"
           "    _c19.T['types'] = [type(x).__name__ for x in xs] + [type(Options({1: 1, 2: 1})).__name__, type(Uniform(4, 5)).__name__]\n"
           "    take 0\n"
           "    terminate\n"
           "ego = new Object with behavior B()\n")
    RT.reset({"t0": 0})
    sc = scenic.scenarioFromString(src)
    scene, _ = sc.generate(maxIterations=5)
    tables = {"t0": 0}

    def attempt():
        RT.reset(tables)
        try:
            sim = DummySimulator().simulate(scene, maxSteps=5, maxIterations=1)
        except (Unsupported, TooManyPaths):
            raise
        except Exception as e:  # evaluating a distribution in a behavior made the simulation raise: an outcome, not an infra error
            return (tuple(v for k, v, t in RT.LOG if k == 1), ("raised " + type(e).__name__,), False)
        return (tuple(v for k, v, t in RT.LOG if k == 1), tuple(RT.T.get("types", ())), sim is not None)

    res = RngEnum().run_all(attempt)
    pmf = {}
    found = False
    for (vals, types, ok), p in res:
        pmf[vals] = pmf.get(vals, 0) + p
        if not ok or any(t != "int" for t in types):
            if ctx.violation("runtime-value-type", f"a distribution evaluated in a behavior gave {types} (simulation ok={ok})",
                             {"kind": "api"}):
                found = True
    want = {v: Fraction(1, 8) for v in itertools.product((0, 1), repeat=3)}
    ctx.case(("api", src))
    if pmf != want and not found:
        if ctx.violation("runtime-draws-not-independent",
                         f"three evaluations of DiscreteRange(0, 1) in a loop have joint PMF {sorted(pmf.items())}, expected uniform on 8 triples",
                         {"kind": "api"}):
            found = True
    return found


# --------------------------------------------------------------------------- main
def run(ctx):
    ctx.rule = ("case = one generated program (context behavior/compose/monitor, start step, 1-3 statements among wait, "
                "run-time draw DiscreteRange/Options/Uniform possibly depending on an earlier draw, do choose, do shuffle "
                "over 0-4 items in dict or tuple form with dyadic weights incl. 0 and rarely negative, precondition and "
                "running-time tables indexed by step) whose every RNG branch was enumerated on the real interpreter; "
                "non-trivial = a choose/shuffle over >= 2 items or >= 2 draws; distinct by content hash")
    ctx.assumptions += [
        "CPython's random is idealised: randint uniform, choices proportional to the cumulative-weight differences "
        "(choicesIndex/choices_interval model the index computation; validated against random.choices on dyadic inputs)",
        "weights are dyadic rationals so float accumulation in itertools.accumulate is exact",
        "preconditions are deterministic functions of the time step (random or side-effecting preconditions are outside the statement)",
        "sub-behaviours are modelled by identity, precondition table and running-time table; parallel agents/monitors are not interleaved in the model",
    ]
    ctx.trusted_base += ["tools/translate/choose.py (template extraction)",
                         "tools/props/c19.py: RNG-branch enumerator, program renderer, Python statement oracle",
                         "lean/Driver/C19.lean parser/printer"]
    ctx.fingerprint(FINGERPRINTS)
    from translate import choose
    data, mismatches = choose.extract()
    ctx.gen("Choose", choose.to_lean(data))
    ctx.extra["translator_matched"] = data["matched"]
    if mismatches:
        ctx.escalated.append("translator tie lost: " + "; ".join(mismatches))
        ctx.notes.append("translator tie lost for: " + "; ".join(mismatches) + " -- the reference constants are used for "
                         "these functions and the tie rests on the correspondence run at thorough budget")
    pr = ctx.prove(THEOREMS, side_conditions=SIDE)
    if ctx.tier == "thorough" and pr.build_ok:
        ctx.leanchecker(["ScenicModel.Props.C19", "ScenicModel.Props.C19Step"])
    driver_ok = pr.build_ok
    if not driver_ok:
        # the generated constants may have made a side condition fail while the driver itself still builds
        rc, log = ctx.lake(["build", "drv_c19"])
        driver_ok = rc == 0
    import scenic  # noqa: F401  (import before patching anything)
    rng = ctx.rng
    random.seed(rng.getrandbits(32))
    progs = []
    nprog = ctx.budget(320, 3000)
    for i, c in enumerate(CORPUS):
        progs.append(dict(c, literal=True) if i < ctx.budget(2, 7) else c)
    for _ in range(nprog):
        progs.append(gen_program(rng, ctx.budget(0.03, 0.05)))
    lean_outs = [None] * len(progs)
    if driver_ok:
        try:
            lean_outs = ctx.driver([lean_line(p) for p in progs])
        except Infra:
            if pr.build_ok:
                raise
    state = {"corr_bad": 0, "undecided": 0, "skipped": {}, "attempted": 0}
    found = False
    import time
    t_explore = time.time()  # the exploration budget does not include a Lean rebuild after a change of Gen/
    for prog, lo in zip(progs, lean_outs):
        found |= check_program(ctx, prog, lo, state)
        if found:
            ctx.notes.append("stopped at the first failing input")
            break
        if time.time() - t_explore > ctx.budget(110, 1400):
            ctx.notes.append("time budget reached before all generated programs were run")
            break
    if driver_ok:
        corr_choices(ctx)
    found |= corr_select(ctx) if driver_ok else False
    found |= direct_api(ctx)
    ctx.extra["oracle_undecided"] = state["undecided"]
    nskip = sum(len(v) for v in state["skipped"].values())
    ctx.extra["programs_attempted"] = state["attempted"]
    ctx.extra["programs_skipped"] = nskip
    ctx.extra["programs_skipped_by_reason"] = {k: len(v) for k, v in state["skipped"].items()}
    ctx.extra["nonmonotone_choices_calls_enumerated"] = STATS["nonmonotone_choices"]
    if nskip:
        ctx.notes.append(f"{nskip} of {state['attempted']} programs could not be enumerated to the end and were skipped: "
                         + "; ".join(f"{k}: {len(v)} (e.g. {v[0]})" for k, v in state["skipped"].items()))
    if nskip > max(2, MAX_SKIP_SHARE * state["attempted"]):
        ctx.broken("correspondence", "enumeration coverage",
                   f"{nskip} of {state['attempted']} generated programs were skipped by the RNG-branch enumerator "
                   f"(more than {MAX_SKIP_SHARE:.0%}): " + "; ".join(f"{k}: {len(v)} (e.g. {v[0]})"
                                                                    for k, v in state["skipped"].items()))
    ctx.extra["correspondence_disagreements"] = state["corr_bad"]
    ctx.resolve_brokens(found)


def replay(ctx, path):
    body = json.load(open(path))
    rep = body.get("replay", body)
    import scenic  # noqa: F401
    if rep.get("kind") == "program":
        prog = dict(rep["program"], literal=True)  # run exactly the source text printed below
        src, _ = render(prog)
        print("program tables:", json.dumps(tables_of(prog), default=str))
        print(src)
        try:
            real, n, errs = real_pmf(prog)
        except TooManyPaths as e:
            print(f"more than {MAX_PATHS} RNG branches; lower bounds from the branches enumerated so far:")
            try:
                spec = spec_pmf(prog)
            except Undecided:
                print("statement undecided for this program")
                return 0
            over = [(k, p) for k, p in e.partial.items() if p > spec.get(k, 0)]
            for k, p in over[:10]:
                print(f"  DIFFERENCE: outcome [{show_outcome(k)}]: at least {p}, stated {spec.get(k, 0)}")
            return 1 if over else 0
        print(f"real interpreter, {n} RNG branches" + (f", exceptions {sorted(errs)}" if errs else ""))
        for k, p in sorted(real.items(), key=repr):
            print(f"  {p}  {show_outcome(k)}")
        try:
            spec = spec_pmf(prog)
            print("stated probabilities:")
            for k, p in sorted(spec.items(), key=repr):
                print(f"  {p}  {show_outcome(k)}")
            d = diff_pmf(real, spec)
            print("DIFFERENCE: " + d if d else "no difference")
            return 1 if d else 0
        except Undecided:
            print("statement undecided for this program")
            return 0
    if rep.get("kind") == "select":
        opts = [(v, Fraction(w)) for v, w in rep["opts"]]
        m = select_measure(opts)
        if m is None:
            print("not applicable")
            return 0
        real, want = m
        print("Options(%s): share of the raw uniform values per result" % {v: str(w) for v, w in opts})
        for k in sorted(set(real) | set(want)):
            print(f"  {k}: real {real.get(k, 0)}  stated {want.get(k, 0)}")
        print("DIFFERENCE" if real != want else "no difference")
        return 1 if real != want else 0
    if rep.get("kind") == "api":
        class C:  # minimal stand-in for ctx
            def violation(self, key, what, rep):
                print("VIOLATION", key, what)
                return True

            def case(self, *a, **k):
                pass
        return 1 if direct_api(C()) else 0
    print(json.dumps(rep, indent=1)[:3000])
    return 0
