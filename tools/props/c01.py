"""C01 — scenes are drawn from exactly the program's conditional distribution.

Proof:  lean/ScenicModel/Props/C01*.lean — theorems about the sampler model of Model/Sampler*.lean
        (identity-keyed depth-first sampling = one draw per node along the DFS post-order; per-attempt distribution =
        prior restricted to the active requirements for every evaluation order; closed form of the rejection loop;
        soft-requirement mixture; resample independence; requirement binding snapshots), instantiated on the
        constants regenerated from distributions.py / scenarios.py by translate/sampler.py.
Tie:    (T) translate/sampler.py -> Gen/SamplerCfg.lean (rounding of DiscreteRange bounds, empty test, selector
        bounds of Options / UniformDistribution, comparator of the soft-requirement activation, retry loop shape);
        (C) generated programs of the finite-discrete fragment: the real `_generateInner` is run under an RNG-branch
        enumerator (all outcomes of random.* with exact Fraction probabilities) and its exact PMF over
        (active soft requirements, canonical scene, iterations) is compared with the PMF computed by the Lean model
        from the term re-derived from the *compiled* Scenario object graph and from the generator's own term;
        (S) a brute-force enumerator of the declarative semantics written directly in Python (no Lean), compared
        with the real PMF — gives the concrete program and outcome whose probability is wrong.
"""
import collections
import itertools
import json
import math
import os
import random
import sys
import time
from fractions import Fraction

from vlib.ctx import Infra, TemplateMismatch

THEOREMS = [
    # property theorems (Props/C01.lean), instantiated on the regenerated configuration
    "Scenic.C01.sampleAll_once",
    "Scenic.C01.every_reference_sees_the_draw",
    "Scenic.C01.prior_order_independent",
    "Scenic.C01.drange_spec",
    "Scenic.C01.drange_reject_iff_empty",
    "Scenic.C01.options_uniform",
    "Scenic.C01.activation_spec",
    "Scenic.C01.attempt_eq_prior_restricted",
    "Scenic.C01.attempt_order_irrelevant",
    "Scenic.C01.generate_closed_form",
    "Scenic.C01.generate_rejection",
    "Scenic.C01.generate_conditional_independent_of_n",
    "Scenic.C01.soft_mixture",
    "Scenic.C01.generate_total_closed_form",
    "Scenic.C01.resample_indep",
    "Scenic.C01.rebinding",
    "Scenic.C01.weighted_spec",
    "Scenic.C01.uniform_star_spec",
    "Scenic.C01.sampled_iff_reachable",
    "Scenic.C01.prior_is_declarative",
    "Scenic.C01.loop_is_closed_form",
    "Scenic.C01.scene_generation_eq_declarative_semantics",
    "Scenic.C01.hypotheses_decidable",
    # the lemmas they rest on (Lemmas/Sampler*.lean), for every configuration
    "Scenic.Sampler.mass_bind",
    "Scenic.Sampler.bind_assoc",
    "Scenic.Sampler.loop_success",
    "Scenic.Sampler.loop_beyond",
    "Scenic.Sampler.loop_reject",
    "Scenic.Sampler.loop_scene_total",
    "Scenic.Sampler.activation_mass",
    "Scenic.Sampler.visit_eq_seqAlong",
    "Scenic.Sampler.sampleAll_eq_seqAlong",
    "Scenic.Sampler.postorder_nodup",
    "Scenic.Sampler.postorder_children_first",
    "Scenic.Sampler.seqAlong_consistent",
    "Scenic.Sampler.draw_congr",
    "Scenic.Sampler.check_perm",
    "Scenic.Sampler.seqAlong_pair_indep",
    "Scenic.Sampler.mass_bindO_comm",
    "Scenic.Sampler.seqAlong_swap_head",
    "Scenic.Sampler.seqAlong_perm",
    "Scenic.Sampler.mem_postorder_iff_reach",
    "Scenic.Sampler.specOrder_perm",
    "Scenic.Sampler.specOrder_closed",
    "Scenic.Sampler.total_seqAlong",
    "Scenic.Sampler.prior_event_indep",
    "Scenic.Sampler.loop_eq_geomLoop",
    "Scenic.Sampler.attempt_eq_restrict",
    "Scenic.Sampler.generate_eq_specGenerate",
    "Scenic.Sampler.windex_draw",
    "Scenic.Sampler.Prog.wfB_sound",
    "Scenic.Sampler.Prog.normalizedB_sound",
    "Scenic.Sampler.RExpr.holds_resp",
    # construction of a weighted choice (Props/C01Options.lean), instantiated on the regenerated Scenic.Gen.optCfg
    "Scenic.C01.options_build_spec",
    "Scenic.C01.options_build_errors",
    "Scenic.C01.options_build_ok",
    "Scenic.C01.options_kept_proper",
    "Scenic.C01.options_dropped_not_dependency",
    "Scenic.C01.options_selector_law",
    "Scenic.C01.options_clone_same",
    "Scenic.Sampler.optLoop_eq",
    "Scenic.Sampler.firstErr_none_iff",
    "Scenic.Sampler.keptSpec_mem",
    "Scenic.Sampler.keptSpec_sum",
]
SIDE = ["Scenic.C01.gen_cfg_wf", "Scenic.C01.gen_optcfg_wf"]

FINGERPRINTS = {
    "Scenario._generateInner": ("src/scenic/core/scenarios.py", "Scenario._generateInner"),
    "Scenario.generate": ("src/scenic/core/scenarios.py", "Scenario.generate"),
    "Scenario.__init__": ("src/scenic/core/scenarios.py", "Scenario.__init__"),
    "Scenario._makeSceneFromSample": ("src/scenic/core/scenarios.py", "Scenario._makeSceneFromSample"),
    "Samplable.sampleAll": ("src/scenic/core/distributions.py", "Samplable.sampleAll"),
    "Samplable.sample": ("src/scenic/core/distributions.py", "Samplable.sample"),
    "Samplable.__init__": ("src/scenic/core/distributions.py", "Samplable.__init__"),
    "TupleDistribution": ("src/scenic/core/distributions.py", "TupleDistribution"),
    "toDistribution": ("src/scenic/core/distributions.py", "toDistribution"),
    "FunctionDistribution": ("src/scenic/core/distributions.py", "FunctionDistribution"),
    "distributionFunction": ("src/scenic/core/distributions.py", "distributionFunction"),
    "StarredDistribution": ("src/scenic/core/distributions.py", "StarredDistribution"),
    "AttributeDistribution": ("src/scenic/core/distributions.py", "AttributeDistribution"),
    "OperatorDistribution": ("src/scenic/core/distributions.py", "OperatorDistribution"),
    "makeOperatorHandler": ("src/scenic/core/distributions.py", "makeOperatorHandler"),
    "MultiplexerDistribution": ("src/scenic/core/distributions.py", "MultiplexerDistribution"),
    "DiscreteRange": ("src/scenic/core/distributions.py", "DiscreteRange"),
    "Options": ("src/scenic/core/distributions.py", "Options"),
    "Uniform": ("src/scenic/core/distributions.py", "Uniform"),
    "UniformDistribution": ("src/scenic/core/distributions.py", "UniformDistribution"),
    "PendingRequirement": ("src/scenic/core/requirements.py", "PendingRequirement"),
    "getNameBindings": ("src/scenic/core/requirements.py", "getNameBindings"),
    "CompiledRequirement": ("src/scenic/core/requirements.py", "CompiledRequirement"),
    "SamplingRequirement": ("src/scenic/core/requirements.py", "SamplingRequirement"),
    "SampleChecker": ("src/scenic/core/sample_checking.py", "SampleChecker"),
    "WeightedAcceptanceChecker": ("src/scenic/core/sample_checking.py", "WeightedAcceptanceChecker"),
    "veneer.resample": ("src/scenic/syntax/veneer.py", "resample"),
    "veneer.require": ("src/scenic/syntax/veneer.py", "require"),
    "veneer.wrapStarredValue": ("src/scenic/syntax/veneer.py", "wrapStarredValue"),
    "veneer.callWithStarArgs": ("src/scenic/syntax/veneer.py", "callWithStarArgs"),
    "DefaultIdentityDict": ("src/scenic/core/utils.py", "DefaultIdentityDict"),
    "DynamicScenario._addRequirement": ("src/scenic/core/dynamics/scenarios.py", "DynamicScenario._addRequirement"),
    "DynamicScenario._compileRequirements": ("src/scenic/core/dynamics/scenarios.py", "DynamicScenario._compileRequirements"),
}

MAX_PATHS = 5000          # RNG paths per program (one attempt, all activations)
PREAMBLE = (
    "import collections\n"
    "P = collections.namedtuple('P', ['a', 'b'])\n"
    "def addmul(a, b, c=1):\n"
    "    return (a + b) * c\n"
)
NT_FIELDS = {"a": 0, "b": 1}


class OutsideFragment(Exception):
    """the program (or the real sampler) used something outside the finite-discrete fragment"""


# =========================================================================== values
class NT(tuple):
    """marker for a namedtuple constant P(a, b) in generator terms (a tuple for every purpose of the model)"""


def canon(v):
    """canonical text of a sampled Python value; numbers exactly as num/den (ints and floats alike)"""
    try:
        import numpy
        if isinstance(v, (numpy.integer, numpy.floating, numpy.bool_)):
            v = v.item()
    except ImportError:  # pragma: no cover
        pass
    if isinstance(v, bool):
        return "T" if v else "F"
    if isinstance(v, int):
        return f"{v}/1"
    if isinstance(v, Fraction):
        return f"{v.numerator}/{v.denominator}"
    if isinstance(v, float):
        if math.isnan(v) or math.isinf(v):
            return "E"
        f = Fraction(v)
        return f"{f.numerator}/{f.denominator}"
    if isinstance(v, str):
        return '"' + v.encode().hex() + '"'
    if isinstance(v, tuple):
        return "(" + ",".join(canon(x) for x in v) + ")"
    if isinstance(v, list):
        return "[" + ",".join(canon(x) for x in v) + "]"
    if isinstance(v, dict):
        # a dict is observed as the tuple of its (key, value) pairs in insertion order
        parts = []
        for k, x in v.items():
            ck, cx = canon(k), canon(x)
            if cx.startswith("<") or ck.startswith("<"):
                bad = cx if cx.startswith("<") else ck
                return f"<unsampled-in-dict:{bad[1:-1]}>"
            parts.append(f"({ck},{cx})")
        return "(" + ",".join(parts) + ")"
    if v is None:
        return "N"
    tn = type(v).__name__
    if tn == "Vector":
        return "(" + ",".join(canon(float(c)) for c in v) + ")"
    return f"<{tn}>"


def val_tokens(v):
    """serialisation of a constant for the Lean driver (prefix tokens)"""
    if isinstance(v, bool):
        return ["bT" if v else "bF"]
    if isinstance(v, (int, float, Fraction)):
        f = Fraction(v)
        return [f"n{f.numerator}/{f.denominator}"]
    if isinstance(v, str):
        return ["s" + (v.encode().hex() or "-")]
    if isinstance(v, tuple):
        return [f"t{len(v)}"] + [t for x in v for t in val_tokens(x)]
    if isinstance(v, list):
        return [f"l{len(v)}"] + [t for x in v for t in val_tokens(x)]
    if v is None:
        return ["N"]
    raise OutsideFragment(f"constant of type {type(v).__name__}")


# =========================================================================== terms
class Term:
    """A program of the fragment as a DAG.

    nodes[i] is one of
      ("const", v) | ("drange", lo, hi) | ("selector", n) | ("dynsel", len) | ("windex", [w...]) | ("mux", idx, [opt...])
      | ("ustar", sel, [(starred, id)...]) | ("op", name, [(starred, id)...])
    with every referenced id < i.  outputs: [(label, id)].  reqs: [(prob, rexpr)] where
      rexpr = ("ref", id) | ("const", v) | ("op", name, [rexpr...]).
    Everything reachable from the outputs and from the requirement references is sampled for a scene.
    """

    def __init__(self):
        self.nodes = []
        self.outputs = []
        self.reqs = []       # user requirements (prob, rexpr): the soft ones are activated per scene
        self.defaults = []   # rexpr of the scenario's default (always active) requirements

    def add(self, *node):
        self.nodes.append(tuple(node))
        return len(self.nodes) - 1

    def const(self, v):
        return self.add("const", v)

    def deps(self, i):
        nd = self.nodes[i]
        k = nd[0]
        if k in ("const", "windex", "selector"):
            return []
        if k == "dynsel":
            return [nd[1]]
        if k == "drange":
            return [nd[1], nd[2]]
        if k == "mux":
            return [nd[1]] + list(nd[2])
        if k == "ustar":
            return [j for _, j in nd[2]] + [nd[1]]
        if k == "op":
            return [j for _, j in nd[2]]
        raise ValueError(k)

    def req_refs(self, e, acc=None):
        acc = [] if acc is None else acc
        if e[0] == "ref":
            acc.append(e[1])
        elif e[0] == "op":
            for a in e[2]:
                self.req_refs(a, acc)
        return acc

    def roots(self):
        r = [i for _, i in self.outputs]
        for _, e in self.reqs:
            r += self.req_refs(e)
        for e in self.defaults:
            r += self.req_refs(e)
        return r

    def reachable(self):
        seen, todo = set(), list(self.roots())
        while todo:
            i = todo.pop()
            if i not in seen:
                seen.add(i)
                todo += self.deps(i)
        return seen

    def n_random(self):
        return sum(1 for i in self.reachable() if self.nodes[i][0] in ("drange", "windex", "selector", "dynsel"))

    # ------------------------------------------------------------ serialisation for the Lean driver
    def line(self):
        toks = [str(len(self.nodes))]
        for nd in self.nodes:
            k = nd[0]
            if k == "const":
                toks += ["C"] + val_tokens(nd[1])
            elif k == "drange":
                toks += ["R", str(nd[1]), str(nd[2])]
            elif k == "selector":
                toks += ["S", str(nd[1])]
            elif k == "dynsel":
                toks += ["D", str(nd[1])]
            elif k == "windex":
                toks += ["W", str(len(nd[1]))] + [f"{Fraction(w).numerator}/{Fraction(w).denominator}" for w in nd[1]]
            elif k == "mux":
                toks += ["M", str(nd[1]), str(len(nd[2]))] + [str(j) for j in nd[2]]
            elif k == "ustar":
                toks += ["U", str(nd[1]), str(len(nd[2]))] + [("s" if s else "p") + str(j) for s, j in nd[2]]
            elif k == "op":
                toks += ["O", nd[1], str(len(nd[2]))] + [("s" if s else "p") + str(j) for s, j in nd[2]]
        toks += ["OUT", str(len(self.outputs))]
        for lab, i in self.outputs:
            toks += [lab, str(i)]
        toks += ["REQ", str(len(self.reqs))]
        for p, e in self.reqs:
            p = Fraction(p)
            toks += [f"{p.numerator}/{p.denominator}"] + self.rexpr_tokens(e)
        toks += ["DEF", str(len(self.defaults))]
        for e in self.defaults:
            toks += self.rexpr_tokens(e)
        return " ".join(toks)

    def rexpr_tokens(self, e):
        if e[0] == "ref":
            return [f"r{e[1]}"]
        if e[0] == "const":
            return ["c"] + val_tokens(e[1])
        return ["o", e[1], str(len(e[2]))] + [t for a in e[2] for t in self.rexpr_tokens(a)]


# =========================================================================== operator semantics (plain Python)
def _addmul(a, b, c=1):
    return (a + b) * c


def _implies(a, b):
    return (not a) or b


OPS = {
    "add": lambda a, b: a + b, "sub": lambda a, b: a - b, "mul": lambda a, b: a * b,
    "truediv": lambda a, b: a / b, "floordiv": lambda a, b: a // b, "mod": lambda a, b: a % b,
    "neg": lambda a: -a, "abs": lambda a: abs(a),
    "tuple": lambda *xs: tuple(xs), "list": lambda *xs: list(xs),
    "getitem": lambda s, i: s[i], "len": lambda s: len(s),
    "attr0": lambda s: s[0], "attr1": lambda s: s[1],
    "max": lambda *xs: max(*xs) if len(xs) > 1 else max(xs), "min": lambda *xs: min(*xs) if len(xs) > 1 else min(xs),
    "addmul": _addmul, "int": lambda a: int(a), "count": lambda s, v: s.count(v),
    "lt": lambda a, b: a < b, "le": lambda a, b: a <= b, "gt": lambda a, b: a > b, "ge": lambda a, b: a >= b,
    "eq": lambda a, b: a == b, "ne": lambda a, b: a != b,
    "and": lambda a, b: bool(a) and bool(b), "or": lambda a, b: bool(a) or bool(b), "not": lambda a: not a,
    "implies": _implies,
}


class Crash(Exception):
    pass


def apply_op(name, args):
    try:
        return OPS[name](*args)
    except Exception as e:  # the declarative semantics has no value here
        raise Crash(f"{name}: {type(e).__name__}")


def eval_rexpr(e, env):
    if e[0] == "ref":
        return env[e[1]]
    if e[0] == "const":
        return e[1]
    return apply_op(e[1], [eval_rexpr(a, env) for a in e[2]])


# =========================================================================== (S) declarative semantics, brute force
def spec_prior(term, limit=200000):
    """The program's prior: every reachable distribution node drawn once, independently given its parameters,
    in index order.  Returns [(env or None (empty range), prob)] and the number of RNG paths."""
    order = sorted(term.reachable())
    out = []
    count = [0]

    def rec(k, env, p):
        if count[0] > limit:
            raise OutsideFragment("too many paths")
        if k == len(order):
            count[0] += 1
            out.append((dict(env), p))
            return
        i = order[k]
        nd = term.nodes[i]
        kind = nd[0]
        if kind == "const":
            env[i] = nd[1]
            rec(k + 1, env, p)
        elif kind == "drange":
            lo, hi = env[nd[1]], env[nd[2]]
            left, right = math.ceil(lo), math.floor(hi)
            if right < left:
                count[0] += 1
                out.append((None, p))
                return
            n = right - left + 1
            for v in range(left, right + 1):
                env[i] = v
                rec(k + 1, env, p / n)
        elif kind in ("selector", "dynsel"):
            # the selector of a uniform choice among n options: every index 0..n-1 equally likely
            n = nd[1] if kind == "selector" else env[nd[1]]
            if n < 1:
                count[0] += 1
                out.append((None, p))
                return
            for v in range(n):
                env[i] = v
                rec(k + 1, env, p / n)
        elif kind == "windex":
            ws = [Fraction(w) for w in nd[1]]
            tot = sum(ws)
            for j, w in enumerate(ws):
                if w > 0:
                    env[i] = j
                    rec(k + 1, env, p * w / tot)
        elif kind == "mux":
            idx = env[nd[1]]
            if not (isinstance(idx, int) and 0 <= idx < len(nd[2])):
                raise Crash("mux index")
            env[i] = env[nd[2][idx]]
            rec(k + 1, env, p)
        elif kind == "ustar":
            opts = []
            for s, j in nd[2]:
                if s:
                    opts.extend(env[j])
                else:
                    opts.append(env[j])
            idx = env[nd[1]]
            if not (isinstance(idx, int) and 0 <= idx < len(opts)):
                raise Crash("uniform index")
            env[i] = opts[idx]
            rec(k + 1, env, p)
        elif kind == "op":
            args = []
            for s, j in nd[2]:
                if s:
                    args.extend(env[j])
                else:
                    args.append(env[j])
            env[i] = apply_op(nd[1], args)
            rec(k + 1, env, p)
        env.pop(i, None)

    rec(0, {}, Fraction(1))
    return out, count[0]


def scene_of(term, env):
    return ";".join(f"{lab}={canon(env[i])}" for lab, i in term.outputs)


def spec_pmf(term, n):
    """Declarative PMF over (active soft requirements, scene, iterations<=n) and ('rej'):
    P(S) * r_S^(k-1) * acc_S(scene)."""
    prior, _ = spec_prior(term)
    soft = [Fraction(p) for p, _ in term.reqs]
    res = collections.Counter()
    for act in itertools.product([True, False], repeat=len(soft)):
        w = Fraction(1)
        for a, p in zip(act, soft):
            w *= p if a else 1 - p
        if w == 0:
            continue
        acc = collections.Counter()
        r = Fraction(0)
        for env, p in prior:
            if env is None:
                r += p
                continue
            ok = (all((not a) or bool(eval_rexpr(e, env)) for a, (_, e) in zip(act, term.reqs))
                  and all(bool(eval_rexpr(e, env)) for e in term.defaults))
            if ok:
                acc[scene_of(term, env)] += p
            else:
                r += p
        astr = "".join("1" if a else "0" for a in act)
        for k in range(1, n + 1):
            for s, p in acc.items():
                res[f"{astr}|{k}|{s}"] += w * r ** (k - 1) * p
        res[f"{astr}|rej"] += w * r ** n
    return {k: v for k, v in res.items() if v != 0}


# =========================================================================== RNG-branch enumerator (real code)
class BranchEnumerator:
    """Depth-first enumeration of every outcome of the patched random.* calls with exact probabilities.
    A run is replayed with a decision prefix; the last decision is advanced until every branch was taken."""

    def __init__(self, max_paths):
        self.script, self.fanout, self.pos, self.prob = [], [], 0, Fraction(1)
        self.max_paths = max_paths

    def choose(self, options):
        """options: list of (value, Fraction prob) with positive probabilities summing to 1"""
        if not options:
            raise OutsideFragment("random choice over an empty set")
        if self.pos < len(self.script):
            i = self.script[self.pos]
            if i >= len(options) or self.fanout[self.pos] != len(options):
                raise Infra("RNG-branch enumerator: the real sampler is not a function of its random draws "
                            "(replayed prefix saw a different choice set)")
        else:
            i = 0
            self.script.append(0)
            self.fanout.append(len(options))
        self.pos += 1
        v, p = options[i]
        self.prob *= p
        return v

    def run_all(self, f):
        self.script, self.fanout = [], []
        out = []
        while True:
            self.pos, self.prob = 0, Fraction(1)
            r = f()
            out.append((r, self.prob))
            if len(out) > self.max_paths:
                raise OutsideFragment(f"more than {self.max_paths} RNG paths")
            self.script, self.fanout = self.script[: self.pos], self.fanout[: self.pos]
            while self.script and self.script[-1] + 1 >= self.fanout[-1]:
                self.script.pop()
                self.fanout.pop()
            if not self.script:
                return out
            self.script[-1] += 1


class UnitUniform(float):
    """The value of random.random(): comparing it with a probability p branches with P(U <= p) = P(U < p) = p."""
    enum = None

    def _branch(self, p, below):
        """One draw U is known to lie in [lo, hi) (refined by every earlier comparison of *this* draw): comparing it
        with p is decided when p is outside that interval, else branches with P(U < p | lo <= U < hi) and narrows
        the interval, so that several comparisons of the same draw are jointly exact (not independent)."""
        try:
            p = Fraction(p)
        except (TypeError, ValueError):
            raise OutsideFragment("random.random() compared with a non-number")
        p = min(max(p, Fraction(0)), Fraction(1))
        lo = getattr(self, "_lo", Fraction(0))
        hi = getattr(self, "_hi", Fraction(1))
        if p <= lo:
            return not below
        if p >= hi:
            return below
        q = (p - lo) / (hi - lo)
        is_below = UnitUniform.enum.choose([(True, q), (False, 1 - q)])
        if is_below:
            self._hi = p
        else:
            self._lo = p
        return below if is_below else (not below)

    def __le__(self, p):
        return self._branch(p, True)

    __lt__ = __le__

    def __ge__(self, p):
        return self._branch(p, False)

    __gt__ = __ge__

    def _no(self, *a, **k):
        raise OutsideFragment("random.random() used arithmetically (continuous draw)")

    __add__ = __radd__ = __sub__ = __rsub__ = __mul__ = __rmul__ = __truediv__ = __rtruediv__ = _no
    __eq__ = __ne__ = _no
    __hash__ = float.__hash__


class PatchedRandom:
    """context manager: random.* replaced by the scripted oracle (module attributes, restored on exit)"""
    NAMES = ["random", "uniform", "randint", "choices", "randrange", "choice", "gauss", "normalvariate", "triangular",
             "betavariate", "expovariate", "shuffle", "sample", "getrandbits", "vonmisesvariate", "gammavariate",
             "lognormvariate", "paretovariate", "weibullvariate", "randbytes"]

    def __init__(self, enum):
        self.enum = enum
        self.saved = {}

    def __enter__(self):
        E = self.enum
        UnitUniform.enum = E

        def randint(a, b):
            a, b = int(a), int(b)
            if b < a:
                raise ValueError("empty range for randint")
            n = b - a + 1
            if n > 64:
                raise OutsideFragment("randint over more than 64 values")
            return E.choose([(k, Fraction(1, n)) for k in range(a, b + 1)])

        def randrange(start, stop=None, step=1):
            r = range(start) if stop is None else range(start, stop, step)
            if len(r) == 0:
                raise ValueError("empty range for randrange")
            if len(r) > 64:
                raise OutsideFragment("randrange over more than 64 values")
            return E.choose([(k, Fraction(1, len(r))) for k in r])

        def choice(seq):
            if len(seq) == 0:
                raise IndexError("Cannot choose from an empty sequence")
            return seq[randrange(len(seq))]

        def choices(population, weights=None, *, cum_weights=None, k=1):
            if k != 1:
                raise OutsideFragment("random.choices with k != 1")
            population = list(population)
            if cum_weights is not None:
                cw = [Fraction(w) for w in cum_weights]
                ws = [cw[0]] + [cw[i] - cw[i - 1] for i in range(1, len(cw))]
            elif weights is not None:
                ws = [Fraction(w) for w in weights]
            else:
                ws = [Fraction(1)] * len(population)
            if len(ws) != len(population):
                raise ValueError("The number of weights does not match the population")
            tot = sum(ws)
            if tot <= 0:
                raise ValueError("Total of weights must be greater than zero")
            return [E.choose([(x, w / tot) for x, w in zip(population, ws) if w > 0])]

        def rnd():
            return UnitUniform(0.5)

        def outside(name):
            def f(*a, **k):
                raise OutsideFragment(f"random.{name} (not a finite discrete draw)")
            return f

        repl = {"random": rnd, "randint": randint, "choices": choices, "randrange": randrange, "choice": choice}
        for n in self.NAMES:
            if hasattr(random, n):
                self.saved[n] = getattr(random, n)
                setattr(random, n, repl.get(n) or outside(n))
        return self

    def __exit__(self, *exc):
        for n, f in self.saved.items():
            setattr(random, n, f)
        UnitUniform.enum = None
        return False


def scene_outputs(scene, labels):
    """canonical text of the observed part of a real Scene, label by label"""
    parts = []
    for lab in labels:
        kind, _, rest = lab.partition(":")
        if kind == "p":
            v = scene.params[rest]
        else:  # o<k>:prop
            v = getattr(scene.objects[int(kind[1:])], rest)
        parts.append(f"{lab}={canon(v)}")
    return ";".join(parts)


def compile_program(code, mode2D):
    import scenic
    random.seed(12345)
    return scenic.scenarioFromString(PREAMBLE + code, mode2D=mode2D)


def real_pmf(sc, labels, n, max_paths=MAX_PATHS):
    """Exact PMF of Scenario._generateInner(n) over (active soft requirements | iterations | scene) and 'rej'."""
    from scenic.core.distributions import RejectionException
    E = BranchEnumerator(max_paths)

    def one():
        try:
            scene, its = sc._generateInner(n, 0, None)
        except RejectionException:
            act = "".join("1" if r.active else "0" for r in sc.userRequirements)
            return f"{act}|rej"
        except (OutsideFragment, Infra):
            raise
        except Exception as e:
            return f"crash:{type(e).__name__}:{str(e)[:80]}"
        act = "".join("1" if r.active else "0" for r in sc.userRequirements)
        return f"{act}|{its}|{scene_outputs(scene, labels)}"

    with PatchedRandom(E):
        res = E.run_all(one)
    pmf = collections.Counter()
    for r, p in res:
        pmf[r] += p
    return dict(pmf), len(res)


# =========================================================================== term re-derived from the compiled Scenario
OPNAMES = {"__add__": "add", "__sub__": "sub", "__mul__": "mul", "__truediv__": "truediv", "__floordiv__": "floordiv",
           "__mod__": "mod", "__neg__": "neg", "__abs__": "abs", "__getitem__": "getitem", "__len__": "len"}
ROPNAMES = {"__radd__": "add", "__rsub__": "sub", "__rmul__": "mul", "__rtruediv__": "truediv",
            "__rfloordiv__": "floordiv", "__rmod__": "mod"}
FUNCNAMES = {"max": "max", "min": "min", "addmul": "addmul", "_toIntScenic": "int"}
CMPOPS = {"Lt": "lt", "LtE": "le", "Gt": "gt", "GtE": "ge", "Eq": "eq", "NotEq": "ne"}
BINOPS = {"Add": "add", "Sub": "sub", "Mult": "mul", "Div": "truediv", "FloorDiv": "floordiv", "Mod": "mod"}


def extract_term(sc, labels):
    """Build the model term from the object graph the compiler produced (Scenario.dependencies, params, objects,
    compiled requirements with their saved bindings).  Anything unknown raises OutsideFragment."""
    import ast as pyast

    from scenic.core import distributions as D
    from scenic.core.lazy_eval import needsSampling
    from scenic.core.vectors import Vector
    t = Term()
    ids = {}

    def node_of(v):
        if id(v) in ids:
            return ids[id(v)][0]
        i = build(v)
        ids[id(v)] = (i, v)  # keep v alive so ids stay unique
        return i

    def starred(a):
        if isinstance(a, D.StarredDistribution):
            return (True, node_of(a.value))
        return (False, node_of(a))

    def build(v):
        v = getattr(v, "_conditioned", v)
        if isinstance(v, D.DiscreteRange):
            if v.weights:
                return t.add("windex", [Fraction(w) for w in v.weights])
            return t.add("drange", node_of(v.low), node_of(v.high))
        if isinstance(v, D.UniformDistribution):
            opts = [starred(o) for o in v.options]
            return t.add("ustar", node_of(v.selector), opts)
        if isinstance(v, D.MultiplexerDistribution):
            # the selector is the first constructor argument = the first dependency (always a DiscreteRange);
            # the attribute holding it has been renamed before (index -> _index), so it is not looked up by name
            deps = v._dependencies
            if not deps or not isinstance(deps[0], D.DiscreteRange) or any(deps[0] is o for o in v.options):
                raise OutsideFragment("multiplexer whose first dependency is not its selector")
            idx = node_of(deps[0])
            return t.add("mux", idx, [node_of(o) for o in v.options])
        if isinstance(v, D.TupleDistribution):
            if v.builder is tuple:
                name = "tuple"
            elif v.builder is list:
                name = "list"
            elif getattr(v.builder, "__self__", None) is not None and hasattr(v.builder.__self__, "_fields"):
                name = "tuple"
            else:
                raise OutsideFragment("TupleDistribution builder")
            return t.add("op", name, [(False, node_of(c)) for c in v.coordinates])
        if isinstance(v, D.StarredDistribution):
            return node_of(v.value)
        if type(v).__name__ == "TypecheckedDistribution":
            # sampling-time type check / float coercion: the numeric value is unchanged
            return node_of(v._dist)
        if isinstance(v, D.OperatorDistribution):
            if v.kwoperands:
                raise OutsideFragment("keyword operands")
            if v.operator == "__call__" and isinstance(v.object, D.AttributeDistribution):
                if v.object.attribute == "count":
                    return t.add("op", "count", [(False, node_of(v.object.object))] + [starred(o) for o in v.operands])
                raise OutsideFragment(f"method {v.object.attribute}")
            if v.operator in OPNAMES:
                return t.add("op", OPNAMES[v.operator], [(False, node_of(v.object))] + [(False, node_of(o)) for o in v.operands])
            if v.operator in ROPNAMES:
                return t.add("op", ROPNAMES[v.operator], [(False, node_of(o)) for o in v.operands] + [(False, node_of(v.object))])
            raise OutsideFragment(f"operator {v.operator}")
        if isinstance(v, D.AttributeDistribution):
            if v.attribute in NT_FIELDS:
                return t.add("op", f"attr{NT_FIELDS[v.attribute]}", [(False, node_of(v.object))])
            raise OutsideFragment(f"attribute {v.attribute}")
        if isinstance(v, D.FunctionDistribution):
            if v.kwargs:
                raise OutsideFragment("keyword arguments")
            fn = getattr(v.function, "__name__", "?")
            if fn not in FUNCNAMES:
                raise OutsideFragment(f"function {fn}")
            return t.add("op", FUNCNAMES[fn], [starred(a) for a in v.arguments])
        if isinstance(v, Vector):
            return t.add("op", "tuple", [(False, node_of(c)) for c in v.coordinates])
        if type(v).__name__ == "DictDistribution":
            pairs = [t.add("op", "tuple", [(False, node_of(k)), (False, node_of(x))])
                     for k, x in zip(v.keyDists, v.valueDists)]
            return t.add("op", "tuple", [(False, p) for p in pairs])
        if isinstance(v, dict):
            pairs = [t.add("op", "tuple", [(False, node_of(k)), (False, node_of(x))]) for k, x in v.items()]
            return t.add("op", "tuple", [(False, p) for p in pairs])
        if needsSampling(v) or isinstance(v, D.Samplable) and type(v).__name__ not in ("Vector",):
            if isinstance(v, D.Distribution) or needsSampling(v):
                raise OutsideFragment(f"distribution {type(v).__name__}")
        if isinstance(v, (bool, int, float, str, tuple, list)) or v is None:
            if isinstance(v, (tuple, list)) and any(needsSampling(x) for x in v):
                return t.add("op", "tuple" if isinstance(v, tuple) else "list", [(False, node_of(c)) for c in v])
            return t.const(tuple(v) if isinstance(v, tuple) else v)
        raise OutsideFragment(f"value of type {type(v).__name__}")

    for lab in labels:
        kind, _, rest = lab.partition(":")
        if kind == "p":
            v = sc.params[rest]
        else:
            v = getattr(sc.objects[int(kind[1:])], rest)
        t.outputs.append((lab, node_of(v)))

    # requirements: the syntax tree of the condition with every name replaced by the node its saved binding denotes
    syntaxes = sc.dynamicScenario._requirementSyntax
    pend = dict(sc.dynamicScenario._pendingRequirements)
    byline = {}
    for rid, preq in sc.dynamicScenario._pendingRequirements:
        byline[preq.line] = (rid, preq)
    for req in sc.userRequirements:
        rid, preq = byline[req.line]
        syn = syntaxes[rid]
        bind = dict(preq.globalBindings)
        bind.update(preq.closureBindings)

        def conv(e):
            if isinstance(e, pyast.Constant):
                return ("const", e.value)
            if isinstance(e, pyast.Name):
                if e.id not in bind:
                    raise OutsideFragment(f"unbound name {e.id} in requirement")
                v = bind[e.id]
                return ("ref", node_of(v))
            if isinstance(e, pyast.Attribute):
                # ego.position.x / obj.foo: resolve on the bound (unsampled) object; `ego` is compiled to a call
                # `ego()` answered from the ego object saved with the requirement
                chain = []
                cur = e
                while isinstance(cur, pyast.Attribute):
                    chain.append(cur.attr)
                    cur = cur.value
                if (isinstance(cur, pyast.Call) and isinstance(cur.func, pyast.Name) and cur.func.id == "ego"
                        and not cur.args):
                    v = preq.egoObject
                    if v is None:
                        raise OutsideFragment("ego referenced before it is defined")
                elif isinstance(cur, pyast.Name) and cur.id in bind:
                    v = bind[cur.id]
                else:
                    raise OutsideFragment("attribute chain in requirement")
                for a in reversed(chain):
                    v = getattr(v, a)
                return ("ref", node_of(v))
            if isinstance(e, pyast.Compare):
                parts, left = [], e.left
                for op, right in zip(e.ops, e.comparators):
                    parts.append(("op", CMPOPS[type(op).__name__], [conv(left), conv(right)]))
                    left = right
                r = parts[0]
                for p in parts[1:]:
                    r = ("op", "and", [r, p])
                return r
            if isinstance(e, pyast.BinOp) and type(e.op).__name__ in BINOPS:
                return ("op", BINOPS[type(e.op).__name__], [conv(e.left), conv(e.right)])
            if isinstance(e, pyast.UnaryOp) and isinstance(e.op, pyast.USub):
                return ("op", "neg", [conv(e.operand)])
            if isinstance(e, pyast.UnaryOp) and isinstance(e.op, pyast.Not):
                return ("op", "not", [conv(e.operand)])
            if isinstance(e, pyast.BoolOp):
                name = "and" if isinstance(e.op, pyast.And) else "or"
                r = conv(e.values[0])
                for x in e.values[1:]:
                    r = ("op", name, [r, conv(x)])
                return r
            if isinstance(e, pyast.Subscript):
                return ("op", "getitem", [conv(e.value), conv(e.slice)])
            if isinstance(e, pyast.Call) and isinstance(e.func, pyast.Name) and e.func.id in ("abs", "len", "max", "min"):
                return ("op", e.func.id, [conv(a) for a in e.args])
            tn = type(e).__name__
            if tn == "ImpliesOp":
                return ("op", "implies", [conv(e.hypothesis), conv(e.conclusion)])
            raise OutsideFragment(f"requirement syntax {tn}")
        t.reqs.append((Fraction(req.prob), conv(syn)))

    # default requirements of the scenario.  The generator only builds unrotated unit cubes whose positions differ
    # by 0 or by >= 5 along an axis, so "the two boxes intersect" is decided exactly by |d| < 1 on every axis.
    from scenic.core import requirements as R
    for dr in sc.defaultRequirements:
        if isinstance(dr, R.BlanketCollisionRequirement):
            continue  # optional; implied by the pairwise requirements
        if isinstance(dr, R.IntersectionRequirement):
            a, b = dr.objA, dr.objB
            for o in (a, b):
                for pr in ("width", "length", "height"):
                    if getattr(o, pr) != 1:
                        raise OutsideFragment("object is not a unit cube")
                if needsSampling(o.allowCollisions):
                    raise OutsideFragment("random allowCollisions")
            if a.allowCollisions or b.allowCollisions:
                continue
            close = None
            for ca, cb in zip(a.position.coordinates, b.position.coordinates):
                c = ("op", "lt", [("op", "abs", [("op", "sub", [("ref", node_of(ca)), ("ref", node_of(cb))])]), ("const", 1)])
                close = c if close is None else ("op", "and", [close, c])
            t.defaults.append(("op", "not", [close]))
            continue
        raise OutsideFragment(f"default requirement {type(dr).__name__}")
    return t


# =========================================================================== generator of programs of the fragment
class ProgGen:
    """Random program of the finite-discrete fragment, emitted both as Scenic text and as the model term that the
    text *means* (independent of the compiler).  Names are rebound, shared and duplicated on purpose."""

    def __init__(self, rng, mode2D=False, budget=8):
        self.rng = rng
        self.mode2D = mode2D
        self.t = Term()
        self.lines = []
        self.names = {}      # name -> dict(id=, kind=num|seq|nt, dist=bool, prim=None|("drange", lo, hi)|("mux", idxspec, opts)|..)
        self.counter = 0
        self.budget = budget  # random nodes still allowed
        self.features = set()
        self.objects = []    # (name, {prop: id})

    # ---- helpers
    def fresh(self, prefix="v"):
        self.counter += 1
        return f"{prefix}{self.counter}"

    def pick_name(self, kind, dist=None):
        c = [n for n, d in self.names.items() if d["kind"] == kind and (dist is None or d["dist"] == dist)]
        return self.rng.choice(c) if c else None

    def const_int(self, lo=0, hi=4):
        v = self.rng.randint(lo, hi)
        return dict(text=str(v), id=self.t.const(v), kind="num", dist=False, prim=None, val=v)

    def ref(self, name):
        d = self.names[name]
        return dict(text=name, id=d["id"], kind=d["kind"], dist=d["dist"], prim=d["prim"])

    def op(self, name, args, text, kind="num"):
        i = self.t.add("op", name, [(False, a["id"]) for a in args])
        return dict(text=text, id=i, kind=kind, dist=any(a["dist"] for a in args), prim=None)

    # ---- numeric expressions
    def num_atom(self, want_dist=False):
        n = self.pick_name("num", True if want_dist else None)
        if n and (want_dist or self.rng.random() < 0.6):
            self.features.add("shared-reference")
            return self.ref(n)
        if want_dist:
            return self.drange()
        return self.const_int()

    def bound_expr(self):
        """a bound of a DiscreteRange: constant, random name, or arithmetic over one (possibly fractional)"""
        r = self.rng.random()
        n = self.pick_name("num", True)
        if n is None or r < 0.45:
            return self.const_int(0, 3)
        x = self.ref(n)
        self.features.add("dependent-bound")
        k = self.rng.random()
        if k < 0.35:
            return x
        if k < 0.55:
            c = self.const_int(1, 2)
            return self.op("add", [x, c], f"({x['text']} + {c['text']})")
        if k < 0.7:
            c = self.const_int(1, 2)
            return self.op("sub", [x, c], f"({x['text']} - {c['text']})")
        if k < 0.9:
            self.features.add("fractional-bound")
            c = dict(text="2", id=self.t.const(2), kind="num", dist=False, prim=None)
            return self.op("truediv", [x, c], f"({x['text']} / 2)")
        c = dict(text="2", id=self.t.const(2), kind="num", dist=False, prim=None)
        return self.op("mul", [x, c], f"({x['text']} * 2)")

    def drange(self):
        self.budget -= 1
        lo = self.bound_expr()
        if self.rng.random() < 0.6 or not lo["dist"]:
            w = self.rng.choice([0, 1, 1, 2, 2, 3])
            if lo["dist"]:
                c = dict(text=str(w), id=self.t.const(w), kind="num", dist=False, prim=None)
                hi = self.op("add", [lo, c], f"({lo['text']} + {w})")
            elif "val" in lo:
                hv = lo["val"] + w
                if self.rng.random() < 0.15:
                    hv = hv + 0.5
                    self.features.add("fractional-bound")
                hi = dict(text=repr(hv), id=self.t.const(hv), kind="num", dist=False, prim=None, val=hv)
            else:
                hi = self.bound_expr()
        else:
            hi = self.bound_expr()
            if hi["dist"]:
                self.features.add("possibly-empty-range")
        i = self.t.add("drange", lo["id"], hi["id"])
        self.features.add("DiscreteRange")
        return dict(text=f"DiscreteRange({lo['text']}, {hi['text']})", id=i, kind="num", dist=True,
                    prim=("drange", lo["id"], hi["id"]))

    def options_list(self, kind, k):
        opts = []
        for _ in range(k):
            if kind == "num":
                opts.append(self.num_expr(1) if self.rng.random() < 0.5 else self.const_int(0, 9))
            elif kind == "seq":
                opts.append(self.seq_const())
            else:
                opts.append(self.nt_const())
        return opts

    def uniform(self, kind="num"):
        self.budget -= 1
        k = self.rng.choice([2, 2, 3, 3, 4]) if kind == "num" else self.rng.choice([2, 3])
        opts = self.options_list(kind, k)
        idx = self.t.add("selector", k)
        i = self.t.add("mux", idx, [o["id"] for o in opts])
        self.features.add("Uniform")
        return dict(text="Uniform(" + ", ".join(o["text"] for o in opts) + ")", id=i, kind=kind, dist=True,
                    prim=("mux-u", [o["id"] for o in opts]))

    def weighted(self, kind="num"):
        self.budget -= 1
        k = self.rng.choice([2, 3, 3, 4])
        opts, seen = [], set()
        for o in self.options_list(kind, k):
            # dict keys: constants must be distinct values, distributions are keyed by identity
            key = ("c", repr(o.get("val"))) if (not o["dist"] and "val" in o) else ("n", o["id"])
            if not o["dist"] and "val" not in o:
                continue  # constant tuples etc: hashable but may coincide; skip
            if key in seen:
                continue
            seen.add(key)
            opts.append(o)
        if not opts:
            opts = [self.const_int(0, 9)]
        ws = [self.rng.choice([1, 1, 2, 3, 0.5, 0]) for _ in opts]
        if all(w == 0 for w in ws):
            ws[0] = 1
        if 0 in ws:
            self.features.add("zero-weight")
        kept = [(o, w) for o, w in zip(opts, ws) if w != 0]
        idx = self.t.add("windex", [Fraction(w) for _, w in kept])
        i = self.t.add("mux", idx, [o["id"] for o, _ in kept])
        ctor = self.rng.choice(["Options", "Discrete"])
        self.features.add("Options-weighted")
        text = ctor + "({" + ", ".join(f"{o['text']}: {w!r}" for o, w in zip(opts, ws)) + "})"
        return dict(text=text, id=i, kind=kind, dist=True, prim=("mux-w", [Fraction(w) for _, w in kept], [o["id"] for o, _ in kept]))

    def resample(self, kind="num"):
        c = [n for n, d in self.names.items() if d["prim"] is not None and d["kind"] == kind]
        if not c:
            return None
        n = self.rng.choice(c)
        p = self.names[n]["prim"]
        self.budget -= 1
        self.features.add("resample")
        if p[0] == "drange":
            i = self.t.add("drange", p[1], p[2])
            prim = p
        elif p[0] == "mux-u":
            idx = self.t.add("selector", len(p[1]))
            i = self.t.add("mux", idx, list(p[1]))
            prim = p
        elif p[0] == "mux-w":
            idx = self.t.add("windex", list(p[1]))
            i = self.t.add("mux", idx, list(p[2]))
            prim = p
        else:  # ustar
            i = self.ustar_node(p[1])
            prim = p
        return dict(text=f"resample({n})", id=i, kind=self.names[n]["kind"], dist=True, prim=prim)

    def ustar_node(self, opts):
        """UniformDistribution over [(starred, id)]: selector DiscreteRange(0, total length - 1)"""
        parts = []
        nfixed = 0
        for s, j in opts:
            if s:
                parts.append(self.t.add("op", "len", [(False, j)]))
            else:
                nfixed += 1
        # length = 0 + len(a) + 1 + ... folded left exactly as `length += ...` does; only the value matters
        acc = self.t.const(nfixed)
        for pid in parts:
            acc = self.t.add("op", "add", [(False, acc), (False, pid)])
        sel = self.t.add("dynsel", acc)
        return self.t.add("ustar", sel, list(opts))

    def num_expr(self, depth=2):
        r = self.rng.random()
        if depth <= 0 or self.budget <= 0:
            return self.num_atom()
        if r < 0.22:
            return self.drange()
        if r < 0.36:
            return self.uniform()
        if r < 0.46:
            return self.weighted()
        if r < 0.52:
            e = self.resample()
            if e:
                return e
        if r < 0.72:  # lifted arithmetic
            a = self.num_atom(want_dist=self.rng.random() < 0.8) if depth < 2 else self.num_expr(depth - 1)
            k = self.rng.random()
            self.features.add("lifted-operator")
            if k < 0.12:
                return self.op("neg", [a], f"(-{a['text']})")
            if k < 0.2:
                return self.op("abs", [a], f"abs({a['text']})")
            if k < 0.3:
                c = dict(text="2", id=self.t.const(2), kind="num", dist=False, prim=None)
                name, sym = self.rng.choice([("floordiv", "//"), ("mod", "%"), ("truediv", "/")])
                return self.op(name, [a, c], f"({a['text']} {sym} 2)")
            if k < 0.36:
                c = dict(text="7", id=self.t.const(7), kind="num", dist=False, prim=None)
                d = self.const_int(2, 3)
                name, sym = self.rng.choice([("floordiv", "//"), ("mod", "%")])
                e1 = self.op("abs", [a], f"abs({a['text']})")   # divisor = |a| + d >= 2
                e2 = self.op("add", [e1, d], f"({e1['text']} + {d['text']})")
                return self.op(name, [c, e2], f"(7 {sym} {e2['text']})")
            b = self.num_atom() if self.rng.random() < 0.7 else self.num_expr(depth - 1)
            name, sym = self.rng.choice([("add", "+"), ("sub", "-"), ("mul", "*")])
            if self.rng.random() < 0.3:
                a, b = b, a   # reflected operator when the left operand is a constant
            return self.op(name, [a, b], f"({a['text']} {sym} {b['text']})")
        # things over random sequences
        s = self.seq_name()
        k = self.rng.random()
        if k < 0.2:
            self.features.add("lifted-getitem")
            if self.rng.random() < 0.5 and self.budget > 0:
                self.budget -= 1
                idx = self.t.add("drange", self.t.const(0), self.t.const(1))
                self.features.add("random-index")
                return dict(text=f"{s['text']}[DiscreteRange(0, 1)]", kind="num", dist=True, prim=None,
                            id=self.t.add("op", "getitem", [(False, s["id"]), (False, idx)]))
            c = self.rng.choice([0, 1, -1])
            return dict(text=f"{s['text']}[{c}]", kind="num", dist=True, prim=None,
                        id=self.t.add("op", "getitem", [(False, s["id"]), (False, self.t.const(c))]))
        if k < 0.3:
            self.features.add("lifted-len")
            return dict(text=f"len({s['text']})", kind="num", dist=True, prim=None,
                        id=self.t.add("op", "len", [(False, s["id"])]))
        if k < 0.55:
            self.features.add("star-call")
            fn = self.rng.choice(["max", "min", "addmul"])
            if fn == "addmul" or self.rng.random() < 0.5:
                return dict(text=f"{fn}(*{s['text']})", kind="num", dist=True, prim=None,
                            id=self.t.add("op", fn, [(True, s["id"])]))
            e = self.num_atom()
            return dict(text=f"{fn}(*{s['text']}, {e['text']})", kind="num", dist=True, prim=None,
                        id=self.t.add("op", fn, [(True, s["id"]), (False, e["id"])]))
        if k < 0.65:
            self.features.add("method-call")
            c = self.const_int(1, 4)
            return dict(text=f"{s['text']}.count({c['text']})", kind="num", dist=True, prim=None,
                        id=self.t.add("op", "count", [(False, s["id"]), (False, c["id"])]))
        if k < 0.78:
            self.features.add("attribute")
            n = self.nt_name()
            f = self.rng.choice(["a", "b"])
            return dict(text=f"{n['text']}.{f}", kind="num", dist=True, prim=None,
                        id=self.t.add("op", f"attr{NT_FIELDS[f]}", [(False, n["id"])]))
        if k < 0.86:
            self.features.add("lifted-int")
            a = self.num_atom(want_dist=True)
            c = self.t.const(2)
            h = self.t.add("op", "truediv", [(False, a["id"]), (False, c)])
            return dict(text=f"int({a['text']} / 2)", kind="num", dist=True, prim=None,
                        id=self.t.add("op", "int", [(False, h)]))
        self.features.add("Uniform-star")
        self.budget -= 1
        opts = [(True, s["id"])]
        text = f"*{s['text']}"
        if self.rng.random() < 0.4:
            e = self.num_atom()
            opts.append((False, e["id"]))
            text += f", {e['text']}"
        return dict(text=f"Uniform({text})", kind="num", dist=True, prim=("ustar", opts), id=self.ustar_node(opts))

    # ---- sequences / namedtuples
    def seq_const(self):
        n = self.rng.choice([2, 2, 3])
        items, rnd = [], False
        for _ in range(n):
            if self.rng.random() < 0.2 and self.pick_name("num", True):
                items.append(self.ref(self.pick_name("num", True)))
                rnd = True
            else:
                items.append(self.const_int(0, 5))
        as_list = self.rng.random() < 0.3
        text = ("[" if as_list else "(") + ", ".join(i["text"] for i in items) + ("]" if as_list else ")")
        if rnd:
            self.features.add("container-of-random-values")
            i = self.t.add("op", "list" if as_list else "tuple", [(False, x["id"]) for x in items])
            return dict(text=text, id=i, kind="seq", dist=True, prim=None)
        v = [x["val"] for x in items]
        v = v if as_list else tuple(v)
        return dict(text=text, id=self.t.const(v), kind="seq", dist=False, prim=None)

    def nt_const(self):
        a, b = self.const_int(0, 5), self.const_int(0, 5)
        if self.rng.random() < 0.25 and self.pick_name("num", True):
            b = self.ref(self.pick_name("num", True))
            i = self.t.add("op", "tuple", [(False, a["id"]), (False, b["id"])])
            return dict(text=f"P({a['text']}, {b['text']})", id=i, kind="nt", dist=True, prim=None)
        return dict(text=f"P({a['text']}, {b['text']})", id=self.t.const((a["val"], b["val"])), kind="nt", dist=False, prim=None)

    def seq_name(self):
        n = self.pick_name("seq", True)
        if n and self.rng.random() < 0.6:
            return self.ref(n)
        e = self.uniform("seq") if self.rng.random() < 0.75 else self.weighted_seq()
        name = self.fresh("s")
        self.bind(name, e)
        return self.ref(name)

    def weighted_seq(self):
        # Options over a *list* of (tuple) options is the uniform form with an explicit list argument
        self.budget -= 1
        k = self.rng.choice([2, 3])
        opts = self.options_list("seq", k)
        idx = self.t.add("selector", k)
        i = self.t.add("mux", idx, [o["id"] for o in opts])
        self.features.add("Options-list")
        return dict(text="Options([" + ", ".join(o["text"] for o in opts) + "])", id=i, kind="seq", dist=True,
                    prim=("mux-u", [o["id"] for o in opts]))

    def nt_name(self):
        n = self.pick_name("nt", True)
        if n and self.rng.random() < 0.6:
            return self.ref(n)
        e = self.uniform("nt")
        name = self.fresh("n")
        self.bind(name, e)
        return self.ref(name)

    # ---- statements
    def bind(self, name, e):
        self.lines.append(f"{name} = {e['text']}")
        self.names[name] = dict(id=e["id"], kind=e["kind"], dist=e["dist"], prim=e["prim"])

    def bool_expr(self, depth=1):
        """requirement condition over the *current* bindings: (text, rexpr)"""
        r = self.rng.random()
        if depth > 0 and r < 0.3:
            a, b = self.bool_expr(depth - 1), self.bool_expr(depth - 1)
            k = self.rng.choice(["and", "or", "implies"])
            self.features.add("req-" + k)
            return f"({a[0]}) {k} ({b[0]})", ("op", k, [a[1], b[1]])
        if depth > 0 and r < 0.38:
            a = self.bool_expr(depth - 1)
            self.features.add("req-not")
            return f"not ({a[0]})", ("op", "not", [a[1]])

        def operand():
            k = self.rng.random()
            n = self.pick_name("num", True)
            if self.objects and k < 0.2:
                oname, props = self.rng.choice(self.objects)
                pr = self.rng.choice(sorted(x for x in props if x != "_coords"))
                self.features.add("req-object-property")
                if pr == "position":
                    ax = self.rng.choice([0, 1])
                    return f"{oname}.position.{'xyz'[ax]}", ("ref", props["_coords"][ax])
                return f"{oname}.{pr}", ("ref", props[pr])
            if n and k < 0.75:
                return n, ("ref", self.names[n]["id"])
            if k < 0.85:
                s = self.pick_name("seq", True)
                if s:
                    return f"{s}[0]", ("op", "getitem", [("ref", self.names[s]["id"]), ("const", 0)])
            c = self.rng.randint(0, 5)
            return str(c), ("const", c)
        a, b = operand(), operand()
        if a[1][0] == "const" and b[1][0] == "const":
            n = self.pick_name("num", True)
            if n:
                a = (n, ("ref", self.names[n]["id"]))
        if self.rng.random() < 0.3:
            c = operand()
            sym, name = self.rng.choice([("+", "add"), ("-", "sub"), ("*", "mul")])
            a = (f"{a[0]} {sym} {c[0]}", ("op", name, [a[1], c[1]]))
        sym, name = self.rng.choice([("<", "lt"), ("<=", "le"), (">", "gt"), (">=", "ge"), ("==", "eq"), ("!=", "ne")])
        return f"{a[0]} {sym} {b[0]}", ("op", name, [a[1], b[1]])

    def add_object(self, k, collide_with=None):
        name = "ego" if k == 0 else f"ob{k}"
        props = {}
        if collide_with is None:
            x = self.num_expr(1)
            if self.rng.random() < 0.5:
                y = self.num_atom()
                ytext = f"({y['text']} + {100 * k})"
                yid = self.t.add("op", "add", [(False, y["id"]), (False, self.t.const(100 * k))])
            else:
                ytext, yid = str(100 * k), self.t.const(100 * k)
            xtext, xid = x["text"], x["id"]
            extra = ", with allowCollisions True" if self.rng.random() < 0.3 else ""
        else:
            # unit cubes on a coarse grid: they intersect iff their positions coincide
            self.budget -= 1
            xs = self.uniform_consts([0, 5, 10][: self.rng.choice([2, 3])])
            xtext, xid = xs["text"], xs["id"]
            ytext, yid = "0", self.t.const(0)
            extra = ""
        zid = self.t.const(0)
        if self.mode2D:
            pos = f"({xtext}, {ytext})" if self.rng.random() < 0.5 else f"({xtext}) @ ({ytext})"
        else:
            pos = f"({xtext}, {ytext}, 0)"
        pid = self.t.add("op", "tuple", [(False, xid), (False, yid), (False, zid)])
        props["position"] = pid
        props["_coords"] = (xid, yid, zid)
        text = f"{name} = new Object at {pos}"
        if self.rng.random() < 0.6:
            e = self.num_expr(1) if self.rng.random() < 0.6 else self.num_atom()
            text += f", with foo {e['text']}"
            props["foo"] = e["id"]
        if self.mode2D and k > 0:
            extra += ", with requireVisible False"
        self.lines.append(text + extra)
        self.objects.append((name, props))
        self.features.add("object")
        for pr, i in props.items():
            if pr != "_coords":
                self.t.outputs.append((f"o{k}:{pr}", i))
        return xid, bool(extra)

    def uniform_consts(self, vals):
        idx = self.t.add("selector", len(vals))
        i = self.t.add("mux", idx, [self.t.const(v) for v in vals])
        return dict(text="Uniform(" + ", ".join(map(str, vals)) + ")", id=i, kind="num", dist=True, prim=None)

    def build(self):
        rng = self.rng
        nstm = rng.randint(2, 5)
        nparam = 0
        nreq = 0
        nobj = rng.choice([0, 0, 1, 1, 2])
        collide = nobj == 2 and rng.random() < 0.5
        pending_objs = list(range(nobj))
        soft_left = 2

        def stmt_require():
            nonlocal nreq, soft_left
            if not self.pick_name("num", True):
                return
            txt, e = self.bool_expr(1)
            if rng.random() < 0.45 and soft_left > 0:
                soft_left -= 1
                p = rng.choice([0.25, 0.5, 0.75, 0.125, 0.3, 0.9, 1, 0])
                self.lines.append(f"require[{p!r}] {txt}")
                self.t.reqs.append((Fraction(p), e))
                self.features.add("soft-requirement")
            else:
                self.lines.append(f"require {txt}")
                self.t.reqs.append((Fraction(1), e))
                self.features.add("hard-requirement")
            nreq += 1

        for si in range(nstm):
            name = self.fresh()
            if rng.random() < 0.25 and self.names:
                old = self.pick_name("num")
                if old:
                    name = old   # rebind an existing name (earlier requirements keep the old binding)
                    self.features.add("rebinding")
            e = self.num_expr(2)
            self.bind(name, e)
            if rng.random() < 0.35 and nreq < 3:
                stmt_require()
                if rng.random() < 0.5:
                    old = self.pick_name("num", True)
                    if old:
                        self.features.add("rebinding-after-require")
                        self.bind(old, self.num_expr(1))
            if pending_objs and rng.random() < 0.4:
                k = pending_objs.pop(0)
                self.place_object(k, collide)
            if rng.random() < 0.5:
                self.add_param(nparam)
                nparam += 1
        for k in pending_objs:
            self.place_object(k, collide)
        if nreq == 0 or rng.random() < 0.3:
            stmt_require()
        if nparam == 0 or rng.random() < 0.4:
            self.add_param(nparam)
            nparam += 1
        if rng.random() < 0.25:  # an unused, possibly empty range: never sampled, hence never a rejection
            self.lines.append(f"unused{self.counter} = DiscreteRange(3, {rng.choice([1, 2, 4])})")
            self.t.add("drange", self.t.const(3), self.t.const(1))
            self.features.add("unused-value")
        return "\n".join(self.lines) + "\n", self.t

    def place_object(self, k, collide):
        if collide:
            xid, _ = self.add_object(k, collide_with=True)
            if k == 1:
                x0 = self.objects[0][1]["_coords"][0]
                # default requirement of the scenario: the two (collidable) objects do not intersect
                self.t.defaults.append(("op", "ne", [("ref", x0), ("ref", xid)]))
                self.features.add("default-collision-requirement")
        else:
            self.add_object(k)

    def add_param(self, k):
        r = self.rng.random()
        names = [n for n in self.names]
        if names and self.rng.random() < 0.05:
            picks = [self.rng.choice(names) for _ in range(self.rng.randint(1, 2))]
            items = [(f"k{j}", self.ref(n)) for j, n in enumerate(picks)]
            self.lines.append(f"param q{k} = {{" + ", ".join(f"'{key}': {it['text']}" for key, it in items) + "}")
            pairs = [self.t.add("op", "tuple", [(False, self.t.const(key)), (False, it["id"])]) for key, it in items]
            self.t.outputs.append((f"p:q{k}", self.t.add("op", "tuple", [(False, p) for p in pairs])))
            self.features.add("dict-param")
            return
        if r < 0.45 and names:
            n = self.rng.choice(names)
            self.lines.append(f"param q{k} = {n}")
            self.t.outputs.append((f"p:q{k}", self.names[n]["id"]))
        elif r < 0.8 and names:
            picks = [self.rng.choice(names) for _ in range(self.rng.randint(2, 3))]
            as_list = self.rng.random() < 0.3
            items = [self.ref(n) for n in picks]
            if self.rng.random() < 0.4:
                items.append(self.const_int())
            text = ", ".join(i["text"] for i in items)
            self.lines.append(f"param q{k} = " + (f"[{text}]" if as_list else f"({text})"))
            i = self.t.add("op", "list" if as_list else "tuple", [(False, x["id"]) for x in items])
            self.t.outputs.append((f"p:q{k}", i))
            self.features.add("container-param")
        else:
            e = self.num_expr(1)
            self.lines.append(f"param q{k} = {e['text']}")
            self.t.outputs.append((f"p:q{k}", e["id"]))


# =========================================================================== corpus of tiny programs (run first)
def _corpus():
    """(name, code, mode2D, term) — one feature each, so that a broken feature yields a readable failing input"""
    out = []

    def T(build):
        t = Term()
        build(t)
        return t

    def c1(t):
        lo, hi = t.const(1), t.const(3)
        x = t.add("drange", lo, hi)
        t.outputs.append(("p:a", x))
    out.append(("drange", "param a = DiscreteRange(1, 3)\n", False, T(c1)))

    def c2(t):
        x = t.add("drange", t.const(0.5), t.const(2.5))
        y = t.add("drange", t.const(-1.5), t.const(0))
        t.outputs += [("p:a", x), ("p:b", y)]
    out.append(("drange-fractional", "param a = DiscreteRange(0.5, 2.5)\nparam b = DiscreteRange(-1.5, 0)\n", False, T(c2)))

    def c3(t):
        x = t.add("drange", t.const(1), t.const(3))
        y = t.add("drange", x, t.const(2))
        t.outputs += [("p:a", y)]
    out.append(("drange-empty", "x = DiscreteRange(1, 3)\nparam a = DiscreteRange(x, 2)\n", False, T(c3)))

    def c4(t):
        x = t.add("drange", t.const(1), t.const(2))
        tup = t.add("op", "tuple", [(False, x), (False, x)])
        s = t.add("op", "add", [(False, x), (False, x)])
        t.outputs += [("p:a", tup), ("p:b", s)]
    out.append(("shared", "x = DiscreteRange(1, 2)\nparam a = (x, x)\nparam b = x + x\n", False, T(c4)))

    def c5(t):
        idx = t.add("selector", 3)
        m = t.add("mux", idx, [t.const(10), t.const(20), t.const(30)])
        t.outputs += [("p:a", m)]
    out.append(("uniform", "param a = Uniform(10, 20, 30)\n", False, T(c5)))

    def c6(t):
        idx = t.add("windex", [Fraction(1), Fraction(3)])
        m = t.add("mux", idx, [t.const(1), t.const(2)])
        t.outputs += [("p:a", m)]
    out.append(("options-weighted", "param a = Options({1: 1, 5: 0, 2: 3})\n", False, T(c6)))

    def c7(t):
        x = t.add("drange", t.const(1), t.const(2))
        y = t.add("drange", t.const(1), t.const(2))
        tup = t.add("op", "tuple", [(False, x), (False, y)])
        t.outputs += [("p:a", tup)]
    out.append(("resample", "x = DiscreteRange(1, 2)\nparam a = (x, resample(x))\n", False, T(c7)))

    def c8(t):
        x = t.add("drange", t.const(1), t.const(4))
        t.outputs += [("p:a", x)]
        t.reqs.append((Fraction(1, 4), ("op", "gt", [("ref", x), ("const", 1)])))
        t.reqs.append((Fraction(1), ("op", "lt", [("ref", x), ("const", 4)])))
    out.append(("soft-and-hard", "x = DiscreteRange(1, 4)\nparam a = x\nrequire[0.25] x > 1\nrequire x < 4\n", False, T(c8)))

    def c9(t):
        x = t.add("drange", t.const(1), t.const(3))
        x2 = t.add("drange", t.const(5), t.const(6))
        t.outputs += [("p:a", x2)]
        t.reqs.append((Fraction(1), ("op", "gt", [("ref", x), ("const", 1)])))
    out.append(("rebinding", "x = DiscreteRange(1, 3)\nrequire x > 1\nx = DiscreteRange(5, 6)\nparam a = x\n", False, T(c9)))

    def c10(t):
        idx = t.add("selector", 2)
        s = t.add("mux", idx, [t.const((1, 2)), t.const((3, 4, 5))])
        ln = t.add("op", "len", [(False, s)])
        acc = t.add("op", "add", [(False, t.const(0)), (False, ln)])
        sel = t.add("dynsel", acc)
        u = t.add("ustar", sel, [(True, s)])
        m = t.add("op", "max", [(True, s)])
        t.outputs += [("p:a", u), ("p:b", m)]
    out.append(("star", "s = Uniform((1, 2), (3, 4, 5))\nparam a = Uniform(*s)\nparam b = max(*s)\n", False, T(c10)))

    def c11(t):
        x = t.add("drange", t.const(1), t.const(2))
        idx = t.add("selector", 2)
        y = t.add("mux", idx, [t.const(0), t.const(5)])
        z = t.const(0)
        pos = t.add("op", "tuple", [(False, y), (False, z), (False, z)])
        t.outputs += [("o0:position", pos), ("o0:foo", x)]
        t.reqs.append((Fraction(1, 2), ("op", "gt", [("op", "add", [("ref", y), ("ref", x)]), ("const", 1)])))
    code11 = "x = DiscreteRange(1, 2)\nego = new Object at (Uniform(0, 5), 0, 0), with foo x\nrequire[0.5] ego.position.x + ego.foo > 1\n"
    out.append(("object", code11, False, T(c11)))

    def c12(t):
        i1 = t.add("selector", 2)
        a = t.add("mux", i1, [t.const(0), t.const(5)])
        i2 = t.add("selector", 3)
        b = t.add("mux", i2, [t.const(0), t.const(5), t.const(10)])
        z = t.const(0)
        t.outputs += [("o0:position", t.add("op", "tuple", [(False, a), (False, z), (False, z)])),
                      ("o1:position", t.add("op", "tuple", [(False, b), (False, z), (False, z)]))]
        t.defaults.append(("op", "ne", [("ref", a), ("ref", b)]))
    code12 = "ego = new Object at (Uniform(0, 5), 0)\nob1 = new Object at (Uniform(0, 5, 10), 0), with requireVisible False\n"
    out.append(("collision-2d", code12, True, T(c12)))

    def c13(t):
        x = t.add("drange", t.const(0), t.const(3))
        h = t.add("op", "truediv", [(False, x), (False, t.const(2))])
        d = t.add("drange", h, t.add("op", "add", [(False, x), (False, t.const(0.5))]))
        fl = t.add("op", "floordiv", [(False, t.const(7)), (False, t.add("op", "add", [(False, x), (False, t.const(2))]))])
        t.outputs += [("p:a", t.add("op", "list", [(False, d), (False, fl), (False, t.add("op", "neg", [(False, x)]))]))]
    out.append(("lifted", "x = DiscreteRange(0, 3)\nparam a = [DiscreteRange(x / 2, x + 0.5), 7 // (x + 2), -x]\n", False, T(c13)))

    def c14(t):
        x = t.add("drange", t.const(1), t.const(2))
        inner = t.add("op", "tuple", [(False, x), (False, t.const(3))])
        pa = t.add("op", "tuple", [(False, t.const("a")), (False, x)])
        pb = t.add("op", "tuple", [(False, t.const("b")), (False, inner)])
        t.outputs += [("p:d", t.add("op", "tuple", [(False, pa), (False, pb)]))]
    out.append(("dict-container", "x = DiscreteRange(1, 2)\nparam d = {'a': x, 'b': (x, 3)}\n", False, T(c14)))

    def c15(t):   # a root that was already sampled as a dependency of an earlier root
        x = t.add("drange", t.const(1), t.const(2))
        b = t.add("op", "add", [(False, x), (False, t.const(1))])
        t.outputs += [("p:b", b), ("p:a", x)]
    out.append(("root-after-dependent", "x = DiscreteRange(1, 2)\nparam b = x + 1\nparam a = x\n", False, T(c15)))

    def c16(t):   # resample of a weighted choice keeps the weights and the options, draws a fresh selector
        o1, o2 = t.const(1), t.const(2)
        m1 = t.add("mux", t.add("windex", [Fraction(1), Fraction(3)]), [o1, o2])
        m2 = t.add("mux", t.add("windex", [Fraction(1), Fraction(3)]), [o1, o2])
        t.outputs += [("p:a", t.add("op", "tuple", [(False, m1), (False, m2)]))]
    out.append(("resample-weighted", "y = Options({1: 1, 2: 3})\nparam a = (y, resample(y))\n", False, T(c16)))

    def c17(t):   # resample of a star-uniform: same option list, fresh selector
        s = t.add("mux", t.add("selector", 2), [t.const((1, 2)), t.const((3, 4, 5))])

        def star():
            ln = t.add("op", "len", [(False, s)])
            acc = t.add("op", "add", [(False, t.const(0)), (False, ln)])
            return t.add("ustar", t.add("dynsel", acc), [(True, s)])
        u1, u2 = star(), star()
        t.outputs += [("p:a", t.add("op", "tuple", [(False, u1), (False, u2)]))]
    out.append(("resample-star", "s = Uniform((1, 2), (3, 4, 5))\nu = Uniform(*s)\nparam a = (u, resample(u))\n",
                False, T(c17)))

    def c18(t):   # reflected, non-commutative operators; resample of a range with dependent bounds
        x = t.add("drange", t.const(1), t.const(3))
        a = t.add("op", "sub", [(False, t.const(5)), (False, x)])
        hi = t.add("op", "add", [(False, x), (False, t.const(1))])
        r1 = t.add("drange", x, hi)
        r2 = t.add("drange", x, hi)
        t.outputs += [("p:a", a), ("p:b", t.add("op", "tuple", [(False, r1), (False, r2)]))]
    out.append(("reflected-and-resample-range",
                "x = DiscreteRange(1, 3)\nparam a = 5 - x\nr = DiscreteRange(x, x + 1)\nparam b = (r, resample(r))\n",
                False, T(c18)))

    def c19(t):   # two soft requirements and a hard one that often fails: activation once per scene, not per attempt
        x = t.add("drange", t.const(1), t.const(3))
        t.outputs += [("p:a", x)]
        t.reqs.append((Fraction(1, 2), ("op", "gt", [("ref", x), ("const", 1)])))
        t.reqs.append((Fraction(1, 4), ("op", "lt", [("ref", x), ("const", 3)])))
        t.reqs.append((Fraction(1), ("op", "ne", [("ref", x), ("const", 2)])))
    out.append(("two-soft", "x = DiscreteRange(1, 3)\nparam a = x\nrequire[0.5] x > 1\nrequire[0.25] x < 3\nrequire x != 2\n",
                False, T(c19)))
    return out


# =========================================================================== one case, evaluated in a worker
def choose_n(npaths, r_nonzero):
    if not r_nonzero:
        return 1
    if npaths <= 12:
        return 3
    if npaths <= 60:
        return 2
    return 1


def make_case(seed):
    """generate one program from its seed (deterministic), bounded in RNG paths"""
    rng = random.Random(seed)
    for _attempt in range(200):
        mode2D = rng.random() < 0.3
        g = ProgGen(rng, mode2D=mode2D, budget=rng.choice([3, 5, 8]))
        code, term = g.build()
        try:
            prior, npaths = spec_prior(term, limit=4 * MAX_PATHS)
        except (Crash, OutsideFragment):
            continue
        nsoft = sum(1 for p, _ in term.reqs if 0 < p < 1)
        if term.n_random() == 0 or npaths * (2 ** nsoft) > MAX_PATHS * 0.6:
            continue
        return dict(name=f"seed{seed}", code=code, mode2D=mode2D, term=term, features=sorted(g.features), npaths=npaths)
    raise Infra("program generator could not produce a program within bounds")


def examine(case):
    """compile the program, enumerate the real sampler, re-derive the term from the compiled scenario, evaluate the
    declarative semantics.  Returns only picklable data."""
    term = case["term"]
    labels = [l for l, _ in term.outputs]
    res = dict(name=case["name"], code=case["code"], mode2D=case["mode2D"], labels=labels,
               features=case.get("features", []), genline=term.line(), nrandom=term.n_random())
    try:
        spec1 = spec_pmf(term, 1)
    except (Crash, OutsideFragment) as e:
        res["status"] = f"generator-invalid:{e}"
        return res
    rej = sum(p for k, p in spec1.items() if k.endswith("|rej"))
    npaths = case.get("npaths") or spec_prior(term)[1]
    n = choose_n(npaths * 2 ** len([1 for p, _ in term.reqs if 0 < p < 1]), rej != 0)
    res["n"] = n
    res["spec"] = spec_pmf(term, n) if n > 1 else spec1
    try:
        sc = compile_program(case["code"], case["mode2D"])
    except Exception as e:
        res["status"] = f"compile-failed:{type(e).__name__}:{str(e)[:200]}"
        return res
    try:
        res["real"], res["paths"] = real_pmf(sc, labels, n, max_paths=4 * MAX_PATHS)
    except OutsideFragment as e:
        res["status"] = f"outside-fragment:{e}"
        return res
    try:
        ext = extract_term(sc, labels)
        res["extline"] = ext.line()
        res["ext_nrandom"] = ext.n_random()
    except OutsideFragment as e:
        res["extline"] = None
        res["extract_error"] = str(e)
    res["status"] = "ok"
    return res


def _worker(arg):
    kind, payload = arg
    try:
        case = make_case(payload) if kind == "seed" else payload
        return examine(case)
    except Infra as e:
        return dict(name=str(payload)[:40], status=f"infra:{e}")


def parse_pmf(line):
    out = {}
    if line.strip() == "":
        return out
    for ent in line.split(" "):
        k, _, w = ent.rpartition("#")
        out[k] = Fraction(w)
    return out


def classify_diff(a, b):
    """which part of the PMF differs (stable key for the finding)"""
    keys = sorted(set(a) | set(b))
    diff = [k for k in keys if a.get(k, 0) != b.get(k, 0)]
    if not diff:
        return None, []
    if any("<unsampled-in-dict:" in k for k in diff):
        cls = "unsampled-in-dict"
    elif any(k.startswith("crash") for k in diff):
        cls = "crash"
    else:
        def act_mass(d):
            m = collections.Counter()
            for k, p in d.items():
                m[k.split("|")[0]] += p
            return m
        if act_mass(a) != act_mass(b):
            cls = "soft-activation"
        elif all(k.endswith("|rej") or k.split("|")[1] != "1" for k in diff):
            cls = "iterations"
        else:
            sa = {k.split("|", 2)[2] for k in a if not k.endswith("|rej")}
            sb = {k.split("|", 2)[2] for k in b if not k.endswith("|rej")}
            cls = "support" if sa != sb else "probability"
    return cls, diff


def run_cases(ctx, cases, pool, deadline=None):
    """cases: list of ('seed', s) / ('case', dict).  Returns True when a failing input was found on the real code.
    Results are taken in submission order until `deadline` (seconds since the start of the run) has passed."""
    found = False
    results = []
    it = pool.imap(_worker, cases, chunksize=1) if pool else map(_worker, cases)
    for r in it:
        results.append(r)
        if deadline is not None and ctx.elapsed() > deadline and len(results) < len(cases):
            ctx.notes.append(f"time budget reached: {len(results)} of {len(cases)} generated programs examined")
            break
    lines, owners = [], []
    for r in results:
        st = r.get("status", "?")
        if st.startswith("infra:"):
            raise Infra(st)
        ctx.hist("program", st.split(":")[0] if st != "ok" else "ok")
        if st != "ok":
            if st.startswith("compile-failed"):
                # programs are valid by construction: Scenic refusing to compile one is a failing input
                rep = dict(kind="program", name=r["name"], code=r["code"], mode2D=r["mode2D"], n=r.get("n", 1),
                           labels=r["labels"], genline=r["genline"])
                what = (f"program {r['name']} of the finite-discrete fragment cannot be compiled ({st[15:]}); "
                        f"program:\n{r['code']}")
                if ctx.violation("exact-pmf:crash", what, rep):
                    found = True
                ctx.hist("direct_oracle", "DIFF:compile")
            elif st.startswith("generator-invalid"):
                ctx.notes.append(f"{r['name']}: {st}") if len(ctx.notes) < 10 else None
            continue
        for f in r["features"]:
            ctx.hist("feature", f)
        ctx.hist("paths", min(10 ** len(str(r["paths"])), 10000))
        ctx.hist("maxIterations", r["n"])
        ctx.hist("random_nodes", r["nrandom"])
        ctx.hist("mode", "2D" if r["mode2D"] else "3D")
        ctx.case((r["code"], r["mode2D"], r["n"]), nontrivial=len(r["real"]) > 2)
        ctx.evaluations += r["paths"] - 1
        lines.append(f"C01 gen {r['n']} {r['genline']}")
        owners.append((r, "gen"))
        lines.append(f"C01 spec {r['n']} {r['genline']}")
        owners.append((r, "spec"))
        lines.append(f"C01 hyp {r['genline']}")
        owners.append((r, "hyp"))
        if r.get("extline") and r["extline"] != r["genline"]:
            lines.append(f"C01 gen {r['n']} {r['extline']}")
            owners.append((r, "ext"))
        elif not r.get("extline"):
            ctx.hist("extract", "outside:" + r.get("extract_error", "?")[:40])
    lean = ctx.driver(lines) if (lines and ctx.extra.get("driver_ok")) else [None] * len(lines)
    for (r, which), out in zip(owners, lean):
        if out is None:
            continue
        if out in ("bad-program", "bad-op"):
            raise Infra(f"Lean driver could not parse the {which} term of {r['name']}")
        if which == "hyp":
            # the main theorem speaks about this program only if its hypotheses hold for it
            ctx.hist("theorem_hypotheses", out)
            if out != "ok":
                raise Infra(f"generated program {r['name']} is outside the hypotheses of the main theorem: {out}")
            continue
        r["lean_" + which] = parse_pmf(out)
        if which == "spec":
            # the brute-force oracle (S) demands exactly what the Lean statement `specGenerate` says
            if classify_diff(r["lean_spec"], r["spec"])[0]:
                raise Infra(f"the Python declarative oracle and Lean's specGenerate disagree on {r['name']} "
                            f"(harness/model inconsistency, not a property of /repo):\n{r['code']}")
            ctx.hist("oracle_vs_lean_spec", "agree")
    for r in results:
        if r.get("status") != "ok":
            continue
        rep = dict(kind="program", name=r["name"], code=r["code"], mode2D=r["mode2D"], n=r["n"], labels=r["labels"],
                   genline=r["genline"])
        # (S) the property itself on the real code: exact PMF against the declarative semantics
        cls, diff = classify_diff(r["real"], r["spec"])
        if cls:
            k = diff[0]
            what = (f"scene generation of program {r['name']} (maxIterations={r['n']}) does not follow the program's "
                    f"conditional distribution: outcome {k!r} has probability {r['real'].get(k, 0)} on the real sampler, "
                    f"{r['spec'].get(k, 0)} under the declarative semantics ({len(diff)} outcomes differ); program:\n{r['code']}")
            if ctx.violation(f"exact-pmf:{cls}", what, rep):
                found = True
            ctx.hist("direct_oracle", f"DIFF:{cls}")
            continue   # the failing input is identified (or is a listed known finding); nothing to add from (C)
        ctx.hist("direct_oracle", "agree")
        # (C) model vs code, on the term re-derived from the compiled scenario and on the generator's term
        for which, label in (("ext", "sampler model on the compiled dependency graph vs Scenario.generate"),
                             ("gen", "sampler model on the program text's term vs Scenario.generate")):
            lp = r.get("lean_" + which)
            if lp is None and which == "ext" and r.get("extline") == r["genline"]:
                continue
            if lp is None:
                continue
            c2, d2 = classify_diff(r["real"], lp)
            if c2:
                k = d2[0]
                ctx.broken("correspondence", label,
                           f"{r['name']}: outcome {k!r}: real {r['real'].get(k, 0)} model {lp.get(k, 0)} "
                           f"({len(d2)} outcomes differ, class {c2}); program:\n{r['code']}")
                ctx.hist("correspondence", f"{which}:DIFF")
            else:
                ctx.hist("correspondence", f"{which}:agree")
        if r.get("extline") == r["genline"]:
            ctx.hist("term_isomorphism", "identical")
        elif r.get("extline"):
            ctx.hist("term_isomorphism", "same-pmf" if r.get("lean_ext") == r.get("lean_gen") else "DIFFERENT-PMF")
    return found


# =========================================================================== main
# =========================================================================== Options.__init__ vs the Lean `optBuild`
OPT_WEIGHTS = [0, 1, 2, 3, 0.5, 0.25, 0.0, 1.5, -1, -0.5, "x", None, 0, 0, 1]


def _opt_real(ws):
    """run the real `Options({DiscreteRange(i, i): w_i})`; canonical answer in the driver's output format"""
    from scenic.core.distributions import DiscreteRange, Options, RejectionException
    objs = [DiscreteRange(i, i) for i in range(len(ws))]
    ident = {id(o): i for i, o in enumerate(objs)}
    try:
        o = Options({ob: w for ob, w in zip(objs, ws)})
    except TypeError:
        return "typeError"
    except ValueError:
        return "negative"
    except RejectionException:
        return "empty"
    sel = o._dependencies[0]
    kept = [ident.get(id(x), -1) for x in o.options]
    wts = [Fraction(w) for w in (sel.weights or [])]
    c = o.clone()
    same = ([ident.get(id(x), -1) for x in c.options] == kept
            and [Fraction(w) for w in (c._dependencies[0].weights or [])] == wts and c is not o
            and c._dependencies[0] is not sel)
    deps = [ident.get(id(x), -1) for x in o._dependencies[1:]]
    fr = lambda q: f"{q.numerator}/{q.denominator}"
    return (f"ok {len(kept)} " + " ".join(map(str, kept)) + " | " + " ".join(fr(q) for q in wts)
            + " | clone=" + ("same" if same else "differs") + " | deps " + " ".join(map(str, deps)))


def _opt_spec(ws):
    """the statement of options_build_spec, directly in Python"""
    for w in ws:
        if isinstance(w, bool) or not isinstance(w, (int, float)):
            return "typeError"
        if w < 0:
            return "negative"
    kept = [(i, Fraction(w)) for i, w in enumerate(ws) if w != 0]
    if not kept:
        return "empty"
    ids = " ".join(str(i) for i, _ in kept)
    return (f"ok {len(kept)} {ids} | " + " ".join(f"{q.numerator}/{q.denominator}" for _, q in kept)
            + f" | clone=same | deps {ids}")


def options_correspondence(ctx, driver_ok):
    """(C) Lean `optBuild`/`optClone`/`optNodes` on the regenerated optCfg vs the real constructor, and (S) the real
    constructor vs the statement; structured inputs: every weight list of length <= 2 over the boundary set, then
    seeded lists of length 3..6 (zero-dense), plus malformed weights (non-numbers)."""
    import itertools
    base = [0, 1, 2, 0.5, 0.0, -1, "x"]
    cases = [list(t) for k in range(0, 3) for t in itertools.product(base, repeat=k)]
    for _ in range(ctx.budget(150, 1500)):
        k = ctx.rng.choice([3, 3, 4, 5, 6])
        cases.append([ctx.rng.choice(OPT_WEIGHTS) for _ in range(k)])
    lines = []
    for ws in cases:
        toks = []
        for i, w in enumerate(ws):
            toks += [str(i), "X" if not isinstance(w, (int, float)) else
                     f"{Fraction(w).numerator}/{Fraction(w).denominator}"]
        lines.append(f"optbuild {len(ws)} " + " ".join(toks))
    model = ctx.driver(lines) if driver_ok else [None] * len(lines)
    found = False
    for ws, line, m in zip(cases, lines, model):
        real = _opt_real(ws)
        spec = _opt_spec(ws)
        ctx.case(("options-build", repr(ws)), nontrivial=(len(ws) >= 2 and real.startswith("ok")))
        ctx.hist("options-build", real.split(" ")[0])
        if m is not None and m != real:
            ctx.broken("correspondence", "options-build", f"Options({{o_i: w_i}}) with weights {ws!r}: real `{real}`, Lean optBuild `{m}`")
        if real != spec:
            cls = real.split(" ")[0] + "-for-" + spec.split(" ")[0]
            if "clone=differs" in real:
                cls = "clone"
            if ctx.violation(f"options-build:{cls}",
                             f"Options({{o_0: w_0, ...}}) with weights {ws!r} builds `{real}`; the property needs `{spec}` "
                             "(exactly the zero-weight options dropped, weights kept in order, clone identical)",
                             dict(kind="options", weights=[w if isinstance(w, (int, float)) else repr(w) for w in ws],
                                  real=real, expected=spec)):
                found = True
                break
    return found


def run(ctx):
    ctx.rule = ("case = (program of the finite-discrete fragment, 2D/3D mode, maxIterations); for each the exact PMF of "
                "Scenario.generate over (active soft requirements, canonical scene, iterations) is obtained by "
                "enumerating every outcome of random.*; non-trivial = more than two distinct outcomes; distinct by "
                "content hash of (text, mode, maxIterations); evaluations counts RNG paths")
    ctx.assumptions += [
        "CPython's random is idealised: randint uniform, choices proportional to weights, random() a real uniform on "
        "[0,1) (so `<=` vs `<` against a probability is not distinguished)",
        "only the finite-discrete fragment is covered (DiscreteRange, Uniform/Options/Discrete, lifted operators, "
        "attributes, calls, containers, star-unpacking, resample, hard/soft requirements, objects, params, 2D/3D); "
        "continuous distributions are outside",
        "object collisions enter only for unrotated unit cubes whose positions coincide or are >= 5 apart",
    ]
    ctx.trusted_base += ["tools/translate/sampler.py (template extraction)",
                         "tools/props/c01.py: RNG-branch enumerator, term extraction from the compiled scenario, "
                         "declarative brute-force semantics (direct oracle)"]
    ctx.fingerprint(FINGERPRINTS)
    from translate import sampler as tr
    cfgdata = None
    try:
        cfgdata = tr.extract()
        ctx.gen("SamplerCfg", tr.to_lean(cfgdata))
    except TemplateMismatch as e:
        ctx.escalated.append(f"translator tie lost (sampler): {e}")
        ctx.notes.append(f"translator tie lost: {e}; the model runs with its reference configuration and the tie "
                         "rests on the correspondence run at thorough budget")
        ctx.gen("SamplerCfg", tr.to_lean(tr.REFERENCE))
    try:
        ctx.gen("SamplerOptCfg", tr.to_lean_opt(tr.extract_opt()))
    except TemplateMismatch as e:
        ctx.escalated.append(f"translator tie lost (Options.__init__): {e}")
        ctx.notes.append(f"translator tie lost: {e}; the model of Options.__init__ runs with its reference configuration "
                         "and the tie rests on the options-build correspondence")
        ctx.gen("SamplerOptCfg", tr.to_lean_opt(tr.OPT_REFERENCE))
    phases = {"translate": round(ctx.elapsed(), 1)}
    pr = ctx.prove(THEOREMS, side_conditions=SIDE)
    phases["prove"] = round(ctx.elapsed(), 1)
    if ctx.tier == "thorough" and pr.build_ok:
        ctx.leanchecker(["ScenicModel.Props.C01"])
        phases["leanchecker"] = round(ctx.elapsed(), 1)
    ctx.extra["phase_end_s"] = phases
    # the driver does not depend on the theorem modules: it can still be built when a proof obligation broke
    ctx.extra["driver_ok"] = bool(pr.build_ok) or ctx.lake(["build", "drv_c01"])[0] == 0
    import gc
    import multiprocessing as mp
    for v in ("OMP_NUM_THREADS", "OPENBLAS_NUM_THREADS", "MKL_NUM_THREADS"):
        os.environ.setdefault(v, "1")
    import scenic  # noqa: F401  (imported before forking the workers)
    nprog = ctx.budget(60, 1500)
    seeds = [ctx.rng.getrandbits(48) for _ in range(nprog)]
    nproc = max(1, min(12 if (ctx.tier == "thorough" or ctx.escalated) else 6, (os.cpu_count() or 2) - 2))
    if os.environ.get("VERIF_C01_PROCS"):
        nproc = max(1, int(os.environ["VERIF_C01_PROCS"]))
    # warm up everything Scenic initialises lazily, then freeze the heap so that the forked workers share it
    _worker(("case", dict(name="warmup", code="ego = new Object at (Uniform(0, 5), 0, 0)\nparam a = DiscreteRange(1, 2)\n",
                          mode2D=False, term=_corpus()[0][3])))
    gc.collect()
    gc.freeze()
    phases["warmup"] = round(ctx.elapsed(), 1)
    found = False
    found |= options_correspondence(ctx, ctx.extra["driver_ok"])
    phases["options-build"] = round(ctx.elapsed(), 1)
    deadline = 1500 if (ctx.tier == "thorough" or ctx.escalated) else 130
    with mp.get_context("fork").Pool(nproc) as pool:
        corpus = [("case", dict(name="corpus:" + nm, code=code, mode2D=m2, term=t)) for nm, code, m2, t in _corpus()]
        found |= run_cases(ctx, corpus, pool)
        phases["corpus"] = round(ctx.elapsed(), 1)
        if ctx.tier == "quick" and not ctx.escalated:
            deadline = max(deadline, ctx.elapsed() + 40)   # on a saturated machine still look at some programs
        if not found:
            step = 200
            for k in range(0, len(seeds), step):
                found |= run_cases(ctx, [("seed", s) for s in seeds[k:k + step]], pool, deadline)
                if found or ctx.elapsed() > deadline:
                    break
    phases["programs"] = round(ctx.elapsed(), 1)
    ok = ctx.hists["program"].get("ok", 0)
    if ok < max(10, 0.5 * (len(_corpus()))):
        raise Infra(f"only {ok} programs could be examined (generator or enumerator broken?): {dict(ctx.hists['program'])}")
    ctx.resolve_brokens(found)


def replay(ctx, path):
    body = json.load(open(path))
    rep = body.get("replay", body)
    if rep.get("kind") != "program":
        print(json.dumps(rep, indent=1)[:4000])
        return 0
    print(f"program ({'2D' if rep['mode2D'] else '3D'} mode, maxIterations={rep['n']}):\n{rep['code']}")
    sc = compile_program(rep["code"], rep["mode2D"])
    real, paths = real_pmf(sc, rep["labels"], rep["n"], max_paths=8 * MAX_PATHS)
    print(f"real sampler: {paths} RNG paths, {len(real)} outcomes")
    # the declarative semantics needs the term: re-read it from the recorded line via the corpus / generator
    term = term_from_line(rep["genline"])
    spec = spec_pmf(term, rep["n"])
    cls, diff = classify_diff(real, spec)
    if not cls:
        print("real PMF == declarative PMF (no violation on this tree)")
        return 0
    print(f"PMFs differ ({cls}); outcome: real / declarative")
    for k in diff[:40]:
        print(f"  {k}: {real.get(k, 0)} / {spec.get(k, 0)}")
    return 1


def term_from_line(line):
    """inverse of Term.line (used by replay)"""
    toks = line.split(" ")
    pos = [0]

    def nxt():
        pos[0] += 1
        return toks[pos[0] - 1]

    def val():
        t = nxt()
        if t[0] == "n":
            f = Fraction(t[1:])
            return int(f) if f.denominator == 1 else float(f)
        if t[0] == "b":
            return t[1] == "T"
        if t[0] == "s":
            return "" if t[1:] == "-" else bytes.fromhex(t[1:]).decode()
        if t[0] == "t":
            return tuple(val() for _ in range(int(t[1:])))
        if t[0] == "l":
            return [val() for _ in range(int(t[1:]))]
        if t == "N":
            return None
        raise ValueError(t)

    def arg():
        t = nxt()
        return (t[0] == "s", int(t[1:]))

    def rexpr():
        t = nxt()
        if t == "c":
            return ("const", val())
        if t == "o":
            name = nxt()
            k = int(nxt())
            return ("op", name, [rexpr() for _ in range(k)])
        return ("ref", int(t[1:]))
    term = Term()
    for _ in range(int(nxt())):
        k = nxt()
        if k == "C":
            term.add("const", val())
        elif k == "R":
            term.add("drange", int(nxt()), int(nxt()))
        elif k == "S":
            term.add("selector", int(nxt()))
        elif k == "D":
            term.add("dynsel", int(nxt()))
        elif k == "W":
            term.add("windex", [Fraction(nxt()) for _ in range(int(nxt()))])
        elif k == "M":
            idx = int(nxt())
            term.add("mux", idx, [int(nxt()) for _ in range(int(nxt()))])
        elif k == "U":
            sel = int(nxt())
            term.add("ustar", sel, [arg() for _ in range(int(nxt()))])
        elif k == "O":
            name = nxt()
            term.add("op", name, [arg() for _ in range(int(nxt()))])
    assert nxt() == "OUT"
    for _ in range(int(nxt())):
        lab = nxt()
        term.outputs.append((lab, int(nxt())))
    assert nxt() == "REQ"
    for _ in range(int(nxt())):
        p = Fraction(nxt())
        term.reqs.append((p, rexpr()))
    assert nxt() == "DEF"
    for _ in range(int(nxt())):
        term.defaults.append(rexpr())
    return term
