"""C14 — simulations leave scenes, scenarios and global state untouched, even on failure.

Proof:  lean/ScenicModel/Props/C14*.lean (root module Props/C14.lean)
          general (parametric in the generated configuration / tables):
            proxy_isolation, sim_scene_untouched, sim_proxies_disabled, sim_reads_unchanged, sim_reaches_endSimulation,
            sim_forgets_overrides, hist_scene_untouched, hist_reads_unchanged, overrides_reverted, overrides_reverted_nested,
            session_restores, runSimD_eq_runSim, sim_scene_untouched_destroy (+ negation witnesses of every hypothesis)
          closed, about the source as it is (side conditions re-decided on the regenerated data on every run):
            sim_leaves_no_trace_current, sim_scene_untouched_current, sim_always_ends_current, sim_proxies_disabled_current,
            hist_scene_untouched_current, hist_reads_unchanged_current, overrides_reverted(_nested)_current,
            sim_restores_globals_current, compile_restores_globals_current, sim_scene_untouched_destroy_current
        data regenerated from /repo on every run by
          translate/simcleanup.py    -> Gen/SimCleanup.lean     (finally order, agents init, destroy guarded, override merge, stop clears)
          translate/veneerglobals.py -> Gen/VeneerGlobals.lean  (who assigns / restores / resets which veneer global)
        (all side conditions, including `Props/C14SideDestroy.lean` – the rest of the finally block is protected against
        a destroy() that raises, repaired by fc314756 – hold of the source and are imported by the root module)
Tie:    (T) the two translators; (C) the Lean driver is run on the event traces of instrumented real simulations
        (overrides / proxies / clean-up model) and on operation sequences executed on the real veneer functions
        (globals model) and must predict every observation;
        (S) the property itself on the real code: failure-injection matrix (program x failure point x mode), scene
        snapshot before/after, veneer globals against a fresh process, identical follow-up run, a scene generated from
        the same compiled scenario after the simulations and a from-scratch follow-up, each against a fresh-process
        reference, override-undone oracle at every scenario end.
"""
import json
import os
import random
import sys
import time
import traceback

from vlib.ctx import Infra, TemplateMismatch

_T = "Scenic.C14."
THEOREMS = [_T + n for n in (
    "proxy_isolation", "sim_scene_untouched", "sim_proxies_disabled", "sim_reads_unchanged", "sim_reaches_endSimulation",
    "sim_forgets_overrides", "hist_scene_untouched", "hist_reads_unchanged",
    "overrides_reverted", "overrides_reverted_current", "overrides_reverted_nested", "overrides_reverted_nested_current",
    "session_restores",
    # closed theorems about the source as it is
    "sim_leaves_no_trace_current", "sim_scene_untouched_current", "sim_always_ends_current", "sim_proxies_disabled_current",
    "hist_scene_untouched_current", "hist_reads_unchanged_current",
    "sim_restores_globals_current", "compile_restores_globals_current", "sim_and_compile_restore_globals_current",
    # destroy() raising inside the finally block
    "runSimD_eq_runSim", "sim_scene_untouched_destroy", "sim_scene_untouched_destroy_current",
    "sim_destroy_failure_harmless_current", "destroy_failure_skips_cleanup", "guarded_destroy_failure_harmless",
    # negation witnesses of the hypotheses
    "revert_after_disable_changes_scene", "repaired_order_keeps_scene", "stale_overrides_change_other_scene",
    "forgetting_overrides_keeps_other_scene", "setup_failure_skips_endSimulation", "first_dict_only_loses_second_override",
    "overwrite_dict_loses_first_override", "unreset_global_leaks", "suspended_block_leaks",
)]
SIDE = [_T + n for n in (
    "gen_merge_keeps_oldest", "gen_cleanup_steps_present", "gen_model_assumptions", "gen_closers_and_cms_wf",
    "gen_reverts_before_disable", "gen_agents_initialised", "gen_stop_clears_overrides",
    "gen_sim_writes_reset", "gen_compile_writes_reset", "gen_sim_tables_wf", "gen_compile_tables_wf",
    "gen_no_suspended_blocks", "gen_destroy_guarded",
)]
# the flags of the side conditions proved in Props/C14.lean (diagnostics when that module no longer builds)
MAIN_FLAGS = ["order", "clears", "agents", "steps", "simclose", "compclose", "simwrites", "compwrites", "susp", "destroy"]

FINGERPRINTS = {
    "Simulation.__init__": ("src/scenic/core/simulators.py", "Simulation.__init__"),
    "Simulation._run": ("src/scenic/core/simulators.py", "Simulation._run"),
    "Simulation.setup": ("src/scenic/core/simulators.py", "Simulation.setup"),
    "Simulation._createObject": ("src/scenic/core/simulators.py", "Simulation._createObject"),
    "Simulation.updateObjects": ("src/scenic/core/simulators.py", "Simulation.updateObjects"),
    "Simulator._runSingleSimulation": ("src/scenic/core/simulators.py", "Simulator._runSingleSimulation"),
    "veneer.py": ("src/scenic/syntax/veneer.py", None),
    "Object.__getattribute__": ("src/scenic/core/object_types.py", "Object.__getattribute__"),
    "Object.__setattr__": ("src/scenic/core/object_types.py", "Object.__setattr__"),
    "Object.__new__": ("src/scenic/core/object_types.py", "Object.__new__"),
    "Constructible._override": ("src/scenic/core/object_types.py", "Constructible._override"),
    "Constructible._revert": ("src/scenic/core/object_types.py", "Constructible._revert"),
    "Constructible._copyWith": ("src/scenic/core/object_types.py", "Constructible._copyWith"),
    "enableDynamicProxyFor": ("src/scenic/core/object_types.py", "enableDynamicProxyFor"),
    "disableDynamicProxyFor": ("src/scenic/core/object_types.py", "disableDynamicProxyFor"),
    "DynamicScenario": ("src/scenic/core/dynamics/scenarios.py", "DynamicScenario"),
    "Invocable": ("src/scenic/core/dynamics/invocables.py", "Invocable"),
    "Behavior": ("src/scenic/core/dynamics/behaviors.py", "Behavior"),
    "PendingRequirement.compile": ("src/scenic/core/requirements.py", "PendingRequirement.compile"),
    "scenarioFromStream": ("src/scenic/syntax/translator.py", "_scenarioFromStream"),
    "compileStream": ("src/scenic/syntax/translator.py", "compileStream"),
    "purgeModulesUnsafeToCache": ("src/scenic/syntax/translator.py", "purgeModulesUnsafeToCache"),
    "Scenario.generate": ("src/scenic/core/scenarios.py", "Scenario.generate"),
}

TRACKED = ("foo", "bar", "qux")
GLOBAL_NAMES = ["Object", "OrientedPoint", "Point", "_globalParameters", "activity", "currentBehavior", "currentScenario",
                "currentSimulation", "evaluatingGuard", "evaluatingRequirement", "inInitialScenario", "loadingModel",
                "lockedModel", "lockedParameters", "mode2D", "runningScenarios", "scenarioStack", "scenarios",
                "simulatorFactory"]


# =========================================================================== helpers living in the worker processes
class Boom(Exception):
    """the injected user exception"""


class _Harness:
    def __init__(self):
        self.plan = None
        self.counts = {}
        self.fired = False

    def arm(self, plan):
        self.plan = plan
        self.counts = {}
        self.fired = False

    def hit(self, tag):
        self.counts[tag] = self.counts.get(tag, 0) + 1
        p = self.plan
        if p and p["tag"] == tag and self.counts[tag] == p["n"]:
            mode = p["mode"]
            self.fired = True
            if mode == "raise":
                raise Boom(tag)
            if mode == "false":
                return False
            if mode == "reject":
                import scenic.syntax.veneer as veneer
                if veneer.currentSimulation is not None:
                    from scenic.core.dynamics.utils import RejectSimulationException
                    raise RejectSimulationException("injected rejection at " + tag)
                from scenic.core.distributions import RejectionException
                raise RejectionException("injected rejection at " + tag)
        return True

    def val(self, tag, v):
        self.hit(tag)
        return v


def harness():
    import builtins
    h = getattr(builtins, "_c14", None)
    if h is None:
        h = _Harness()
        from scenic.core.simulators import Action

        class Bump(Action):
            def __init__(self, d):
                self.d = d

            def applyTo(self, obj, sim):
                h.hit("action")
                obj.foo = obj.foo + self.d

            def __repr__(self):
                return f"Bump({self.d})"

        h.Bump = Bump
        builtins._c14 = h
    return h


def make_simulator():
    from scenic.core.simulators import Simulation, Simulator
    from scenic.core.vectors import Vector
    h = harness()

    class InjSimulation(Simulation):
        def setup(self):
            # simulator-specific initialisation before the objects are created (as in the CARLA interface)
            h.hit("sim_setup")
            super().setup()

        def createObjectInSimulator(self, obj):
            h.hit("sim_create")
            obj.bar = obj.bar + 100          # the simulator adjusts a property of the object it creates

        def step(self):
            h.hit("sim_step")
            for obj in self.objects:
                obj.position = obj.position + Vector(0, 1, 0)

        def destroy(self):
            # tearing down the simulator side (raises e.g. when the connection to the simulator was lost)
            h.hit("sim_destroy")
            super().destroy()

        def getProperties(self, obj, properties):
            h.hit("sim_read")
            vals = dict(position=obj.position, yaw=obj.yaw, pitch=obj.pitch, roll=obj.roll,
                        velocity=Vector(0, 1, 0), angularVelocity=Vector(0, 0, 0), speed=1.0, angularSpeed=0.0)
            for p in properties:
                vals.setdefault(p, None)
            return vals

    class InjSimulator(Simulator):
        def createSimulation(self, scene, **kw):
            return InjSimulation(scene, **kw)

    return InjSimulator


# ------------------------------------------------------------------ canonical forms
def canon(v, depth=0):
    import numpy
    from scenic.core.vectors import Orientation, Vector
    if isinstance(v, (bool, int, str, type(None))):
        return repr(v)
    if isinstance(v, float):
        return repr(round(v, 9))
    if isinstance(v, (numpy.floating, numpy.integer)):
        return canon(v.item())
    if isinstance(v, Vector):
        return "V(" + ",".join(canon(float(c)) for c in v) + ")"
    if isinstance(v, Orientation):
        return "O(" + ",".join(canon(float(c)) for c in v.q) + ")"
    if isinstance(v, (tuple, list)) and depth < 4:
        return "[" + ",".join(canon(x, depth + 1) for x in v) + "]"
    if isinstance(v, dict) and depth < 4:
        return "{" + ",".join(f"{canon(k, depth + 1)}:{canon(x, depth + 1)}" for k, x in sorted(v.items(), key=lambda t: str(t[0]))) + "}"
    from scenic.core.dynamics.behaviors import Behavior
    if isinstance(v, Behavior):
        return f"<{type(v).__name__}{tuple(canon(a, depth + 1) for a in v._args)}>"
    return f"<{type(v).__name__}>"


SKIP_PROPS = {"shape", "regionContainedIn", "mutator", "_parentScenario", "sensors", "observations"}


def snap_scene(scene):
    objs = []
    for o in scene.objects:
        objs.append({p: canon(getattr(o, p)) for p in sorted(o.properties) if p not in SKIP_PROPS})
    return {"objects": objs, "params": {k: canon(v) for k, v in sorted(scene.params.items()) if not k.startswith("_")},
            "ego": scene.objects.index(scene.egoObject) if scene.egoObject in scene.objects else -1}


def snap_result(sim):
    if sim is None:
        return ["rejected"]
    r = sim.result
    idx = {id(o): i for i, o in enumerate(sim.objects)}
    return ["completed",
            [[canon(p) for p in st] for st in r.trajectory],
            [sorted((idx.get(id(k), -1), repr(v)) for k, v in a.items()) for a in r.actions],
            {k: canon(list(v) if isinstance(v, (list, tuple)) else v) for k, v in sorted(r.records.items())},
            str(r.terminationType), str(r.terminationReason)]


def abstract_global(name, v, reg):
    import scenic.syntax.veneer as veneer
    if name in ("Point", "OrientedPoint", "Object"):
        i = ("Point", "OrientedPoint", "Object").index(name)
        return "orig" if v is veneer._originalConstructibles[i] else "t99"
    if v is None:
        return "none"
    if v is False:
        return "false"
    if v is True:
        return "true"
    if isinstance(v, int) and v == 0:
        return "zero"
    if isinstance(v, (list, dict, set, tuple)) and len(v) == 0:
        return "empty"
    if isinstance(v, (list, tuple)):
        key = ("seq", tuple(id(x) for x in v))
    elif isinstance(v, dict):
        # by identity only: `param` mutates the current dictionary in place, and the same object may be saved by an open
        # executeInScenario block (a token that depended on the keys would change under the alias: false alarm)
        key = ("dict", id(v))
    elif isinstance(v, set):
        key = ("set", tuple(sorted(map(str, v))))
    elif isinstance(v, int):
        key = ("int", v)
    else:
        key = ("obj", id(v))
    if key not in reg:
        reg[key] = len(reg) + 1
        reg.setdefault("_keep", []).append(v)   # keep alive so that ids are not reused
    return f"t{reg[key]}"


def snap_globals(reg=None):
    import scenic.syntax.veneer as veneer
    reg = {} if reg is None else reg
    return {n: abstract_global(n, getattr(veneer, n), reg) for n in GLOBAL_NAMES}


IDLE = {"Object": "orig", "OrientedPoint": "orig", "Point": "orig", "_globalParameters": "empty", "activity": "zero",
        "currentBehavior": "none", "currentScenario": "none", "currentSimulation": "none", "evaluatingGuard": "false",
        "evaluatingRequirement": "false", "inInitialScenario": "true", "loadingModel": "false", "lockedModel": "none",
        "lockedParameters": "empty", "mode2D": "false", "runningScenarios": "empty", "scenarioStack": "empty",
        "scenarios": "empty", "simulatorFactory": "none"}


def heal_globals():
    """put the veneer globals back to their initial values (after a deviation has been reported)"""
    import scenic.core.object_types as ot
    import scenic.syntax.veneer as veneer
    if veneer.currentSimulation is not None:
        try:
            veneer.endSimulation(veneer.currentSimulation)
        except Exception:
            pass
    veneer.activity = 0
    veneer.currentScenario = None
    veneer.scenarioStack = []
    veneer.scenarios = []
    veneer.evaluatingRequirement = False
    veneer._globalParameters = {}
    veneer.lockedParameters = set()
    veneer.lockedModel = None
    veneer.loadingModel = False
    veneer.currentSimulation = None
    veneer.inInitialScenario = True
    veneer.runningScenarios = []
    veneer.currentBehavior = None
    veneer.simulatorFactory = None
    veneer.evaluatingGuard = False
    veneer.mode2D = False
    veneer.Point, veneer.OrientedPoint, veneer.Object = veneer._originalConstructibles
    ot.Point, ot.OrientedPoint, ot.Object = veneer._originalConstructibles


# ------------------------------------------------------------------ instrumentation (event log for the Lean model)
class Recorder:
    """Wraps the anchored methods of the real code and logs the events of the overrides/proxies model."""

    def __init__(self):
        self.installed = False
        self.active = False
        self.in_cleanup = False
        self.stop_depth = 0
        self.objs = {}       # id(obj) -> number
        self.keep = []       # the numbered objects, in order
        self.keep_scen = []
        self.scen = {}       # id(scenario) -> number
        self.tokens = []     # tokens of the current simulation (input for the driver)
        self.expect = []     # expected observation tokens
        self.agents_set = False
        self.overridden = set()   # (obj number, prop) overridden in the current simulation
        self.lifetimes = {}  # scenario number -> {"base": reads at prepare, "dirty": set of (o,p)}
        self.undone_failures = []

    # -- numbering
    def obj_no(self, obj, create=False):
        k = id(obj)
        if k not in self.objs:
            # maybe a proxy of a known object
            for o in self.keep:
                if object.__getattribute__(o, "_dynamicProxy") is obj:
                    return self.objs[id(o)]
            if not create:
                return None
            self.objs[k] = len(self.objs)
            self.keep.append(obj)
        return self.objs[k]

    def scen_no(self, sc):
        k = id(sc)
        if k not in self.scen:
            self.scen[k] = len(self.scen)
            self.keep_scen.append(sc)
        return self.scen[k]

    def tracked_vals(self, obj, raw=False):
        out = []
        for p in TRACKED:
            try:
                v = object.__getattribute__(obj, p) if raw else getattr(obj, p)
            except AttributeError:
                v = 0
            out.append(int(v) if isinstance(v, (int, float)) and not isinstance(v, bool) else 0)
        return out

    def reads(self):
        return ",".join(f"{n}.{pi}:{v}" for o in self.keep if id(o) in self.objs
                        for n in [self.objs[id(o)]] for pi, v in enumerate(self.tracked_vals(o)))

    def origs(self):
        return ",".join(f"{n}.{pi}:{v}" for o in self.keep if id(o) in self.objs
                        for n in [self.objs[id(o)]] for pi, v in enumerate(self.tracked_vals(o, raw=True)))

    @staticmethod
    def flat_saved(ov, objno):
        ent = []
        for obj, d in ov.items():
            n = objno(obj)
            for p, v in d.items():
                if p in TRACKED and n is not None:
                    ent.append((n, TRACKED.index(p), int(v)))
        return ",".join(f"{o}.{p}:{v}" for o, p, v in sorted(ent))

    # -- installation
    def install(self):
        if self.installed:
            return
        self.installed = True
        import scenic.core.object_types as ot
        import scenic.syntax.veneer as veneer
        from scenic.core.dynamics.scenarios import DynamicScenario
        from scenic.core.simulators import Simulation
        rec = self

        orig_setattr = ot.Object.__setattr__

        def obj_setattr(self_, name, value):
            if rec.active and not rec.in_cleanup and name in TRACKED:
                n = rec.obj_no(self_)
                if n is not None and isinstance(value, (int, float)) and not isinstance(value, bool):
                    pi = TRACKED.index(name)
                    rec.tokens.append(f"w:{n}:{pi}:{int(value)}")
                    for lt in rec.lifetimes.values():
                        lt["dirty"].add((n, pi))
            orig_setattr(self_, name, value)
        ot.Object.__setattr__ = obj_setattr

        orig_create = Simulation._createObject

        def create(self_, obj):
            if rec.active and not rec.in_cleanup:
                known = id(obj) in rec.objs
                n = rec.obj_no(obj, create=True)
                if known:
                    rec.tokens.append(f"c:{n}")
                else:
                    rec.tokens.append(f"n:{n}:" + ",".join(map(str, rec.tracked_vals(obj, raw=True))))
            return orig_create(self_, obj)
        Simulation._createObject = create

        orig_setup = Simulation.setup

        def setup(self_):
            rec.agents_set = True
            return orig_setup(self_)
        Simulation.setup = setup

        orig_destroy = Simulation.destroy

        def destroy(self_):
            rec.in_cleanup = True
            return orig_destroy(self_)
        Simulation.destroy = destroy

        orig_override = DynamicScenario._override

        def override(self_, obj, specifiers):
            r = orig_override(self_, obj, specifiers)
            if rec.active and not rec.in_cleanup:
                n = rec.obj_no(obj)
                s = rec.scen_no(self_)
                props = []
                for spec in specifiers:
                    for p in spec.priorities:
                        if p in TRACKED and p not in props:
                            props.append(p)
                if n is not None and props:
                    ps = ",".join(f"{TRACKED.index(p)}={int(getattr(obj, p))}" for p in props)
                    rec.tokens.append(f"v:{s}:{n}:{ps}")
                    rec.tokens.append(f"k:{s}")
                    rec.expect.append("k=" + rec.flat_saved(self_._overrides, rec.obj_no))
                    for p in props:
                        rec.overridden.add((n, TRACKED.index(p)))
                    # an override by a scenario outside the subtree of a living scenario dirties the pair for it
                    for sn, lt in rec.lifetimes.items():
                        if sn != s and sn not in lt_anc(rec, s):
                            for p in props:
                                lt["dirty"].add((n, TRACKED.index(p)))
            return r
        DynamicScenario._override = override

        def lt_anc(rec_, s):
            return rec_.lifetimes.get(s, {}).get("anc", set())

        orig_prepare = DynamicScenario._prepare

        def prepare(self_, *a, **kw):
            if rec.active and not rec.in_cleanup and veneer.currentSimulation is not None:
                s = rec.scen_no(self_)
                par = rec.scen_no(veneer.currentScenario) if veneer.currentScenario is not None else 0
                rec.tokens.append(f"p:{s}:{par}")
                anc = set(rec.lifetimes.get(par, {}).get("anc", set())) | {par}
                rec.lifetimes[s] = {"base": rec.reads(), "dirty": set(), "anc": anc, "started": False}
            return orig_prepare(self_, *a, **kw)
        DynamicScenario._prepare = prepare

        orig_start = veneer.startScenario

        def start(scenario):
            if rec.active and not rec.in_cleanup:
                s = rec.scen_no(scenario)
                rec.tokens.append(f"s:{s}")
                if s in rec.lifetimes:
                    rec.lifetimes[s]["started"] = True
            return orig_start(scenario)
        veneer.startScenario = start

        orig_stop = DynamicScenario._stop

        def stop(self_, reason, quiet=False):
            outer = rec.active and not rec.in_cleanup and rec.stop_depth == 0
            s = rec.scen_no(self_) if rec.active else None
            if outer:
                rec.tokens.append(f"x:{s}")
            rec.stop_depth += 1
            try:
                return orig_stop(self_, reason, quiet=quiet)
            finally:
                rec.stop_depth -= 1
                if outer:
                    rec.tokens.append("r")
                    now = rec.reads()
                    rec.expect.append("r=" + now)
                    lt = rec.lifetimes.pop(s, None)
                    # descendants end with it
                    for sn in [k for k, v in rec.lifetimes.items() if s in v["anc"]]:
                        d = rec.lifetimes.pop(sn)
                        if lt is not None:
                            lt["dirty"] |= d["dirty"]
                    if lt is not None and lt["started"]:
                        base = dict(t.split(":") for t in lt["base"].split(",") if t)
                        cur = dict(t.split(":") for t in now.split(",") if t)
                        for key, v0 in base.items():
                            o, p = key.split(".")
                            if (int(o), int(p)) in lt["dirty"]:
                                continue
                            if cur.get(key) != v0:
                                rec.undone_failures.append({"scenario": s, "pair": key, "before": v0, "after": cur.get(key)})
        DynamicScenario._stop = stop

    def begin_sim(self):
        self.active = True
        self.in_cleanup = False
        self.stop_depth = 0
        self.tokens = []
        self.expect = []
        self.agents_set = False
        self.overridden = set()
        self.lifetimes = {}
        self.undone_failures = []

    def end_sim(self):
        self.active = False


RECORDER = Recorder()


# =========================================================================== program generator
HEADER = """import builtins
hit = builtins._c14.hit
val = builtins._c14.val
Bump = builtins._c14.Bump
"""
CLASSDEF = """class Foo:
    foo: 0
    bar: 0
    qux: 0
    baz: Range(0, 1)
    allowCollisions: True
"""
MODEL_SRC = "import builtins\nbuiltins._c14.hit('model')\n" + CLASSDEF


def gen_program(rng, force=None):
    """A structured random program of the dynamic fragment with injection points at every kind of block.
    Returns (source, meta)."""
    k = dict(
        use_model=rng.random() < 0.2,
        depth=rng.choice([0, 1, 1, 2, 2]),
        guard_b=rng.random() < 0.5,
        guard_s=rng.random() < 0.4,
        interrupt=rng.random() < 0.6,
        monitor=rng.random() < 0.6,
        beh_override=rng.random() < 0.4,
        dyn_obj=rng.random() < 0.5,
        two_overrides=rng.random() < 0.6,
        same_prop_twice=rng.random() < 0.3,
        override_other=rng.random() < 0.4,
        pre_write=rng.random() < 0.7,
        sub_limit=rng.choice([None, 2, 3]),
        main_for=rng.choice([None, 3, 5]),
        top_override=rng.random() < 0.4,
        second_do=rng.random() < 0.5,
        other_behavior=rng.random() < 0.4,
        flat=rng.random() < 0.15,
        initial_scenario=rng.random() < 0.3,
        always=rng.random() < 0.5,
        steps=rng.choice([4, 7, 10]),
        a=rng.randint(1, 9), b=rng.randint(1, 9),
        rand_global=rng.random() < 0.5,      # behaviors read a random module-level value (re-bound per scene)
        simulator_stmt=rng.random() < 0.3,   # the program names a simulator (veneer.simulatorFactory)
        sub_record=rng.random() < 0.5,       # a sub-scenario records a value of its own
        dyn_behavior=rng.random() < 0.5,     # the object created by a sub-scenario is an agent
        soft_req=rng.random() < 0.3,
    )
    if force:
        k.update(force)
    L = [HEADER]
    L.append("model c14model\n" if k["use_model"] else CLASSDEF)
    L.append("param p = Range(0, 1)\n")
    if k["simulator_stmt"]:
        L.append("simulator None\n")
    bump = "Bump(k)"
    if k["rand_global"]:
        L.append("G = Range(0, 3)\n")
        bump = "Bump(k + int(G))"
    L.append(f"behavior Y(k):\n    while True:\n        hit('behavior')\n        take {bump}\n")
    L.append("behavior X(k):\n    self.qux = self.qux + 1\n    do Y(k)\n")
    b = ["behavior B(k):"]
    if k["guard_b"]:
        b += ["    precondition: hit('guard')", "    invariant: hit('guard')"]
    b += ["    self.bar = self.bar + k"]
    if k["interrupt"]:
        b += ["    try:", "        do Y(k) for 2 steps", "    interrupt when hit('interrupt') and self.foo > 1000:", "        wait"]
    b += ["    while True:", "        hit('behavior')", "        take Bump(k)"]
    L.append("\n".join(b) + "\n")
    if k["monitor"]:
        L.append("monitor M():\n    while True:\n        hit('monitor')\n        wait\n")
    if k["flat"]:
        m = [f"ego = new Foo at (0, 0, 0), with foo val('spec0', 0), with behavior B({k['a']})",
             "other = new Foo at (10, 0, 0)" + (f", with behavior B({k['b']})" if k["other_behavior"] else ""),
             "hit('setup0')", "require hit('req')"]
        if k["always"]:
            m.append("require always hit('req_always')")
        if k["soft_req"]:
            m.append("require[0.5] ego.baz >= 0" + (" and G >= 0" if k["rand_global"] else ""))
        m += ["record val('record', ego.foo) as rfoo", "record (ego.foo, ego.bar, ego.qux) as state",
              "record final ego.qux as fq", "terminate when hit('term') and ego.foo > 1000"]
        if k["monitor"]:
            m.append("require monitor M()")
        L.append("\n".join(m) + "\n")
        return "\n".join(L), dict(k, scenario=None)
    # sub-scenarios
    s = ["scenario Sub(k):"]
    if k["guard_s"]:
        s.append("    precondition: hit('guard')")
    s += ["    setup:", "        hit('setup')"]
    s.append("        override ego with foo val('spec', 10 * k)" + (", with qux k" if rng.random() < 0.5 else ""))
    if k["two_overrides"]:
        s.append("        override ego with bar 50 + k")
    if k["same_prop_twice"]:
        s.append("        override ego with foo 70 + k")
    if k["override_other"]:
        s.append("        oth = simulation().objects[1]")
        s.append("        override oth with foo 60 + k")
        s.append("        override oth with bar 61 + k")
    if k["beh_override"]:
        s += ["        if k == 1:", "            override ego with behavior X(k)"]
    if k["dyn_obj"]:
        s.append("        dyn = new Foo at (100 + 10 * k, 0, 0), with foo val('spec', 3)"
                 + (", with behavior Y(k)" if k["dyn_behavior"] else ""))
    if k["sub_record"]:
        s.append("        record (ego.foo, k) as sfoo")
    if k["sub_limit"]:
        s.append(f"        terminate after {k['sub_limit'] + 1} steps")
    s += ["    compose:", "        hit('compose')", "        ego.qux = 7"]
    if k["depth"] >= 2:
        s += ["        if k < 2:", "            do Sub(k + 1)" + (f" for {k['sub_limit']} steps" if k["sub_limit"] else "")]
    s += ["        wait", "        override ego with qux 30 + k" if rng.random() < 0.4 else "        wait", "        wait"]
    L.append("\n".join(s) + "\n")
    m = ["scenario Main():", "    setup:"]
    if k["initial_scenario"]:
        m += ["        if initial scenario:", f"            ego = new Foo at (0, 0, 0), with foo val('spec0', 0), with behavior B({k['a']})",
              "        else:", f"            ego = new Foo at (0, 0, 0), with foo 1, with behavior B({k['a']})"]
    else:
        m.append(f"        ego = new Foo at (0, 0, 0), with foo val('spec0', 0), with behavior B({k['a']})")
    m.append("        other = new Foo at (10, 0, 0)" + (f", with behavior B({k['b']})" if k["other_behavior"] else ""))
    m += ["        hit('setup0')", "        require hit('req')"]
    if k["always"]:
        m.append("        require always hit('req_always')")
    if k["soft_req"]:
        m.append("        require[0.5] ego.baz >= 0" + (" and G >= 0" if k["rand_global"] else ""))
    m += ["        record val('record', ego.foo) as rfoo", "        record (ego.foo, ego.bar, ego.qux) as state",
          "        record final ego.qux as fq", "        terminate when hit('term') and ego.foo > 1000"]
    if k["monitor"]:
        m.append("        require monitor M()")
    m += ["    compose:", "        hit('compose')"]
    if k["pre_write"]:
        m.append(f"        ego.foo = {k['a'] + 1}")
        m.append(f"        simulation().objects[1].qux = {k['b']}")
    if k["top_override"]:
        m.append("        wait")
        m.append("        override ego with foo 40")
    if k["depth"] >= 1:
        m.append("        do Sub(1)" + (f" for {k['main_for']} steps" if k["main_for"] else ""))
        m.append("        wait")
        if k["second_do"]:
            m.append("        do Sub(2)")
    m += ["        wait", "        wait"]
    L.append("\n".join(m) + "\n")
    return "\n".join(L), dict(k, scenario="Main")


SIM_TAGS = ["req", "req_always", "spec", "setup", "compose", "behavior", "monitor", "guard", "interrupt", "record",
            "action", "term", "sim_setup", "sim_create", "sim_step", "sim_read", "sim_destroy"]
COMPILE_TAGS = ["model", "spec0", "setup0"]
BOOL_TAGS = {"req", "req_always", "guard", "interrupt", "term"}


def gen_plan(rng, meta):
    """(phase, plan) – a failure point of the program and how it fails"""
    r = rng.random()
    if r < 0.08:
        return "none", None
    if r < 0.2:
        tags = [t for t in COMPILE_TAGS if t != "model" or meta["use_model"]]
        return "compile", {"tag": rng.choice(tags), "n": 1, "mode": "raise"}
    if r < 0.27:
        return "generate", {"tag": "req", "n": rng.choice([1, 2]), "mode": rng.choice(["raise", "false", "reject"])}
    tag = rng.choice(SIM_TAGS)
    modes = ["raise", "raise", "reject"] + (["false", "false"] if tag in BOOL_TAGS else [])
    n = rng.choice([1, 1, 2, 3, 5, 8])
    if tag in ("sim_setup", "sim_destroy"):
        n = 1
    if tag == "sim_destroy":
        modes = ["raise"]
    return "simulate", {"tag": tag, "n": n, "mode": rng.choice(modes)}


# =========================================================================== executing cases (worker side)
def _seed(s):
    import numpy
    random.seed(s)
    numpy.random.seed(s % (2 ** 32))


def _outcome(fn):
    try:
        return ["ok", fn()]
    except BaseException as e:  # noqa
        if isinstance(e, (KeyboardInterrupt, SystemExit)):
            raise
        return ["raised", type(e).__name__, str(e)[:120]]


def _compile(code, meta, moddir, params=None):
    import scenic
    if moddir and moddir not in sys.path:
        sys.path.insert(0, moddir)
    return scenic.scenarioFromString(code, scenario=meta.get("scenario"), params=dict(params or {}))


def write_model(moddir):
    os.makedirs(moddir, exist_ok=True)
    path = os.path.join(moddir, "c14model.scenic")
    if not os.path.exists(path) or open(path).read() != MODEL_SRC:
        with open(path, "w") as f:
            f.write(MODEL_SRC)


def reference(case):
    """Fresh process: compile, generate, simulate without any injected failure.  With `_late` the scene is the one
    of seed s1+1 (the scene the history generates from the same compiled scenario after its simulations)."""
    import gc
    gc.disable()
    c0 = time.process_time()
    h = harness()
    h.arm(None)
    write_model(case["moddir"])
    InjSimulator = make_simulator()
    out = {}
    try:
        sc = _compile(case["code"], case["meta"], case["moddir"], case.get("params"))
    except BaseException as e:  # generator produced an invalid program
        return {"invalid": f"{type(e).__name__}: {str(e)[:200]}"}
    _seed(case["s1"] + (1 if case.get("_late") else 0))
    try:
        scene, _ = sc.generate(maxIterations=200)
    except BaseException as e:
        return {"invalid": f"generate {type(e).__name__}: {str(e)[:200]}"}
    out["scene"] = snap_scene(scene)
    _seed(case["s2"])
    out["result"] = _outcome(lambda: snap_result(InjSimulator().simulate(scene, maxSteps=case["meta"]["steps"], maxIterations=1)))
    out["scene_after"] = snap_scene(scene)
    out["globals"] = snap_globals()
    out["cpu"] = round(time.process_time() - c0, 2)
    return out


def _diff_globals(g):
    return [n for n in GLOBAL_NAMES if g[n] != IDLE[n]]


def _scene_diff(a, b):
    out = []
    for i, (x, y) in enumerate(zip(a["objects"], b["objects"])):
        for p in sorted(set(x) | set(y)):
            if x.get(p) != y.get(p):
                out.append((i, p, x.get(p), y.get(p)))
    if len(a["objects"]) != len(b["objects"]):
        out.append((-1, "#objects", len(a["objects"]), len(b["objects"])))
    if a["params"] != b["params"]:
        out.append((-1, "params", a["params"], b["params"]))
    return out


RESULT_PARTS = ["status", "trajectory", "actions", "records", "terminationType", "terminationReason"]


def _result_component(a, b):
    """the first component in which two simulation outcomes (as returned by _outcome(snap_result)) differ"""
    if a[0] != b[0] or a[0] != "ok":
        return "outcome." + (a[1] if a[0] == "raised" else "ok")
    ra, rb = a[1], b[1]
    if ra[0] != rb[0] or ra[0] != "completed":
        return "status"
    for i in range(1, len(RESULT_PARTS)):
        if ra[i] != rb[i]:
            if RESULT_PARTS[i] == "records":
                ks = sorted(k for k in set(ra[i]) | set(rb[i]) if ra[i].get(k) != rb[i].get(k))
                return "records." + ks[0]
            return RESULT_PARTS[i]
    return "same"


def finish_cleanup(sim):
    """the statements of the finally block of Simulation.__init__ after destroy(), for a block that was cut short"""
    import scenic.syntax.veneer as veneer
    from scenic.core.object_types import disableDynamicProxyFor
    for scenario in tuple(reversed(veneer.runningScenarios)):
        scenario._stop("exception", quiet=True)
    for agent in getattr(sim, "agents", ()):
        if agent.behavior and agent.behavior._isRunning:
            agent.behavior._stop()
    for obj in sim.objects:
        disableDynamicProxyFor(obj)
    veneer.endSimulation(sim)


def run_history(hist):
    """One worker process = one history: the cases are executed one after the other in the same interpreter.
    Returns, per case, the findings of the direct oracle and the event trace for the Lean model."""
    import gc
    gc.disable()   # collections happen at fixed points only (abandoned generators are finalised deterministically)
    h = harness()
    rec = RECORDER
    rec.install()
    InjSimulator = make_simulator()
    import scenic.syntax.veneer as veneer
    from scenic.core.object_types import disableDynamicProxyFor
    results = []
    for case in hist["cases"]:
        res = {"id": case["id"], "problems": [], "lean": None, "info": {}}
        results.append(res)
        t0 = time.time()
        c0 = time.process_time()
        ptag = (case["plan"] or {}).get("tag", "-")     # identity of the failure point of this case (part of every key)

        def problem(key, what, **extra):
            res["problems"].append(dict(key=key, what=what, **extra))

        def check_globals(stage):
            """veneer globals against a fresh process; after a run also after a garbage collection (a value that
            appears only then was written by the finaliser of an abandoned generator)"""
            for phase_ in (("", "+gc") if stage.startswith("after-run") or stage in ("after-scratch", "after-late") else ("",)):
                if phase_:
                    gc.collect()
                g = snap_globals()
                bad = _diff_globals(g)
                if bad:
                    first = "currentSimulation" if "currentSimulation" in bad else bad[0]
                    problem(f"global-leak:{first}:{ptag}",
                            f"veneer globals differ from a fresh process {stage}{phase_}: "
                            + ", ".join(f"{n}={g[n]} (fresh: {IDLE[n]})" for n in bad) + f"; failure point {case['plan']}")
                    heal_globals()

        def simulate(scn):
            return snap_result(InjSimulator().simulate(scn, maxSteps=case["meta"]["steps"], maxIterations=1))

        try:
            write_model(case["moddir"])
            path0 = list(sys.path)
            params = case.get("params")
            # ---- compile phase
            h.arm(case["plan"] if case["phase"] == "compile" else None)
            comp = _outcome(lambda: _compile(case["code"], case["meta"], case["moddir"], params))
            h.arm(None)
            res["info"]["compile"] = comp[0] if comp[0] == "ok" else comp[1]
            check_globals("after-compile")
            if [p for p in sys.path if p not in path0 and p != case["moddir"]]:
                problem(f"syspath-leak:{ptag}", f"sys.path grew during compilation: {[p for p in sys.path if p not in path0]}")
            from scenic.syntax.translator import ScenicModule
            left = [n for n, m in sys.modules.items() if isinstance(m, ScenicModule) and not n.startswith("scenic.")]
            if left:
                problem(f"module-leak:{ptag}", f"Scenic modules left in sys.modules after compilation: {left}")
                for n in left:
                    del sys.modules[n]
            if comp[0] != "ok":
                if case["phase"] != "compile":
                    res["info"]["invalid"] = comp[1:]
                    continue
                comp = _outcome(lambda: _compile(case["code"], case["meta"], case["moddir"], params))
                if comp[0] != "ok":
                    problem(f"followup-differs:compile:{ptag}", f"compiling again after a failed compilation raised {comp[1:]}")
                    heal_globals()
                    continue
                check_globals("after-recompile")
            sc = comp[1]
            # ---- generate phase
            _seed(case["s1"])
            h.arm(case["plan"] if case["phase"] == "generate" else None)
            gen = _outcome(lambda: sc.generate(maxIterations=200)[0])
            h.arm(None)
            check_globals("after-generate")
            if gen[0] != "ok":
                if case["phase"] != "generate":
                    res["info"]["invalid"] = gen[1:]
                    continue
                _seed(case["s1"])
                gen = _outcome(lambda: sc.generate(maxIterations=200)[0])
                if gen[0] != "ok":
                    problem(f"followup-differs:generate:{ptag}", f"generating again after a failed generation raised {gen[1:]}")
                    continue
            elif case["phase"] == "generate":
                # generation succeeded although a requirement failed once (rejection + resampling): regenerate cleanly
                _seed(case["s1"])
                gen = _outcome(lambda: sc.generate(maxIterations=200)[0])
            scene = gen[1]
            S0 = snap_scene(scene)
            ref = case.get("ref") or {}
            if "scene" in ref and ref["scene"] != S0:
                d = _scene_diff(ref["scene"], S0)
                problem(f"followup-differs:scene:{ptag}", f"compile+generate with the same seed gives another scene than a fresh process: {d[:3]}")
            # ---- an extra scene of the same scenario (for state remembered across scenes)
            scene_b = None
            if case.get("two_scenes"):
                _seed(case["s1"] + 1)
                gb = _outcome(lambda: sc.generate(maxIterations=200)[0])
                scene_b = gb[1] if gb[0] == "ok" else None
            scenes = [scene] + ([scene_b] if scene_b is not None else [])
            snaps = [snap_scene(s) for s in scenes]
            # ---- the simulations of this case: [warm-up?, failing run on scene, clean run on scene_b?, clean rerun on scene]
            header = []
            rec.objs, rec.scen = {}, {}
            rec.keep, rec.keep_scen = [], []
            rec.scen_no(sc.dynamicScenario)
            for s in scenes:
                for o in s.objects:
                    if id(o) not in rec.objs:
                        n = rec.obj_no(o, create=True)
                        header.append(f"o:{n}:" + ",".join(map(str, rec.tracked_vals(o, raw=True))))
            lean_tokens = [str(len(TRACKED))] + header
            lean_expect = []
            lean_ok = True
            runs = []
            if case.get("warmup") and case["phase"] == "simulate":
                runs.append(("warmup", scenes[-1], None))
            runs.append(("main", scene, case["plan"] if case["phase"] == "simulate" else None))
            if scene_b is not None:
                runs.append(("other-scene", scene_b, None))
            runs.append(("rerun", scene, None))
            for label, scn, plan in runs:
                rec.begin_sim()
                _seed(case["s2"])
                h.arm(plan)
                out = _outcome(lambda: simulate(scn))
                destroy_failed = bool(plan) and plan["tag"] == "sim_destroy" and h.fired
                h.arm(None)
                rec.end_sim()
                res["info"][label] = out[0] if out[0] != "ok" else out[1][0]
                ended = veneer.currentSimulation is None

                def proxied_now():
                    return [rec.objs[id(o)] for o in rec.keep if id(o) in rec.objs and object.__getattribute__(o, "_dynamicProxy") is not o]
                proxied = proxied_now()
                lean_tokens += [f"sim:{1 if rec.agents_set else 0}:{1 if destroy_failed else 0}"] + rec.tokens
                lean_expect += rec.expect + [
                    f"e={1 if ended else 0};o={rec.origs()};x={','.join(map(str, proxied))};s={rec.flat_saved(sc.dynamicScenario._overrides, rec.obj_no)}"]
                for f in rec.undone_failures:
                    problem(f"override-not-undone:{ptag}", f"after scenario #{f['scenario']} stopped, property {f['pair']} reads {f['after']} "
                            f"instead of {f['before']} (its value before the scenario was created); run={label}")
                if not ended:
                    g = snap_globals()
                    problem(f"cleanup-aborted:{ptag}",
                            f"the finally block of Simulation.__init__ did not complete ({label} run, outcome {out[:2] if out[0] != 'ok' else out[1][0]}, "
                            f"failure point {plan}): veneer.endSimulation was not reached – veneer globals differing from a fresh process: "
                            f"{_diff_globals(g)}; objects still proxied: {proxied}; later compilations and simulations in this process fail")
                    # do what the rest of the block would have done, so that the later checks are independent
                    rec.in_cleanup = True
                    try:
                        finish_cleanup(veneer.currentSimulation)
                        lean_tokens.append("h")
                    except BaseException as e:  # noqa
                        if isinstance(e, (KeyboardInterrupt, SystemExit)):
                            raise
                        lean_ok = False
                        heal_globals()
                    proxied = proxied_now()
                if proxied:
                    problem(f"proxy-left-enabled:{ptag}", f"objects {proxied} still have a dynamic proxy after the simulation ({label})")
                    lean_ok = False
                    for o in rec.keep:
                        if id(o) in rec.objs:
                            disableDynamicProxyFor(o)
                check_globals("after-run:" + label)
                # scenes untouched?
                for si, s in enumerate(scenes):
                    now = snap_scene(s)
                    d = _scene_diff(snaps[si], now)
                    if d:
                        i, p, old, new = d[0]
                        problem(f"scene-changed:{p}:{ptag}",
                                f"object {i} property {p} of scene {si} read {old} before and {new} after the {label} run "
                                f"(outcome {out[:2] if out[0] != 'ok' else out[1][0]}, failure point {plan}); all differences: {d[:4]}")
                        # repair the scene so that later checks are independent (mirrored in the Lean trace)
                        for (i2, p2, old2, new2) in d:
                            if i2 >= 0 and p2 in TRACKED:
                                object.__setattr__(s.objects[i2], p2, int(old2))
                                lean_tokens.append(f"f:{rec.obj_no(s.objects[i2])}:{TRACKED.index(p2)}:{int(old2)}")
                        snaps[si] = snap_scene(s)
                # identical follow-up run against the fresh-process reference
                fresh_expected = (label == "rerun" and scn is scene) or (label == "main" and plan is None and not case.get("warmup"))
                if fresh_expected and "result" in ref and out != ref["result"]:
                    comp_ = _result_component(out, ref["result"])
                    problem(f"followup-differs:result:{comp_}",
                            f"simulating the scene ({label} run) with the same seed after the history of this process gives "
                            f"{json.dumps(out)[:200]} but a fresh process gives {json.dumps(ref['result'])[:200]} (first difference: {comp_})")
            if lean_ok:
                res["lean"] = {"line": "C14 hist " + " ".join(lean_tokens), "expect": " ".join(lean_expect)}
            # ---- the compiled scenario is untouched: a scene generated from it now, and its simulation, are those of a fresh process
            rl = case.get("ref_late") or {}
            if case.get("late") and "result" in rl:
                _seed(case["s1"] + 1)
                gl = _outcome(lambda: sc.generate(maxIterations=200)[0])
                if gl[0] != "ok":
                    problem(f"followup-differs:late-generate:{ptag}", f"generating from the same compiled scenario after its simulations raised {gl[1:]}")
                elif snap_scene(gl[1]) != rl["scene"]:
                    d = _scene_diff(rl["scene"], snap_scene(gl[1]))
                    problem(f"followup-differs:late-scene:{ptag}", "a scene generated from the same compiled scenario after its simulations differs "
                            f"from the scene a fresh process generates with the same seed: {d[:3]}")
                else:
                    _seed(case["s2"])
                    r3 = _outcome(lambda: simulate(gl[1]))
                    if r3 != rl["result"]:
                        comp_ = _result_component(r3, rl["result"])
                        problem(f"followup-differs:result:{comp_}",
                                f"simulating a scene generated after the history gives {json.dumps(r3)[:200]} but a fresh process gives "
                                f"{json.dumps(rl['result'])[:200]} (first difference: {comp_})")
                    if veneer.currentSimulation is not None:
                        heal_globals()
                check_globals("after-late")
                for si, s in enumerate(scenes):
                    d = _scene_diff(snaps[si], snap_scene(s))
                    if d:
                        problem(f"scene-changed:{d[0][1]}:{ptag}", f"scene {si} changed while another scene of the scenario was generated and simulated: {d[:3]}")
            # ---- from-scratch follow-up: compile + generate + simulate again in this process
            if case.get("scratch") and "result" in ref:
                c2 = _outcome(lambda: _compile(case["code"], case["meta"], case["moddir"], params))
                if c2[0] != "ok":
                    problem(f"followup-differs:compile:{ptag}", f"compiling again raised {c2[1:]}")
                else:
                    _seed(case["s1"])
                    g2 = _outcome(lambda: c2[1].generate(maxIterations=200)[0])
                    if g2[0] != "ok" or snap_scene(g2[1]) != ref["scene"]:
                        problem(f"followup-differs:scene:{ptag}", "compile+generate from scratch gives another scene than a fresh process")
                    else:
                        _seed(case["s2"])
                        r2 = _outcome(lambda: simulate(g2[1]))
                        if r2 != ref["result"]:
                            comp_ = _result_component(r2, ref["result"])
                            problem(f"followup-differs:result:{comp_}", f"compile+generate+simulate from scratch gives {json.dumps(r2)[:200]} "
                                    f"but a fresh process gives {json.dumps(ref['result'])[:200]} (first difference: {comp_})")
                check_globals("after-scratch")
        except BaseException as e:  # harness problem: report, never a violation
            if isinstance(e, (KeyboardInterrupt, SystemExit)):
                raise
            res["harness_error"] = traceback.format_exc()[-1500:]
            try:
                h.arm(None)
                heal_globals()
            except Exception:
                pass
        res["info"]["wall"] = round(time.time() - t0, 2)
        res["info"]["cpu"] = round(time.process_time() - c0, 2)
    return results


# =========================================================================== regression corpus (reproduced defects)
REG_CLASS = "class Foo:\n    foo: 0\n    bar: Range(0, 1)\n"
REGRESSION = {
    # D1: the finally block reverts overrides after the proxies are gone
    "revert-after-disable": {
        "code": REG_CLASS + """
scenario Sub():
    setup:
        override ego with foo 1
    compose:
        wait
        raise RuntimeError("boom")
scenario Main():
    setup:
        ego = new Foo
    compose:
        ego.foo = 5
        do Sub()
""", "scenario": "Main", "key": "regression:revert-after-disable"},
    # D2: the shared top-level scenario never forgets its overrides
    "stale-override": {
        "code": REG_CLASS + """
scenario Main():
    setup:
        ego = new Foo
    compose:
        ego.foo = 5
        wait
        override ego with foo 7
        wait
""", "scenario": "Main", "key": "regression:stale-override"},
    # D3: inInitialScenario is never reset
    "initial-scenario": {
        "code": REG_CLASS + """
scenario Main():
    setup:
        if initial scenario:
            ego = new Foo with foo 1
        else:
            ego = new Foo with foo 2
    compose:
        wait
""", "scenario": "Main", "key": "regression:initial-scenario"},
    # D4: executeInBehavior held open by an abandoned generator
    "behavior-finalizer": {
        "code": REG_CLASS + """
behavior Y():
    while True:
        wait
behavior X():
    do Y()
behavior B():
    while True:
        wait
scenario Sub():
    setup:
        override ego with behavior X()
    compose:
        while True:
            wait
scenario Main():
    setup:
        ego = new Foo with behavior B()
    compose:
        do Sub()
""", "scenario": "Main", "key": "regression:behavior-finalizer"},
    # D5: simulator set-up failing before self.agents exists
    "setup-failure": {"code": "ego = new Object\n", "scenario": None, "key": "regression:setup-failure"},
    # repaired in c4c953c9 (probe_t3): second override of the same object
    "second-override": {
        "code": "class Foo:\n    foo: 0\n    bar: 0\n" + """
scenario Sub():
    setup:
        override ego with foo 1
        override ego with bar 2
    compose:
        wait
        wait
scenario Main():
    setup:
        ego = new Foo
        record (ego.foo, ego.bar) as fb
    compose:
        do Sub()
        wait
        wait
""", "scenario": "Main", "key": "regression:second-override"},
    # repaired by 41fb4809 / 0e4a55a4: an exception raised by an interrupt condition while the body of the try-interrupt
    # statement is suspended inside `do Y()` abandons the body; its blocks were finalised when the traceback was released
    # (after endSimulation) and left veneer.currentBehavior stale
    "abandoned-try-block": {
        "code": REG_CLASS + """
def boom():
    if simulation().currentTime >= 2:
        raise RuntimeError("boom")
    return False
behavior Y():
    while True:
        wait
behavior B():
    try:
        do Y()
    interrupt when boom():
        wait
ego = new Foo with behavior B()
""", "scenario": None, "key": "regression:abandoned-try-block"},
    # repaired by df9891ff: the shared top-level scenario kept the sub-scenarios of the previous simulation in _subScenarios
    "stale-subscenarios": {
        "code": REG_CLASS + """
scenario Sub():
    setup:
        record ego.foo as sfoo
    compose:
        while True:
            wait
scenario Main():
    setup:
        ego = new Foo
    compose:
        wait
        wait
        do Sub()
""", "scenario": "Main", "key": "regression:stale-subscenarios"},
    # a sub-scenario whose setup block fails after `override ego with behavior …`: the override is never reverted (the
    # scenario was prepared, never started, so nobody stops it) and the finally block only stops the agents' *current*
    # behaviors: the scene's own behavior object stays running and the scene cannot be simulated again
    "behavior-left-running": {
        "code": REG_CLASS + """
behavior B():
    while True:
        wait
behavior X():
    while True:
        wait
scenario Sub():
    setup:
        override ego with behavior X()
        raise RuntimeError("boom")
    compose:
        wait
scenario Main():
    setup:
        ego = new Foo with behavior B()
    compose:
        do Sub()
""", "scenario": "Main", "key": "followup-differs:result:outcome.InvalidScenarioError"},
    # repaired by fc314756: the simulator interface's destroy() raises inside the finally block of Simulation.__init__
    "destroy-failure": {"code": "ego = new Object\n", "scenario": None, "key": "regression:destroy-failure"},
}


def run_regression(_arg=None):
    """Each reproduced defect on its minimal program, in one fresh process each (called through the pool)."""
    name = _arg
    import gc
    import scenic
    import scenic.syntax.veneer as veneer
    from scenic.core.simulators import DummySimulation, DummySimulator
    r = REGRESSION[name]
    out = {"name": name, "key": r["key"], "violated": False, "what": ""}
    try:
        if name == "revert-after-disable":
            sc = scenic.scenarioFromString(r["code"], scenario=r["scenario"])
            scene, _ = sc.generate()
            before = scene.egoObject.foo
            try:
                DummySimulator().simulate(scene, maxSteps=5)
            except RuntimeError:
                pass
            after = scene.egoObject.foo
            out["violated"] = before != after
            out["what"] = f"scene.egoObject.foo was {before} before a simulation that raised in a sub-scenario and is {after} afterwards"
        elif name == "stale-override":
            sc = scenic.scenarioFromString(r["code"], scenario=r["scenario"])
            s1, _ = sc.generate()
            s2, _ = sc.generate()
            DummySimulator().simulate(s1, maxSteps=3)
            mid = s1.egoObject.foo
            DummySimulator().simulate(s2, maxSteps=3)
            after = s1.egoObject.foo
            out["violated"] = after != mid
            out["what"] = f"scene1.egoObject.foo is {mid} after its own simulation and {after} after simulating scene2 of the same scenario"
        elif name == "initial-scenario":
            foos = []
            for _ in range(2):
                sc = scenic.scenarioFromString(r["code"], scenario=r["scenario"])
                scene, _ = sc.generate()
                foos.append(scene.egoObject.foo)
            out["violated"] = foos[0] != foos[1]
            out["what"] = f"compiling the same program twice in one process gives ego.foo = {foos[0]} then {foos[1]} (veneer.inInitialScenario = {veneer.inInitialScenario})"
        elif name == "behavior-finalizer":
            gc.disable()
            sc = scenic.scenarioFromString(r["code"], scenario=r["scenario"])
            scene, _ = sc.generate()
            DummySimulator().simulate(scene, maxSteps=3)
            a = veneer.currentBehavior
            gc.collect()
            b = veneer.currentBehavior
            try:
                scenic.scenarioFromString(r["code"], scenario=r["scenario"])
                again = "ok"
            except Exception as e:
                again = f"{type(e).__name__}: {e}"
            out["violated"] = b is not None
            out["what"] = f"veneer.currentBehavior is {a} after the simulation and {b} after garbage collection; compiling again: {again}"
        elif name == "setup-failure":
            class FS(DummySimulation):
                def setup(self):
                    raise ConnectionError("simulator not reachable")

            class FSim(DummySimulator):
                def createSimulation(self, scene, **kw):
                    return FS(scene, **kw)
            sc = scenic.scenarioFromString(r["code"])
            scene, _ = sc.generate()
            try:
                FSim().simulate(scene, maxSteps=2)
                first = "no exception"
            except Exception as e:
                first = type(e).__name__
            stuck = veneer.currentSimulation is not None
            try:
                scenic.scenarioFromString(r["code"])
                again = "ok"
            except BaseException as e:
                again = type(e).__name__
            out["violated"] = stuck or again != "ok"
            out["what"] = (f"a simulator whose setup() raises ConnectionError before Simulation.setup ran: simulate raised {first}, "
                           f"veneer.currentSimulation is {'still set' if stuck else 'None'}, compiling afterwards: {again}")
        elif name == "second-override":
            sc = scenic.scenarioFromString(r["code"], scenario=r["scenario"])
            scene, _ = sc.generate()
            sim = DummySimulator().simulate(scene, maxSteps=8)
            fb = [v for _, v in sim.result.records["fb"]]
            out["violated"] = fb[-1] != (0, 0)
            out["what"] = f"after the sub-scenario ended (foo, bar) reads {fb[-1]} instead of (0, 0); series {fb}"
        elif name == "abandoned-try-block":
            gc.disable()
            sc = scenic.scenarioFromString(r["code"])
            scene, _ = sc.generate()
            try:
                DummySimulator().simulate(scene, maxSteps=5, maxIterations=1)
                first = "no exception"
            except RuntimeError as e:
                first = "RuntimeError"
                del e
            a = veneer.currentBehavior
            try:
                scenic.scenarioFromString(r["code"])
                again = "ok"
            except Exception as e:
                again = f"{type(e).__name__}: {e}"
            out["violated"] = a is not None or again != "ok"
            out["what"] = (f"an interrupt condition raising while the try body is suspended inside `do Y()`: simulate raised {first}, "
                           f"veneer.currentBehavior is {a} once the exception is released; compiling again: {again}")
        elif name == "stale-subscenarios":
            sc = scenic.scenarioFromString(r["code"], scenario=r["scenario"])
            scene, _ = sc.generate()
            recs = []
            for _ in range(2):
                sim = DummySimulator().simulate(scene, maxSteps=5)
                recs.append([t for t, _v in sim.result.records["sfoo"]])
            out["violated"] = recs[0] != recs[1]
            out["what"] = (f"simulating the same scene twice: the sub-scenario started at step 2 records `sfoo` at steps {recs[0]} in the first "
                           f"run and at steps {recs[1]} in the second (the shared top-level scenario still lists the sub-scenario of the "
                           "first run in _subScenarios, so its record statement is evaluated from step 0)")
        elif name == "behavior-left-running":
            sc = scenic.scenarioFromString(r["code"], scenario=r["scenario"])
            scene, _ = sc.generate()
            outs = []
            for _ in range(2):
                try:
                    DummySimulator().simulate(scene, maxSteps=3)
                    outs.append("completed")
                except Exception as e:
                    outs.append(f"{type(e).__name__}: {str(e)[:80]}")
            out["violated"] = outs[0] != outs[1]
            out["what"] = (f"a sub-scenario whose setup raises after `override ego with behavior X()`: the first simulation of the scene ends "
                           f"with {outs[0]!r}, simulating the same scene again with {outs[1]!r} (ego's own behavior object was left running: "
                           f"_isRunning = {scene.egoObject.behavior._isRunning})")
        elif name == "destroy-failure":
            class DS(DummySimulation):
                def destroy(self):
                    raise ConnectionError("lost connection to the simulator")

            class DSim(DummySimulator):
                def createSimulation(self, scene, **kw):
                    return DS(scene, **kw)
            sc = scenic.scenarioFromString(r["code"])
            scene, _ = sc.generate()
            try:
                DSim().simulate(scene, maxSteps=2)
                first = "no exception"
            except Exception as e:
                first = type(e).__name__
            stuck = veneer.currentSimulation is not None
            proxied = object.__getattribute__(scene.objects[0], "_dynamicProxy") is not scene.objects[0]
            try:
                scenic.scenarioFromString(r["code"])
                again = "ok"
            except BaseException as e:
                again = type(e).__name__
            out["violated"] = stuck or proxied or again != "ok"
            out["what"] = (f"a simulation whose destroy() raises ConnectionError: simulate raised {first}, veneer.currentSimulation is "
                           f"{'still set' if stuck else 'None'}, the scene's object is {'still' if proxied else 'not'} proxied, "
                           f"compiling afterwards: {again} (the finally block of Simulation.__init__ was left at its first statement)")
    except BaseException as e:
        if isinstance(e, (KeyboardInterrupt, SystemExit)):
            raise
        out["harness_error"] = traceback.format_exc()[-1200:]
    return out


# =========================================================================== globals model vs the real veneer functions
def run_glob_sequences(arg):
    """Executes random operation sequences on the real veneer functions (fake scenario/simulation objects) and
    returns the driver lines plus the observed states."""
    import types
    from contextlib import ExitStack
    import scenic  # noqa
    import scenic.syntax.veneer as veneer
    from scenic.core.dynamics.scenarios import DynamicScenario
    seed, count, vg = arg
    tables = vg["sessions"]
    suspended = sorted({c for c, _ in vg.get("suspended", [])})
    rng = random.Random(seed)
    out = []

    def show(reg):
        g = snap_globals(reg)
        return ",".join(f"{n}={g[n]}" for n in GLOBAL_NAMES)

    def vals(names, reg):
        g = snap_globals(reg)
        return ",".join(f"{n}={g[n]}" for n in names)

    for _ in range(count):
        heal_globals()
        reg = {}
        sess = rng.choice(["sim", "sim", "compile"])
        T = tables[sess]
        cmw = {c[0]: c[1] for c in T["cms"]}
        plw = dict(T["plains"])
        toks, obs = [], []
        stack = ExitStack()
        opened = []     # names of open cms (innermost last)
        mode2d = rng.random() < 0.3

        def fake_scenario(i):
            return types.SimpleNamespace(_ego=None, _workspace=None, _globalParameters={"gp": i}, _objects=[], objects=(),
                                         _setup=(None if rng.random() < 0.5 else 1), _isRunning=False, name=f"S{i}")
        scen = [fake_scenario(i) for i in range(4)]
        for s in scen:
            s._bindTo = lambda scene: None
        running = []
        held = []       # generators holding an executeInBehavior block open (as Behavior._invokeInner does)
        try:
            if sess == "sim":
                sim = types.SimpleNamespace(scene=types.SimpleNamespace(
                    dynamicScenario=scen[0], params={"a": 1} if rng.random() < 0.7 else {},
                    compileOptions=types.SimpleNamespace(mode2D=mode2d), behaviorNamespaces={}))
                veneer.beginSimulation(sim)
                toks.append("O:" + vals(T["openWrites"], reg))
            else:
                opts = types.SimpleNamespace(paramOverrides=({"x": 1} if rng.random() < 0.4 else {}), modelOverride=None, mode2D=mode2d)
                veneer.activate(opts, {})
                toks.append("O:" + vals(T["openWrites"], reg))
            toks.append("q")
            obs.append(show(reg))
            for _step in range(rng.randint(0, 12)):
                choices = ["X"] * 2
                cur = veneer.currentScenario
                if sess == "sim":
                    choices += ["scenario", "behavior", "finish", "start", "end"]
                    if "executeInBehavior" in suspended:
                        choices.append("held-behavior")
                    if not veneer.evaluatingGuard:
                        choices.append("guard")
                    if not veneer.evaluatingRequirement and cur is not None:
                        choices.append("requirement")
                else:
                    choices += ["scenario", "finish", "simulator", "param", "regclass", "nested"]
                    if not veneer.evaluatingRequirement and veneer.activity == 0:
                        pass
                ch = rng.choice(choices)
                if ch == "X":
                    if not opened:
                        continue
                    name = opened.pop()
                    if name == "activateNested":
                        veneer.deactivate()
                    else:
                        stack_pop(stack)
                    toks.append("X")
                elif ch == "scenario":
                    s = rng.choice(scen)
                    cm = veneer.executeInScenario(s, inheritEgo=rng.random() < 0.5)
                    stack.enter_context(cm)
                    opened.append("executeInScenario")
                    toks.append("E:executeInScenario:" + vals(cmw["executeInScenario"], reg))
                elif ch == "behavior":
                    bobj = types.SimpleNamespace(name="b")
                    stack.enter_context(veneer.executeInBehavior(bobj))
                    opened.append("executeInBehavior")
                    toks.append("E:executeInBehavior:" + vals(cmw["executeInBehavior"], reg))
                elif ch == "held-behavior":
                    def holder(b):
                        with veneer.executeInBehavior(b):
                            yield
                    g = holder(types.SimpleNamespace(name="held"))
                    next(g)
                    held.append(g)
                    toks.append("D:executeInBehavior:" + vals(cmw["executeInBehavior"], reg))
                elif ch == "guard":
                    stack.enter_context(veneer.executeInGuard())
                    opened.append("executeInGuard")
                    toks.append("E:executeInGuard:" + vals(cmw["executeInGuard"], reg))
                elif ch == "requirement":
                    stack.enter_context(veneer.executeInRequirement(cur, None, {}))
                    opened.append("executeInRequirement")
                    toks.append("E:executeInRequirement:" + vals(cmw["executeInRequirement"], reg))
                elif ch == "finish":
                    veneer.finishScenarioSetup(scen[0])
                    toks.append("P:finishScenarioSetup:" + vals(plw.get("finishScenarioSetup", []), reg))
                elif ch == "start":
                    cand = [s for s in scen if s not in running]
                    if not cand:
                        continue
                    s = rng.choice(cand)
                    veneer.startScenario(s)
                    running.append(s)
                    toks.append("P:startScenario:" + vals(plw.get("startScenario", []), reg))
                elif ch == "end":
                    if not running:
                        continue
                    s = running.pop(rng.randrange(len(running)))
                    veneer.endScenario(s, "r", quiet=True)
                    toks.append("P:endScenario:" + vals(plw.get("endScenario", []), reg))
                elif ch == "simulator":
                    veneer.simulator(lambda: None)
                    toks.append("P:simulator:" + vals(plw.get("simulator", []), reg))
                elif ch == "param":
                    veneer.param({f"k{rng.randint(0, 3)}": 1})
                    toks.append("P:param:" + vals(plw.get("param", []), reg))
                elif ch == "regclass":
                    veneer.registerDynamicScenarioClass(type("C", (), {}))
                    toks.append("P:registerDynamicScenarioClass:" + vals(plw.get("registerDynamicScenarioClass", []), reg))
                elif ch == "nested":
                    # (deactivate restores currentScenario from scenarioStack[-1]; this equals the value saved at
                    # entry unless an executeInScenario block is open around the nested activation: not generated)
                    if veneer.evaluatingRequirement or veneer.evaluatingGuard or "executeInScenario" in opened:
                        continue
                    opts = types.SimpleNamespace(paramOverrides={}, modelOverride=None, mode2D=mode2d)
                    veneer.activate(opts, {})
                    opened.append("activateNested")
                    toks.append("E:activateNested:" + vals(cmw["activateNested"], reg))
                toks.append("q")
                obs.append(show(reg))
            # failure / end: Python unwinds the open blocks, then the closer runs
            while opened:
                name = opened.pop()
                if name == "activateNested":
                    veneer.deactivate()
                else:
                    stack_pop(stack)
            if sess == "sim":
                veneer.endSimulation(sim)
            else:
                veneer.deactivate()
            toks += ["F", "q"]
            obs.append(show(reg))
            # abandoned generators are finalised some time after the session, in any order
            while held:
                k = rng.randrange(len(held))
                held.pop(k).close()
                toks += [f"G:{k}", "q"]
                obs.append(show(reg))
            out.append({"line": f"C14 glob {sess} " + " ".join(toks), "expect": " ".join(obs)})
        except AssertionError:
            out.append({"skipped": "assertion of the real function (generator produced an impossible sequence)"})
        except BaseException as e:
            if isinstance(e, (KeyboardInterrupt, SystemExit)):
                raise
            out.append({"harness_error": traceback.format_exc()[-800:]})
        finally:
            try:
                stack.close()
                for g in held:
                    g.close()
            except Exception:
                pass
            heal_globals()
    return out


def stack_pop(stack):
    """leave the innermost block of an ExitStack as an exception would (its finally runs)"""
    cb = stack._exit_callbacks.pop()
    cb[1](None, None, None)


# =========================================================================== main-process orchestration
def _pool(n):
    import multiprocessing as mp
    ctx = mp.get_context("forkserver")
    try:
        ctx.set_forkserver_preload(["scenic", "scenic.core.simulators", "props.c14"])
    except Exception:
        pass
    return ctx.Pool(n, maxtasksperchild=1)


def parse_side(line):
    return dict(t.split("=", 1) for t in line.split())


def run(ctx):
    ctx.rule = ("cases = (generated dynamic program, failure point = tag of a block kind x n-th execution x mode raise/reject/false, "
                "history position) executed in worker processes that run several cases in a row; every case yields a scene "
                "snapshot before/after, the veneer globals, an identical follow-up run, a scene generated from the same compiled "
                "scenario after the simulations and a from-scratch follow-up, each compared with a fresh-process reference, the event "
                "trace fed to the Lean model, and the override-undone check at every scenario end; plus operation sequences on the "
                "real veneer functions; non-trivial = a failure was injected or an override executed; distinct by content hash")
    ctx.assumptions += [
        "objects are identified by numbers and tracked properties are integers in the model; the scheduler (which event happens "
        "when) is not modelled: theorems quantify over all event sequences, the correspondence feeds the events the real run produced",
        "parallel sibling sub-scenarios overriding the same property of the same object are outside the modelled fragment "
        "(the real code reverts siblings in start order; override lifetimes that are not nested cannot all be 'undone')",
        "of the statements of the finally block only Simulation.destroy() (simulator code) is modelled as able to raise; "
        "exceptions raised by a scenario's or behavior's _stop inside the block are not modelled",
        "'exactly as in a fresh process' beyond the modelled veneer globals (module caches, import state, state kept by scenario "
        "objects) is compared observationally",
    ]
    ctx.trusted_base += ["tools/translate/simcleanup.py, tools/translate/veneerglobals.py (template extraction)",
                         "tools/props/c14.py (instrumentation, correspondence, failure-injection oracle)"]
    ctx.fingerprint(FINGERPRINTS)
    from translate import simcleanup, veneerglobals
    tables = vg = None
    try:
        ctx.gen("SimCleanup", simcleanup.to_lean(simcleanup.extract()))
    except TemplateMismatch as e:
        ctx.gen_restore("SimCleanup")
        ctx.escalated.append(f"translator tie lost (simcleanup): {e}")
        ctx.notes.append(f"translator tie lost for the clean-up/override bookkeeping: {e}; relying on correspondence at thorough budget")
    try:
        vg = veneerglobals.extract()
        ctx.gen("VeneerGlobals", veneerglobals.to_lean(vg))
        tables = vg["sessions"]
    except TemplateMismatch as e:
        vg = None
        ctx.gen_restore("VeneerGlobals")
        ctx.escalated.append(f"translator tie lost (veneerglobals): {e}")
        ctx.notes.append(f"translator tie lost for the veneer globals: {e}; relying on correspondence at thorough budget")
    pr = ctx.prove(THEOREMS, side_conditions=SIDE)
    driver_ok = pr.build_ok
    if not pr.build_ok:
        # a side condition (or a proof) no longer checks; the model itself still runs: build the driver alone, so that the
        # correspondence and the diagnostics below are available for the failing-input search
        rc, _log = ctx.lake(["build", "drv_c14"])
        driver_ok = rc == 0
    flags = {}
    if driver_ok:
        flags = parse_side(ctx.driver(["C14 side"])[0])
        ctx.extra["side_conditions"] = flags
        if not pr.build_ok:
            false_main = [f for f in MAIN_FLAGS if flags.get(f) != "1"]
            ctx.notes.append(f"Props/C14.lean no longer builds; side conditions that are false on the regenerated data: {false_main or 'none'}"
                             f" (leaking globals: {flags.get('simleaks')},{flags.get('compleaks')}; suspended blocks: {flags.get('suspended')};"
                             f" merge: {flags.get('merge')})")
        if ctx.tier == "thorough" and pr.build_ok:
            mods = ["ScenicModel.Props.C14", "ScenicModel.Props.C14Base", "ScenicModel.Props.C14Overrides", "ScenicModel.Props.C14Stale",
                    "ScenicModel.Props.C14Revert", "ScenicModel.Props.C14Nested", "ScenicModel.Props.C14Witness",
                    "ScenicModel.Props.C14Globals", "ScenicModel.Props.C14Destroy", "ScenicModel.Props.C14SideOrder",
                    "ScenicModel.Props.C14SideAgents", "ScenicModel.Props.C14SideStale", "ScenicModel.Props.C14SideGlobals",
                    "ScenicModel.Props.C14SideSuspended", "ScenicModel.Props.C14SideDestroy"]
            ctx.leanchecker(mods)
    ctx.proof = pr

    found = False
    moddir = os.path.join(ctx.tmp, "models")
    # ------------------------------------------------------------------ build the cases
    rng = ctx.rng
    # budgets (round 3): the quick tier must finish in <~ 4 min of wall time on a quiet machine with <= 8 workers; a case
    # costs 4-10 CPU-s (compile + generate + 2-4 simulations + follow-ups + up to two fresh-process references)
    ncases = ctx.budget(40, 1000)
    if os.environ.get("VERIF_C14_CASES"):   # debugging knob; not used by ./check
        ncases = int(os.environ["VERIF_C14_CASES"])
    quick = ncases <= 100
    per_hist = 5 if quick else 10
    # the expensive fresh-process comparisons are sampled in the quick tier (every case still has the scene snapshots,
    # the veneer globals, the proxies, the override-undone oracle and the Lean trace)
    p_ref, p_late, p_scratch = (0.6, 0.3, 0.3) if quick else (1.0, 0.4, 0.4)
    cases, hists = [], []
    for i in range(ncases):
        force = None
        if i % 25 == 0:
            force = dict(depth=2, beh_override=True, pre_write=True, flat=False)
        elif i % 25 == 1:
            force = dict(depth=1, top_override=True, sub_record=True, flat=False, dyn_obj=True, dyn_behavior=True)
        code, meta = gen_program(rng, force)
        phase, plan = gen_plan(rng, meta)
        case = {"id": i, "code": code, "meta": meta, "phase": phase, "plan": plan, "s1": rng.getrandbits(30),
                "s2": rng.getrandbits(30), "moddir": moddir, "two_scenes": rng.random() < 0.4,
                "warmup": rng.random() < 0.3, "scratch": rng.random() < p_scratch, "late": rng.random() < p_late,
                "params": ({"p": 0.25} if rng.random() < 0.25 else None), "want_ref": force is not None or rng.random() < p_ref}
        if not case["want_ref"]:
            case["scratch"] = case["late"] = False
        cases.append(case)
    for i in range(0, ncases, per_hist):
        hists.append({"cases": cases[i:i + per_hist]})
    nproc = min(8, max(2, os.cpu_count() or 2))
    if os.environ.get("VERIF_C14_PROCS"):   # development knob (shared machine)
        nproc = max(1, int(os.environ["VERIF_C14_PROCS"]))
    t0 = time.time()
    try:
        with _pool(nproc) as pool:
            reg_async = [pool.apply_async(run_regression, (name,)) for name in REGRESSION]
            glob_async = []
            if tables is not None and driver_ok:
                nseq = ctx.budget(120, 3000)
                chunk = max(10, nseq // nproc)
                glob_async = [pool.apply_async(run_glob_sequences, ((rng.getrandbits(30), chunk, vg),))
                              for _ in range(max(1, nseq // chunk))]
            late_cases = [c for c in cases if c["late"]]
            late_async = pool.map_async(reference, [dict(c, _late=True) for c in late_cases], chunksize=1)
            ref_cases = [c for c in cases if c["want_ref"]]
            refs = pool.map(reference, ref_cases, chunksize=1)
            for c, r in zip(ref_cases, refs):
                c["ref"] = r
            late_refs = late_async.get(timeout=6000)
            for c, r in zip(late_cases, late_refs):
                c["ref_late"] = r
            hist_res = pool.map(run_history, hists, chunksize=1)
            reg_res = [a.get(timeout=3000) for a in reg_async]
            glob_res = [x for a in glob_async for x in a.get(timeout=3000)]
    except Infra:
        raise
    except Exception as e:
        raise Infra(f"worker pool failed: {type(e).__name__}: {e}")
    ctx.extra["oracle_wall_s"] = round(time.time() - t0, 1)
    ctx.extra["oracle_cpu_s"] = round(sum((r or {}).get("cpu", 0) for r in list(refs) + list(late_refs))
                                      + sum(x["info"].get("cpu", 0) for hr in hist_res for x in hr), 1)

    # ------------------------------------------------------------------ regression corpus first (explains false side conditions)
    for r in reg_res:
        if r.get("harness_error"):
            ctx.notes.append(f"regression {r['name']}: harness error {r['harness_error'][-300:]}")
            continue
        ctx.case(("regression", r["name"]), nontrivial=True)
        ctx.hist("regression", f"{r['name']}:{'violated' if r['violated'] else 'holds'}")
        if r["violated"]:
            rep = {"kind": "regression", "name": r["name"]}
            if ctx.violation(r["key"], r["what"], rep):
                found = True

    # ------------------------------------------------------------------ direct oracle results + Lean correspondence
    lines, expects, owners = [], [], []
    invalid = 0
    for h, hres in zip(hists, hist_res):
        for case, res in zip(h["cases"], hres):
            if res.get("harness_error"):
                ctx.hist("case", "harness-error")
                ctx.notes.append(f"case {case['id']}: harness error: {res['harness_error'][-400:]}")
                continue
            if "invalid" in res["info"] or "invalid" in (case.get("ref") or {}):
                invalid += 1
                ctx.hist("case", "generator-invalid")
                if invalid <= 2:
                    ctx.notes.append(f"case {case['id']} invalid: {res['info'].get('invalid') or (case.get('ref') or {}).get('invalid')}")
                continue
            plan = case["plan"] or {}
            ctx.case((case["code"], case["phase"], json.dumps(plan, sort_keys=True), case["two_scenes"], case["warmup"],
                      case["late"], bool(case["params"]), case["want_ref"]),
                     nontrivial=bool(plan) or "override" in case["code"])
            ctx.hist("phase", case["phase"])
            ctx.hist("failure_tag", plan.get("tag", "-"))
            ctx.hist("failure_mode", plan.get("mode", "-"))
            ctx.hist("main_outcome", str(res["info"].get("main", res["info"].get("compile"))))
            ctx.hist("depth", case["meta"]["depth"])
            ctx.hist("followups", "+".join(k for k in ("two_scenes", "warmup", "late", "scratch", "params") if case.get(k)) or "rerun-only")
            ctx.hist("fresh_process_reference", "yes" if case["want_ref"] else "sampled-out")
            for p in res["problems"]:
                rep = {"kind": "history", "cases": [c for c in h["cases"] if c["id"] <= case["id"]], "at": case["id"], "key": p["key"]}
                if ctx.violation(p["key"], p["what"], _slim(rep)):
                    found = True
            if res["lean"]:
                lines.append(res["lean"]["line"])
                expects.append(res["lean"]["expect"])
                owners.append(case)
    if invalid > 0.3 * max(1, ncases):
        raise Infra(f"{invalid} of {ncases} generated programs were invalid: the generator is broken")
    if driver_ok:
        bad = 0
        out = ctx.driver(lines) if lines else []
        for ln, exp, got, case in zip(lines, expects, out, owners):
            ctx.evaluations += 1
            ctx.hist("trace_events", min(ln.count(" ") // 10 * 10, 100))
            if exp != got:
                bad += 1
                if bad <= 3:
                    # first differing token
                    et, gt = exp.split(" "), got.split(" ")
                    k = next((i for i, (a, b) in enumerate(zip(et, gt)) if a != b), min(len(et), len(gt)))
                    ctx.broken("correspondence", "overrides/proxies model vs instrumented simulation",
                               f"case {case['id']} plan={case['plan']} observation #{k}: real={et[k] if k < len(et) else '-'} "
                               f"lean={gt[k] if k < len(gt) else '-'}; line={ln[:600]}")
        ctx.extra["traces_validated_against_impl"] = len(lines)
        gl, ge = [], []
        for g in glob_res:
            if "line" in g:
                gl.append(g["line"])
                ge.append(g["expect"])
            elif "harness_error" in g:
                ctx.notes.append("globals correspondence: harness error " + g["harness_error"][-300:])
            else:
                ctx.hist("glob_sequence", "skipped")
        gout = ctx.driver(gl) if gl else []
        badg = 0
        for ln, exp, got in zip(gl, ge, gout):
            ctx.case(("glob", ln))
            ctx.hist("glob_sequence", ln.split()[2])
            if exp != got:
                badg += 1
                if badg <= 3:
                    et, gt = exp.split(" "), got.split(" ")
                    k = next((i for i, (a, b) in enumerate(zip(et, gt)) if a != b), min(len(et), len(gt)))
                    da = dict(t.split("=") for t in et[k].split(",")) if k < len(et) else {}
                    db = dict(t.split("=") for t in gt[k].split(",")) if k < len(gt) else {}
                    diff = {n: (da.get(n), db.get(n)) for n in set(da) | set(db) if da.get(n) != db.get(n)}
                    ctx.broken("correspondence", "veneer-globals model vs the real veneer functions",
                               f"state #{k} differs (real, lean): {diff}; line={ln[:500]}")
    ctx.resolve_brokens(found)


def _slim(rep):
    cases = []
    for c in rep["cases"]:
        c = {k: v for k, v in c.items() if k not in ("ref", "ref_late")}
        cases.append(c)
    return {"kind": rep["kind"], "at": rep["at"], "key": rep.get("key"), "cases": cases}


def replay(ctx, path):
    """Re-executes the recorded input against $SCENIC_REPO; exit status 1 if the recorded problem shows again, 0 if not."""
    body = json.load(open(path))
    rep = body.get("replay", body)
    if rep.get("kind") == "regression":
        with _pool(1) as pool:
            r = pool.apply(run_regression, (rep["name"],))
        print(json.dumps(r, indent=1))
        if r.get("harness_error"):
            return 2
        print("REPRODUCED" if r["violated"] else "not reproduced (the property holds on this input)")
        return 1 if r["violated"] else 0
    if rep.get("kind") == "history":
        moddir = os.path.join(ctx.tmp, "models")
        for c in rep["cases"]:
            c["moddir"] = moddir
        with _pool(2) as pool:
            refs = pool.map(reference, rep["cases"], chunksize=1)
            late = pool.map(reference, [dict(c, _late=True) for c in rep["cases"]], chunksize=1)
            for c, r, rl in zip(rep["cases"], refs, late):
                c["ref"] = r
                if c.get("late"):
                    c["ref_late"] = rl
            res = pool.apply(run_history, ({"cases": rep["cases"]},))
        again = False
        for c, r in zip(rep["cases"], res):
            print(f"case {c['id']} phase={c['phase']} plan={c['plan']} info={r['info']}")
            for p in r["problems"]:
                print("   PROBLEM", p["key"], "--", p["what"])
                if c["id"] == rep.get("at") and (rep.get("key") is None or p["key"] == rep["key"]):
                    again = True
            if r.get("harness_error"):
                print("   harness error:", r["harness_error"])
        print("REPRODUCED" if again else "not reproduced (the property holds on this input)")
        return 1 if again else 0
    print(json.dumps(rep, indent=1)[:4000])
    print("no concrete input recorded (broken obligation): run ./check C14 to re-evaluate")
    return 0
