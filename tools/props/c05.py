"""C05 — expressions over random values evaluate as in plain Python on the samples.

Proof:  lean/ScenicModel/Props/C05*.lean — `forest_eval_eq_python` (Scenic's expression forest, built with the
        identity simplifications / reflected operators / toDistribution wrapping / vector-operator lifting that the
        code performs, samples to what plain Python computes), `simp_table_sound`, `support_sound_*`,
        `delayed_eval_final`; instantiated on tables and formulas regenerated from /repo.
Tie:    (T) translate/c05_exprtables.py, translate/c05_support.py;
        (C) generated expression trees -> real Scenic program -> forest shape, sampled value and supportInterval,
            compared with the Lean driver on the same sampled leaves;
        (S) the property itself on the real code: `eval` of the same expression text on the sampled leaves,
            sampled values / corner values inside the reported support, class defaults against final values.
"""
import itertools
import json
import math
import os
import random
import sys
import traceback
from fractions import Fraction

from vlib.ctx import Infra, TemplateMismatch

# ------------------------------------------------------------------------------------------------ names
THEOREMS = [
    "Scenic.Expr.forest_eval_eq_python",
    "Scenic.Expr.forest_list",
    "Scenic.Expr.forest_args",
    "Scenic.Expr.simp_table_sound",
    "Scenic.Expr.vty_sound",
    "Scenic.Expr.build_vecWF",
    "Scenic.Expr.binBuild_eval",
    "Scenic.Expr.floordiv_one_not_identity",
    "Scenic.Expr.rsub_zero_not_identity",
    "Scenic.Expr.rtruediv_one_not_identity",
    "Scenic.Expr.legacy_shapes_rejected",
    "Scenic.Expr.reflected_concat",
    "Scenic.Expr.tuple_minus_vector",
    "Scenic.Expr.vecdist_plus_tuple",
    "Scenic.Expr.vector_plus_raw_tuple",
    "Scenic.Expr.raw_tuple_arithmetic",
    "Scenic.Expr.short_zero_sequence_witness",
    "Scenic.Support.support_sound",
    "Scenic.Support.mul_bounds",
    "Scenic.Support.div_lower",
    "Scenic.Support.div_upper",
    "Scenic.Support.hypot_not_monotone",
    "Scenic.Support.identity_hypAbs_unsound",
    "Scenic.Support.hypBounds_sound",
    "Scenic.Delayed.delayed_eval_final",
    "Scenic.Delayed.final_value_of_last_writer",
    "Scenic.C05.forest_eval_eq_python_partial",
    "Scenic.C05.simp_table_sound",
    "Scenic.C05.support_sound",
    "Scenic.C05.build_vecWF",
    "Scenic.C05.delayed_eval_final",
    "Scenic.Delayed.reads_subset_required",
    "Scenic.Delayed.evalD_local",
    "Scenic.Delayed.delayedSpec_local",
    "Scenic.Delayed.lifted_call_eval_final",
    "Scenic.Delayed.kwargs_dropped_not_local",
    "Scenic.C05.lifted_call_eval_final",
]
SIDE = [
    "Scenic.C05.gen_tables_wf",
    "Scenic.C05.gen_support_table_ok",
    "Scenic.C05.gen_formulas_sound",
    "Scenic.C05.gen_monotone_classified",
    "Scenic.C05.gen_operators_known",
    "Scenic.C05.gen_unmodelled_repairs_in_place",
    "Scenic.C05.gen_delayed_shapes_wf",
]

FINGERPRINTS = {
    "makeOperatorHandler": ("src/scenic/core/distributions.py", "makeOperatorHandler"),
    "OperatorDistribution": ("src/scenic/core/distributions.py", "OperatorDistribution"),
    "toDistribution": ("src/scenic/core/distributions.py", "toDistribution"),
    "TupleDistribution": ("src/scenic/core/distributions.py", "TupleDistribution"),
    "SliceDistribution": ("src/scenic/core/distributions.py", "SliceDistribution"),
    "FunctionDistribution": ("src/scenic/core/distributions.py", "FunctionDistribution"),
    "distributionFunction": ("src/scenic/core/distributions.py", "distributionFunction"),
    "monotonicDistributionFunction": ("src/scenic/core/distributions.py", "monotonicDistributionFunction"),
    "StarredDistribution": ("src/scenic/core/distributions.py", "StarredDistribution"),
    "MethodDistribution": ("src/scenic/core/distributions.py", "MethodDistribution"),
    "distributionMethod": ("src/scenic/core/distributions.py", "distributionMethod"),
    "AttributeDistribution": ("src/scenic/core/distributions.py", "AttributeDistribution"),
    "MultiplexerDistribution": ("src/scenic/core/distributions.py", "MultiplexerDistribution"),
    "Range": ("src/scenic/core/distributions.py", "Range"),
    "DiscreteRange": ("src/scenic/core/distributions.py", "DiscreteRange"),
    "TruncatedNormal": ("src/scenic/core/distributions.py", "TruncatedNormal"),
    "Options": ("src/scenic/core/distributions.py", "Options"),
    "UniformDistribution": ("src/scenic/core/distributions.py", "UniformDistribution"),
    "supportInterval": ("src/scenic/core/distributions.py", "supportInterval"),
    "unionOfSupports": ("src/scenic/core/distributions.py", "unionOfSupports"),
    "supmin": ("src/scenic/core/distributions.py", "supmin"),
    "supmax": ("src/scenic/core/distributions.py", "supmax"),
    "Samplable.sampleAll": ("src/scenic/core/distributions.py", "Samplable.sampleAll"),
    "Samplable.sample": ("src/scenic/core/distributions.py", "Samplable.sample"),
    "lazy_eval.py": ("src/scenic/core/lazy_eval.py", None),
    "scalarOperator": ("src/scenic/core/vectors.py", "scalarOperator"),
    "makeVectorOperatorHandler": ("src/scenic/core/vectors.py", "makeVectorOperatorHandler"),
    "vectorOperator": ("src/scenic/core/vectors.py", "vectorOperator"),
    "vectorDistributionMethod": ("src/scenic/core/vectors.py", "vectorDistributionMethod"),
    "VectorOperatorDistribution": ("src/scenic/core/vectors.py", "VectorOperatorDistribution"),
    "VectorMethodDistribution": ("src/scenic/core/vectors.py", "VectorMethodDistribution"),
    "Vector": ("src/scenic/core/vectors.py", "Vector"),
    "Orientation.__mul__": ("src/scenic/core/vectors.py", "Orientation.__mul__"),
    "TypecheckedDistribution": ("src/scenic/core/type_support.py", "TypecheckedDistribution"),
    "specifiers.py": ("src/scenic/core/specifiers.py", None),
    "geometry.hypot": ("src/scenic/core/geometry.py", "hypot"),
    "geometry.max": ("src/scenic/core/geometry.py", "max"),
    "geometry.min": ("src/scenic/core/geometry.py", "min"),
    "wrapStarredValue": ("src/scenic/syntax/veneer.py", "wrapStarredValue"),
    "callWithStarArgs": ("src/scenic/syntax/veneer.py", "callWithStarArgs"),
    "Constructible._resolveSpecifiers": ("src/scenic/core/object_types.py", "Constructible._resolveSpecifiers"),
}

TOL = Fraction(1, 10 ** 9)
BINOPS = {"add": "+", "sub": "-", "mul": "*", "truediv": "/", "floordiv": "//", "mod": "%", "pow": "**"}
UNOPS = {"neg": "-", "pos": "+", "abs": "abs"}


# ------------------------------------------------------------------------------------------------ values
def frac(x):
    return Fraction(x)


def show_frac(q):
    return f"{q.numerator}/{q.denominator}"


def canon(v):
    """Python value -> canonical structure shared with the Lean driver:
    ('n', Fraction) | ('none',) | ('s', str) | ('t', [..]) | ('l', [..]) | ('v', x, y, z) | ('other', text)"""
    import numpy
    from scenic.core.vectors import Vector
    if isinstance(v, (bool, int)):
        return ("n", Fraction(int(v)))
    if isinstance(v, (numpy.integer,)):
        return ("n", Fraction(int(v)))
    if isinstance(v, (float, numpy.floating)):
        v = float(v)
        if not math.isfinite(v):
            return ("other", "nonfinite")
        return ("n", Fraction(v))
    if v is None:
        return ("none",)
    if isinstance(v, str):
        return ("s", v)
    if isinstance(v, Vector):
        cs = [canon(c) for c in v.coordinates]
        if all(c[0] == "n" for c in cs):
            return ("v", cs[0][1], cs[1][1], cs[2][1])
        return ("other", "vector-of-non-numbers")
    if isinstance(v, tuple):
        return ("t", [canon(x) for x in v])
    if isinstance(v, list):
        return ("l", [canon(x) for x in v])
    return ("other", type(v).__name__)


def has_other(c):
    if c[0] == "other":
        return True
    if c[0] in ("t", "l"):
        return any(has_other(x) for x in c[1])
    return False


def close(a, b, tol=TOL):
    return a == b or abs(a - b) <= tol * max(1, abs(a), abs(b))


def same(a, b, tol=TOL):
    if a[0] != b[0]:
        return False
    if a[0] == "n":
        return close(a[1], b[1], tol)
    if a[0] == "v":
        return all(close(x, y, tol) for x, y in zip(a[1:], b[1:]))
    if a[0] in ("t", "l"):
        return len(a[1]) == len(b[1]) and all(same(x, y, tol) for x, y in zip(a[1], b[1]))
    return a == b


def val_tokens(c):
    k = c[0]
    if k == "n":
        return ["n", show_frac(c[1])]
    if k == "none":
        return ["none"]
    if k == "s":
        return ["s", c[1].encode("latin-1").hex() or "-"]
    if k in ("t", "l"):
        out = [k, str(len(c[1]))]
        for x in c[1]:
            out += val_tokens(x)
        return out
    if k == "v":
        return ["v"] + [show_frac(x) for x in c[1:]]
    raise ValueError("value outside the model: %r" % (c,))


def parse_val(ts, i=0):
    """inverse of the driver's showVal; returns (canon, next index)"""
    k = ts[i]
    if k == "n":
        return ("n", Fraction(ts[i + 1])), i + 2
    if k == "none":
        return ("none",), i + 1
    if k == "s":
        h = ts[i + 1]
        return ("s", "" if h == "-" else bytes.fromhex(h).decode("latin-1")), i + 2
    if k in ("t", "l"):
        n = int(ts[i + 1])
        i += 2
        xs = []
        for _ in range(n):
            x, i = parse_val(ts, i)
            xs.append(x)
        return (k, xs), i
    if k == "v":
        return ("v", Fraction(ts[i + 1]), Fraction(ts[i + 2]), Fraction(ts[i + 3])), i + 4
    raise ValueError("cannot parse driver value: " + " ".join(ts[i:i + 6]))


def parse_res(text):
    text = text.strip()
    if text == "err":
        return None
    v, _ = parse_val(text.split())
    return v


# ------------------------------------------------------------------------------------------------ expression trees
# ("C", pyvalue) | ("L", i) | ("B", op, l, r) | ("U", op, e) | ("G", e, i) | ("LEN", e) | ("A", name, e)
# | ("T", [e]) | ("LS", [e]) | ("VEC", x, y, z) | ("F", fn, [("P", e) | ("S", e)])
class VecConst:
    def __init__(self, x, y, z):
        self.c = (x, y, z)

    def __repr__(self):
        return "Vector(%r, %r, %r)" % self.c


PREC = {"add": 10, "sub": 10, "mul": 20, "truediv": 20, "floordiv": 20, "mod": 20, "pow": 40}
UNARY_PREC = 30


def src(e, need=0):
    """Python/Scenic source of the expression with the parentheses Python's grammar needs (and no more: Scenic's PEG
    parser is slow on nested parentheses); `need` = minimal binding strength required by the context"""
    k = e[0]

    def wrap(text, prec):
        return f"({text})" if prec < need else text
    if k == "C":
        v = e[1]
        if isinstance(v, (int, float)) and not isinstance(v, bool) and (v < 0 or (v == 0 and math.copysign(1, v) < 0)):
            return wrap(repr(v), UNARY_PREC)
        return repr(v)
    if k == "L":
        return f"x{e[1]}"
    if k == "B":
        p = PREC[e[1]]
        if e[1] == "pow":      # right associative; the base must not be a unary minus / lower binding expression
            return wrap(f"{src(e[2], p + 1)} {BINOPS[e[1]]} {src(e[3], UNARY_PREC)}", p)
        return wrap(f"{src(e[2], p)} {BINOPS[e[1]]} {src(e[3], p + 1)}", p)
    if k == "U":
        if e[1] == "abs":
            return f"abs({src(e[2])})"
        return wrap(f"{UNOPS[e[1]]}{src(e[2], UNARY_PREC)}", UNARY_PREC)
    if k == "G":
        return f"{src(e[1], 100)}[{src(e[2])}]"
    if k == "LEN":
        return f"len({src(e[1])})"
    if k == "A":
        return f"{src(e[2], 100)}.{e[1]}"
    if k == "T":
        return "(" + "".join(src(x) + ", " for x in e[1]) + ")"
    if k == "LS":
        return "[" + ", ".join(src(x) for x in e[1]) + "]"
    if k == "VEC":
        return f"Vector({src(e[1])}, {src(e[2])}, {src(e[3])})"
    if k == "F":
        return f"{e[1]}(" + ", ".join(("*" if a[0] == "S" else "") + src(a[1], 100 if a[0] == "S" else 0) for a in e[2]) + ")"
    raise ValueError(k)


def const_canon(v):
    if isinstance(v, VecConst):
        return ("v",) + tuple(Fraction(x) for x in v.c)
    if isinstance(v, (bool, int, float)):
        return ("n", Fraction(v))
    if v is None:
        return ("none",)
    if isinstance(v, str):
        return ("s", v)
    if isinstance(v, tuple):
        return ("t", [const_canon(x) for x in v])
    if isinstance(v, list):
        return ("l", [const_canon(x) for x in v])
    raise ValueError(v)


def lean(e, leaf_ty):
    k = e[0]
    if k == "C":
        return ["C"] + val_tokens(const_canon(e[1]))
    if k == "L":
        return ["L", str(e[1]), leaf_ty[e[1]]]
    if k == "B":
        return ["B", e[1]] + lean(e[2], leaf_ty) + lean(e[3], leaf_ty)
    if k == "U":
        return ["U", e[1]] + lean(e[2], leaf_ty)
    if k == "G":
        return ["G"] + lean(e[1], leaf_ty) + lean(e[2], leaf_ty)
    if k == "LEN":
        return ["LEN"] + lean(e[1], leaf_ty)
    if k == "A":
        return ["A", e[1]] + lean(e[2], leaf_ty)
    if k in ("T", "LS"):
        out = [k, str(len(e[1]))]
        for x in e[1]:
            out += lean(x, leaf_ty)
        return out
    if k == "VEC":
        return ["VEC"] + lean(e[1], leaf_ty) + lean(e[2], leaf_ty) + lean(e[3], leaf_ty)
    if k == "F":
        out = ["F", e[1], str(len(e[2]))]
        for a in e[2]:
            out += [a[0]] + lean(a[1], leaf_ty)
        return out
    raise ValueError(k)


def children(e):
    k = e[0]
    if k in ("C", "L"):
        return []
    if k == "B":
        return [e[2], e[3]]
    if k == "U":
        return [e[2]]
    if k == "G":
        return [e[1], e[2]]
    if k == "LEN":
        return [e[1]]
    if k == "A":
        return [e[2]]
    if k in ("T", "LS"):
        return list(e[1])
    if k == "VEC":
        return [e[1], e[2], e[3]]
    if k == "F":
        return [a[1] for a in e[2]]
    return []


def leaves_of(e):
    if e[0] == "L":
        return {e[1]}
    out = set()
    for c in children(e):
        out |= leaves_of(c)
    return out


def depth_of(e):
    cs = children(e)
    return 1 + (max(map(depth_of, cs)) if cs else 0)


def node_kind(e):
    """coarse description of a node for keys / histograms"""
    k = e[0]
    if k == "C":
        v = e[1]
        return "const-" + ("vector" if isinstance(v, VecConst) else type(v).__name__)
    if k == "L":
        return "leaf"
    if k == "B":
        return "bin-" + e[1]
    if k == "U":
        return "un-" + e[1]
    if k == "F":
        return "call-" + e[1] + ("-star" if any(a[0] == "S" for a in e[2]) else "")
    return {"G": "getitem", "LEN": "len", "A": "attr", "T": "tuple", "LS": "list", "VEC": "Vector"}[k]


# ------------------------------------------------------------------------------------------------ leaves
LEAF_POOL = {
    "int": ["DiscreteRange(-2, 3)", "DiscreteRange(1, 4)", "Uniform(1, 2, 5)", "Uniform(0, 1)", "Uniform(True, False)",
            "DiscreteRange(0, 2)", "Uniform(-1, 0, 1)", "Options({2: 1, 3: 2})"],
    "num": ["Range(0.25, 3)", "Range(-2, 2)", "Uniform(0.5, 1, 2.25)", "Options({0.25: 1, 3: 2})", "Range(1, 2)",
            "Uniform(0.5, -1.5)", "Normal(0, 1)", "TruncatedNormal(1, 0.5, 0, 2)", "Range(DiscreteRange(0, 1), 4)"],
    "tup": ["Uniform((1, 2), (3, 4, 5))", "Uniform((0, 0, 0), (1, 2, 3))", "Uniform((), (7,))", "Uniform((1, 2, 3), (4, 5, 6))"],
    "lst": ["Uniform([1], [2, 3])", "Uniform([0, 0, 0], [1, 2, 3])", "Uniform([], [4, 5, 6])"],
    "str": ["Uniform('ab', 'c')", "Uniform('', 'xyz')"],
    "vec": ["Uniform(Vector(1, 2, 3), Vector(0, 0, 0))", "Uniform(Vector(0.5, -1, 2), Vector(4, 0, 0.25))"],
    "mixed": ["Uniform(1, (2, 3))", "Uniform(2, None)", "Uniform((1, 2, 3), Vector(1, 1, 1))", "Uniform('a', 1)",
              "Uniform((1, 2), [3])"],
}
INT_CONSTS = [0, 1, -1, 2, 3, 1, 0, 4, -2, True, False]
NUM_CONSTS = [0.5, 1.0, 0.0, -0.0, 2.5, -1.5, 0.25, 1, 0, 3]
IDENT_CONSTS = [0, 1, 0.0, 1.0, True, False, -0.0, 1, 0]


class Gen:
    def __init__(self, rng, malformed=0.06):
        self.rng = rng
        self.leaves = []     # source strings
        self.leaf_kind = []
        self.malformed = malformed

    def leaf(self, kind):
        r = self.rng
        # reuse an existing leaf of the kind half of the time (shared sub-expressions)
        same = [i for i, k in enumerate(self.leaf_kind) if k == kind]
        if same and (r.random() < 0.5 or len(self.leaves) >= 5):
            return ("L", r.choice(same))
        self.leaves.append(r.choice(LEAF_POOL[kind]))
        self.leaf_kind.append(kind)
        return ("L", len(self.leaves) - 1)

    def const(self, kind):
        r = self.rng
        if kind == "int":
            return ("C", r.choice(INT_CONSTS))
        if kind == "num":
            return ("C", r.choice(NUM_CONSTS))
        if kind == "tup":
            return ("C", r.choice([(), (1,), (1, 2), (0, 0, 0), (1, 2, 3), (0.5, 2), (0, 0), (4, 5, 6, 7)]))
        if kind == "lst":
            return ("C", r.choice([[], [1], [1, 2], [0, 0, 0], [1, 2, 3]]))
        if kind == "str":
            return ("C", r.choice(["", "a", "bc"]))
        if kind == "vec":
            return ("C", VecConst(*r.choice([(0, 0, 0), (1, 2, 3), (0.5, -1, 2), (0, 0, 0), (0.0, 0.0, 0.0), (1, 0, 0)])))
        return ("C", None)

    def any_kind(self):
        return self.rng.choice(["int", "num", "tup", "lst", "str", "vec", "int", "num", "mixed"])

    def gen(self, kind, depth):
        r = self.rng
        if r.random() < self.malformed:
            kind = self.any_kind()
        if kind == "mixed":
            return self.leaf("mixed") if r.random() < 0.7 else self.gen(self.any_kind(), depth)
        if depth <= 0 or r.random() < 0.18:
            return self.leaf(kind) if r.random() < 0.62 else self.const(kind)
        d = depth - 1
        g = self.gen
        if kind == "int":
            c = r.random()
            if c < 0.34:
                op = r.choice(["add", "sub", "mul", "floordiv", "mod", "add", "sub", "mul"])
                return ("B", op, g("int", d), g("int", d))
            if c < 0.52:      # identity-shaped forms, both orders
                op, k = r.choice([("add", 0), ("sub", 0), ("mul", 1), ("floordiv", 1), ("pow", 1), ("mod", 1), ("add", 0), ("mul", 1)])
                k = r.choice([k, k, k, float(k), bool(k)])
                x = g("int", d)
                return ("B", op, x, ("C", k)) if r.random() < 0.6 else ("B", op, ("C", k), x)
            if c < 0.6:
                return ("U", r.choice(["neg", "pos", "abs"]), g("int", d))
            if c < 0.68:
                return ("LEN", g(r.choice(["tup", "lst", "str", "vec"]), d))
            if c < 0.8:
                return ("G", g(r.choice(["tup", "lst"]), d), g("int", d) if r.random() < 0.5 else ("C", r.choice([0, 1, -1, 2, -2, 5])))
            if c < 0.9:
                return self.call("int", d)
            return ("B", "pow", g("int", d), ("C", r.choice([0, 1, 2, 3])))
        if kind == "num":
            c = r.random()
            if c < 0.4:
                op = r.choice(["add", "sub", "mul", "truediv"])
                return ("B", op, g(r.choice(["num", "int", "num"]), d), g(r.choice(["num", "int", "num"]), d))
            if c < 0.58:
                op, k = r.choice([("add", 0), ("sub", 0), ("mul", 1), ("truediv", 1), ("pow", 1), ("floordiv", 1), ("mod", 1), ("add", 0)])
                k = r.choice([k, k, float(k), bool(k), -0.0 if k == 0 else 1.0])
                x = g("num", d) if op not in ("floordiv", "mod") else self.leaf("num")
                return ("B", op, x, ("C", k)) if r.random() < 0.6 else ("B", op, ("C", k), x)
            if c < 0.66:
                return ("U", r.choice(["neg", "pos", "abs"]), g("num", d))
            if c < 0.76:
                return ("A", r.choice(["x", "y", "z"]), g("vec", d))
            if c < 0.82:
                return ("G", g("vec", d), ("C", r.choice([0, 1, 2, -1, 3])) if r.random() < 0.6 else g("int", d))
            if c < 0.92:
                return self.call("num", d)
            if c < 0.96:
                return ("B", "pow", g("num", d), ("C", r.choice([0, 1, 2, 3, -1])))
            return g("int", d)
        if kind in ("tup", "lst"):
            c = r.random()
            lit = "T" if kind == "tup" else "LS"
            if c < 0.35:
                n = r.choice([0, 1, 2, 3, 3])
                return (lit, [g(r.choice(["int", "num", "int", kind]), d) for _ in range(n)])
            if c < 0.6:
                return ("B", "add", g(kind, d), g(kind, d))
            if c < 0.8:
                cnt = g("int", d) if r.random() < 0.5 else ("C", r.choice([0, 1, 2, -1]))
                s = g(kind, d)
                return ("B", "mul", s, cnt) if r.random() < 0.5 else ("B", "mul", cnt, s)
            return self.leaf(kind) if r.random() < 0.6 else self.const(kind)
        if kind == "str":
            c = r.random()
            if c < 0.45:
                return ("B", "add", g("str", d), g("str", d))
            if c < 0.7:
                cnt = g("int", d) if r.random() < 0.5 else ("C", r.choice([0, 1, 2]))
                s = g("str", d)
                return ("B", "mul", s, cnt) if r.random() < 0.5 else ("B", "mul", cnt, s)
            if c < 0.8:
                return ("G", g("str", d), ("C", r.choice([0, -1, 1])))
            return self.leaf("str") if r.random() < 0.6 else self.const("str")
        if kind == "vec":
            c = r.random()
            if c < 0.2:
                return ("VEC", g("num", d), g(r.choice(["num", "int"]), d), g(r.choice(["num", "int"]), d))
            if c < 0.5:
                op = r.choice(["add", "sub"])
                other = r.choice(["vec", "vec", "tup3", "zero"])
                a = g("vec", d)
                if other == "vec":
                    b = g("vec", d)
                elif other == "zero":
                    b = ("C", r.choice([VecConst(0, 0, 0), VecConst(0.0, 0, 0), (0, 0, 0), [0, 0, 0]]))
                else:
                    b = r.choice([("C", (1, 2, 3)), ("C", [1, 0, 0]), ("L", self.leaf_of_src("Uniform((0, 0, 0), (1, 2, 3))", "tup"))])
                return ("B", op, a, b) if r.random() < 0.6 else ("B", op, b, a)
            if c < 0.75:
                k = g(r.choice(["num", "int"]), d) if r.random() < 0.6 else ("C", r.choice([0, 1, 2, 0.5, -1]))
                v = g("vec", d)
                return ("B", "mul", v, k) if r.random() < 0.5 else ("B", "mul", k, v)
            if c < 0.88:
                k = g("num", d) if r.random() < 0.5 else ("C", r.choice([1, 2, 0.5, 0, 4]))
                return ("B", "truediv", g("vec", d), k)
            return self.leaf("vec") if r.random() < 0.6 else self.const("vec")
        return self.leaf("mixed")

    def leaf_of_src(self, s, kind):
        if s in self.leaves:
            return self.leaves.index(s)
        self.leaves.append(s)
        self.leaf_kind.append(kind)
        return len(self.leaves) - 1

    def call(self, kind, d):
        r = self.rng
        fn = r.choice(["max", "min"])
        args = []
        n = r.choice([1, 2, 2, 3])
        for _ in range(n):
            c = r.random()
            if c < 0.3:
                args.append(("S", self.gen(r.choice(["tup", "lst", "tup", "vec"]), d)))
            else:
                args.append(("P", self.gen(kind, d)))
        if n == 1 and args[0][0] == "P":
            args[0] = ("P", self.gen(r.choice(["tup", "lst"]), d))
        return ("F", fn, args)


# ------------------------------------------------------------------------------------------------ regression corpus
def corpus():
    """(name, leaves, expression): fixed cases that run first on every run"""
    L0 = ("L", 0)
    V = VecConst
    out = []
    rng_num = ["Range(0.2, 0.8)"]
    for nm, e in [
        ("floordiv-one", ("B", "floordiv", L0, ("C", 1))),           # fixed by 09a47d92
        ("floordiv-one-float", ("B", "floordiv", L0, ("C", 1.0))),
        ("mod-one", ("B", "mod", L0, ("C", 1))),
        ("rsub-zero", ("B", "sub", ("C", 0), L0)),
        ("rtruediv-one", ("B", "truediv", ("C", 1), L0)),
        ("rpow-one", ("B", "pow", ("C", 1), L0)),
        ("add-zero", ("B", "add", L0, ("C", 0))),
        ("radd-zero", ("B", "add", ("C", 0.0), L0)),
        ("sub-zero", ("B", "sub", L0, ("C", False))),
        ("mul-one", ("B", "mul", L0, ("C", 1.0))),
        ("rmul-one", ("B", "mul", ("C", True), L0)),
        ("truediv-one", ("B", "truediv", L0, ("C", 1))),
        ("pow-one", ("B", "pow", L0, ("C", 1))),
        ("pow-zero", ("B", "pow", L0, ("C", 0))),
        ("nested-identities", ("B", "mul", ("C", 1), ("B", "add", ("B", "sub", ("B", "floordiv", L0, ("C", 1)), ("C", 0)), ("C", 0)))),
    ]:
        out.append((nm, rng_num, e))
    seqs = [("tuple", "Uniform((3,), (4, 5))", (1, 2)), ("list", "Uniform([3], [4, 5])", [1, 2]), ("str", "Uniform('b', 'cd')", "a")]
    for nm, leaf, c in seqs:
        out.append((f"reflected-concat-{nm}", [leaf], ("B", "add", ("C", c), L0)))
        out.append((f"forward-concat-{nm}", [leaf], ("B", "add", L0, ("C", c))))
        out.append((f"reflected-repeat-{nm}", [leaf], ("B", "mul", ("C", 2), L0)))
        out.append((f"forward-repeat-{nm}", [leaf], ("B", "mul", L0, ("C", 2))))
    out.append(("repeat-const-by-random", ["DiscreteRange(0, 3)"], ("B", "mul", ("C", (1, 2)), L0)))
    vleaf = ["Range(0, 1)"]
    vd = ("B", "add", ("VEC", L0, ("C", 2), ("C", 3)), ("C", V(1, 1, 1)))
    for nm, e in [
        ("vecdist-plus-zero-vector", ("B", "add", vd, ("C", V(0, 0, 0)))),
        ("vecdist-minus-zero-vector", ("B", "sub", vd, ("C", V(0, 0, 0)))),
        ("zero-vector-minus-vecdist", ("B", "sub", ("C", V(0, 0, 0)), vd)),
        ("zero-vector-plus-vecdist", ("B", "add", ("C", V(0, 0, 0)), vd)),
        ("vecdist-plus-zero-tuple", ("B", "add", vd, ("C", (0, 0, 0)))),
        ("vecdist-plus-tuple", ("B", "add", vd, ("C", (1, 0, 0)))),
        ("tuple-plus-vecdist", ("B", "add", ("C", (1, 0, 0)), vd)),
        ("vecdist-minus-list", ("B", "sub", vd, ("C", [1, 0, 0]))),
        ("vector-plus-zero-tuple", ("B", "add", ("VEC", L0, ("C", 2), ("C", 3)), ("C", (0, 0, 0)))),
        ("vector-plus-short-zero-tuple", ("B", "add", ("VEC", L0, ("C", 2), ("C", 3)), ("C", (0, 0)))),
        ("vector-plus-raw-tuple", ("B", "add", ("VEC", L0, ("C", 2), ("C", 3)), ("T", [("C", 1), L0, ("C", 3)]))),
        ("raw-list-minus-vector", ("B", "sub", ("LS", [("C", 1), L0, ("C", 3)]), ("VEC", L0, ("C", 2), ("C", 3)))),
        ("const-vector-plus-raw-tuple", ("B", "add", ("C", V(1, 2, 3)), ("T", [("C", 1), L0, ("C", 3)]))),
        ("vector-times-random", ("B", "mul", ("C", V(1, 2, 3)), L0)),
        ("random-times-vector", ("B", "mul", L0, ("C", V(1, 2, 3)))),
        ("scalar-times-vecdist", ("B", "mul", ("C", 2), vd)),
        ("vecdist-attr", ("A", "y", vd)),
        ("vecdist-index", ("G", vd, ("C", -1))),
        ("vecdist-len", ("LEN", vd)),
        ("star-vecdist", ("F", "max", [("S", vd), ("P", ("C", 2.5))])),
    ]:
        out.append((nm, vleaf, e))
    for nm, leaf, e in [
        ("const-vector-plus-short-zero", "Uniform((), (0, 0), (1, 2, 3))", ("B", "add", ("C", V(1, 2, 3)), L0)),
        ("short-zero-plus-const-vector", "Uniform([], [1, 2, 3])", ("B", "add", L0, ("C", V(1, 2, 3)))),
        ("const-vector-minus-short-zero", "Uniform((0,), (4, 5, 6))", ("B", "sub", ("C", V(1, 2, 3)), L0)),
        ("random-vector-plus-short-zero", "Uniform((), (1, 2, 3))", ("B", "add", ("VEC", ("L", 1), ("C", 2), ("C", 3)), L0)),
    ]:
        out.append((nm, [leaf, "Range(0, 1)"], e))
    tl = ["Uniform((1, 2), (3, 4, 5))", "DiscreteRange(0, 1)"]
    L1 = ("L", 1)
    for nm, e in [
        ("index-random-by-random", ("G", L0, L1)),
        ("index-negative-random", ("G", L0, ("U", "neg", ("B", "add", L1, ("C", 1))))),
        ("index-out-of-range", ("G", L0, ("C", 2))),
        ("index-raw-tuple-const", ("G", ("T", [L1, ("C", 5)]), ("C", 0))),
        ("index-raw-tuple-random", ("G", ("T", [L1, ("C", 5)]), L1)),
        ("index-const-tuple-random", ("G", ("C", (7, 8)), L1)),
        ("len-random", ("LEN", L0)),
        ("len-raw", ("LEN", ("T", [L1, L1, ("C", 1)]))),
        ("star-random", ("F", "max", [("S", L0), ("P", ("C", 0))])),
        ("star-raw", ("F", "min", [("S", ("T", [L1, ("C", 5)])), ("P", ("C", 3))])),
        ("star-const", ("F", "max", [("S", ("C", (1, 9))), ("P", L1)])),
        ("max-single-random-iterable", ("F", "max", [("P", L0)])),
        ("nested-literals", ("T", [L1, ("LS", [L1, ("T", [("B", "add", L1, ("C", 1))])]), ("C", "s")])),
        ("raw-concat", ("B", "add", ("T", [L1]), ("C", (1, 2)))),
        ("const-raw-concat", ("B", "add", ("C", (1, 2)), ("T", [L1]))),
        ("raw-plus-random", ("B", "add", ("T", [L1]), L0)),
        ("raw-repeat", ("B", "mul", ("T", [L1, ("C", 0)]), ("C", 2))),
        ("random-plus-raw", ("B", "add", L0, ("T", [L1]))),
    ]:
        out.append((nm, tl, e))
    return out


# ------------------------------------------------------------------------------------------------ real Scenic
_scenic = {}


def S():
    if not _scenic:
        import scenic
        import scenic.core.distributions as D
        import scenic.core.vectors as V
        import scenic.core.lazy_eval as LZ
        _scenic.update(scenic=scenic, D=D, V=V, LZ=LZ)
    return _scenic


def ty_name(ty):
    import numbers
    from scenic.core.vectors import Vector
    try:
        if isinstance(ty, type):
            if issubclass(ty, numbers.Real):
                return "N"
            if issubclass(ty, Vector):
                return "V"
    except TypeError:
        pass
    return "O"


def shape_real(o, leaf_ids):
    s = S()
    D, V = s["D"], s["V"]
    sh = lambda x: shape_real(x, leaf_ids)
    if id(o) in leaf_ids:
        return f"L{leaf_ids[id(o)]}"
    if isinstance(o, D.StarredDistribution):
        return "*" + sh(o.value)
    if isinstance(o, V.VectorOperatorDistribution):
        return f"VO({o.operator},{sh(o.object)}" + "".join("," + sh(a) for a in o.operands) + ")"
    if isinstance(o, V.VectorMethodDistribution):
        return f"VM({o.method.__name__}" + "".join("," + sh(a) for a in o.arguments) + ")"
    if isinstance(o, D.OperatorDistribution):
        tail = f"({o.operator},{sh(o.object)}" + "".join("," + sh(a) for a in o.operands) + ")"
        if o.kwoperands:
            tail += "{kw}"
        return f"O:{ty_name(o._valueType)}" + tail
    if isinstance(o, D.AttributeDistribution):
        return f"A:{ty_name(o._valueType)}({o.attribute},{sh(o.object)})"
    if isinstance(o, D.TupleDistribution):
        return ("TDL(" if o.builder is list else "TD(") + ",".join(sh(c) for c in o.coordinates) + ")"
    if isinstance(o, D.FunctionDistribution):
        return f"F({o.function.__name__}" + "".join("," + sh(a) for a in o.arguments) + ")"
    if isinstance(o, D.Distribution):
        return f"D<{type(o).__name__}>"
    if isinstance(o, V.Vector):
        cs = [sh(c) for c in o.coordinates]
        return "c" if all(c == "c" for c in cs) else "V(" + ",".join(cs) + ")"
    if isinstance(o, (tuple, list)):
        cs = [sh(c) for c in o]
        if all(c == "c" for c in cs):
            return "c"
        return ("RTL(" if isinstance(o, list) else "RT(") + ",".join(cs) + ")"
    if s["LZ"].isLazy(o):
        return f"Z<{type(o).__name__}>"
    return "c"


REJECT_CLASSES = ("TypeError", "RandomControlFlowError", "InvalidScenarioError", "ScenicSyntaxError", "SpecifierError")


class RealResult:
    """outcome of one expression on the real code"""

    def __init__(self):
        self.stage = None        # 'compile' | 'sample' | None
        self.exc = None          # exception class name
        self.msg = ""
        self.shape = None
        self.leaf_ty = None
        self.samples = []        # [(leaf canon list, leaf python values, value canon or ('exc', name, msg))]


def program_text(leaves, expr_src, extra="", scenic_leaves=False):
    """the Scenic program for one expression.  By default the leaves are created by props.c05_hook.make_leaves (same
    constructors) and imported; with scenic_leaves=True they are assignment statements of the program itself."""
    if scenic_leaves:
        lines = ["from props.c05_hook import record"] + ([extra] if extra else [])
        for i, l in enumerate(leaves):
            lines.append(f"x{i} = record('L{i}', {l})")
    else:
        lines = ["from props.c05_hook import record" + "".join(f", x{i}" for i in range(len(leaves)))] + ([extra] if extra else [])
    params = [f"leaf{i} = x{i}" for i in range(len(leaves))] + [f"result = record('E', {expr_src})"]
    lines.append("param " + ", ".join(params))
    return "\n".join(lines) + "\n"


def run_real(leaves, expr_src, seed, nsamples=3, scenic_leaves=None, extra=""):
    """compile the Scenic program, record the forest of the expression, sample scenes"""
    from props import c05_hook
    s = S()
    res = RealResult()
    if scenic_leaves is None:
        scenic_leaves = seed % 8 == 0          # one program in eight defines its leaves in Scenic syntax
    code = program_text(leaves, expr_src, extra=extra, scenic_leaves=scenic_leaves)
    c05_hook.reset()
    random.seed(seed)
    import numpy
    numpy.random.seed(seed % (2 ** 32))
    try:
        if not scenic_leaves:
            c05_hook.make_leaves(leaves)
        sc = s["scenic"].scenarioFromString(code)
    except Exception as e:
        res.stage, res.exc, res.msg = "compile", type(e).__name__, str(e)[:200]
        rec = c05_hook.RECORDED
        if all(f"L{i}" in rec for i in range(len(leaves))):
            res.leaf_ty = [ty_name(getattr(rec[f"L{i}"], "_valueType", object)) for i in range(len(leaves))]
        return res
    rec = c05_hook.RECORDED
    leaf_objs = [rec[f"L{i}"] for i in range(len(leaves))]
    leaf_ids = {id(o): i for i, o in enumerate(leaf_objs)}
    res.leaf_ty = [ty_name(getattr(o, "_valueType", object)) for o in leaf_objs]
    res.shape = shape_real(rec["E"], leaf_ids)
    for k in range(nsamples):
        try:
            scene, _ = sc.generate(maxIterations=50, verbosity=0)
        except Exception as e:
            # the scene could not be generated: the leaf values of that attempt are not observable, so draw the
            # leaves with the same machinery (Samplable.sampleAll) and sample the expression given them
            first = ("exc", type(e).__name__, str(e)[:200])
            try:
                sub = s["D"].Samplable.sampleAll(leaf_objs)
                lv = [sub[o] for o in leaf_objs]
            except Exception as e2:
                res.samples.append((None, None, first))
                continue
            try:
                top = s["D"].toDistribution(rec["E"])
                val = top.sample(sub) if s["LZ"].needsSampling(top) else top
                out = canon(val)
            except Exception as e2:
                out = ("exc", type(e2).__name__, str(e2)[:200])
            res.samples.append(([canon(v) for v in lv], lv, out))
            continue
        lv = [scene.params[f"leaf{i}"] for i in range(len(leaves))]
        res.samples.append(([canon(v) for v in lv], lv, canon(scene.params["result"])))
    return res


def py_eval(expr_src, leaf_values):
    from scenic.core.vectors import Vector
    ns = {f"x{i}": v for i, v in enumerate(leaf_values)}
    ns.update(Vector=Vector, max=max, min=min, len=len, abs=abs, __builtins__={})
    try:
        return canon(eval(expr_src, ns))
    except Exception as e:
        return ("exc", type(e).__name__, str(e)[:200])


# ------------------------------------------------------------------------------------------------ comparing one expression
INT_PURE_OPS = {"add", "sub", "mul", "floordiv", "mod", "pow"}
IDEAL_MSGS = ("cannot be interpreted as an integer", "indices must be integers", "can't multiply sequence by non-int",
              "integer argument expected", "must be integers or slices")


def int_pure(e, leaf_kind):
    k = e[0]
    if k == "C":
        return isinstance(e[1], (bool, int))
    if k == "L":
        return leaf_kind[e[1]] == "int"
    if k == "B":
        return e[1] in INT_PURE_OPS and int_pure(e[2], leaf_kind) and int_pure(e[3], leaf_kind)
    if k == "U":
        return int_pure(e[2], leaf_kind)
    if k == "LEN":
        return True
    return False


def exact_safe(e, leaf_kind):
    """discontinuous consumers (//, %, index, repetition count, exponent) only see exactly represented operands"""
    def atom(x):
        return x[0] in ("C", "L") or int_pure(x, leaf_kind)
    k = e[0]
    ok = True
    if k == "B" and e[1] in ("floordiv", "mod"):
        ok = atom(e[2]) and atom(e[3])
    elif k == "B" and e[1] == "pow":
        ok = atom(e[3])
    elif k == "B" and e[1] == "mul":
        ok = True     # a repetition count must be an int in Python anyway
    elif k == "G":
        ok = atom(e[2])
    return ok and all(exact_safe(c, leaf_kind) for c in children(e))


def pow_modelled(e, lv):
    """every exponent evaluates to an integer (the model leaves other exponents undefined)"""
    if e[0] == "B" and e[1] == "pow":
        v = py_eval(src(e[3]), lv)
        if v[0] != "n" or v[1].denominator != 1 or abs(v[1]) > 6:
            return False
    return all(pow_modelled(c, lv) for c in children(e))


def inside_universe(e, lv):
    """every sub-expression evaluates (in plain Python) to a value of the model's universe, and max/min only see numbers"""
    v = py_eval(src(e), lv)
    if v[0] != "exc" and has_other(v):
        return False
    if e[0] == "F":
        for a in e[2]:
            av = py_eval(src(a[1]), lv)
            items = [av]
            if a[0] == "S" or len(e[2]) == 1:
                items = av[1] if av[0] in ("t", "l") else ([("n", x) for x in av[1:]] if av[0] == "v" else [av])
            if any(i[0] not in ("n", "exc") for i in items):
                return False
    return all(inside_universe(c, lv) for c in children(e))


def magnitude(e, lv):
    """largest |number| among the values of all sub-expressions (scale for the float-vs-exact tolerance)"""
    m = Fraction(1)

    def nums(c):
        if c[0] == "n":
            yield abs(c[1])
        elif c[0] == "v":
            for x in c[1:]:
                yield abs(x)
        elif c[0] in ("t", "l"):
            for x in c[1]:
                yield from nums(x)

    def walk(x):
        nonlocal m
        v = py_eval(src(x), lv)
        if v[0] != "exc":
            for q in nums(v):
                m = max(m, q)
        for c in children(x):
            walk(c)
    walk(e)
    return m


def is_exc(c):
    return c is not None and c[0] == "exc"


def lean_line(e, leaf_ty, leaf_canon):
    toks = ["C05", "ev", str(len(leaf_canon))]
    for c in leaf_canon:
        toks += val_tokens(c)
    toks += lean(e, leaf_ty)
    return " ".join(toks)


def encode_expr(e):
    def enc_const(v):
        if isinstance(v, VecConst):
            return {"v": list(v.c)}
        if isinstance(v, tuple):
            return {"t": [enc_const(x) for x in v]}
        if isinstance(v, list):
            return {"l": [enc_const(x) for x in v]}
        return v
    k = e[0]
    if k == "C":
        return ["C", enc_const(e[1])]
    if k == "L":
        return ["L", e[1]]
    if k in ("T", "LS"):
        return [k, [encode_expr(x) for x in e[1]]]
    if k == "F":
        return ["F", e[1], [[a[0], encode_expr(a[1])] for a in e[2]]]
    if k == "B":
        return ["B", e[1], encode_expr(e[2]), encode_expr(e[3])]
    if k == "U":
        return ["U", e[1], encode_expr(e[2])]
    if k == "A":
        return ["A", e[1], encode_expr(e[2])]
    if k == "G":
        return ["G", encode_expr(e[1]), encode_expr(e[2])]
    if k == "LEN":
        return ["LEN", encode_expr(e[1])]
    if k == "VEC":
        return ["VEC"] + [encode_expr(x) for x in e[1:]]
    raise ValueError(k)


def decode_expr(j):
    def dec_const(v):
        if isinstance(v, dict):
            if "v" in v:
                return VecConst(*v["v"])
            if "t" in v:
                return tuple(dec_const(x) for x in v["t"])
            return [dec_const(x) for x in v["l"]]
        return v
    k = j[0]
    if k == "C":
        return ("C", dec_const(j[1]))
    if k == "L":
        return ("L", j[1])
    if k in ("T", "LS"):
        return (k, [decode_expr(x) for x in j[1]])
    if k == "F":
        return ("F", j[1], [(a[0], decode_expr(a[1])) for a in j[2]])
    if k == "B":
        return ("B", j[1], decode_expr(j[2]), decode_expr(j[3]))
    if k == "U":
        return ("U", j[1], decode_expr(j[2]))
    if k == "A":
        return ("A", j[1], decode_expr(j[2]))
    if k == "G":
        return ("G", decode_expr(j[1]), decode_expr(j[2]))
    if k == "LEN":
        return ("LEN", decode_expr(j[1]))
    if k == "VEC":
        return ("VEC",) + tuple(decode_expr(x) for x in j[1:])
    raise ValueError(k)


def property_verdict(stage, exc, msg, r, p):
    """the property itself on one sample: None = holds / outside the property, else (kind, text)"""
    if is_exc(p) or has_other(p):
        return None              # plain Python has no value (or one outside the value universe, e.g. a Vector of strings)
    if stage == "compile":
        if exc in REJECT_CLASSES:
            return None          # a deliberate rejection while compiling: no scene, nothing to compare
        return ("compile-crash", f"compiling raised {exc}: {msg}; plain Python gives {show_canon(p)}")
    if is_exc(r):
        return ("sample-exception", f"sampling raised {r[1]}: {r[2]}; plain Python gives {show_canon(p)}")
    if same(r, p, Fraction(1, 10 ** 12)):
        return None
    return ("value-mismatch", f"scene value {show_canon(r)} but plain Python gives {show_canon(p)}")


def show_canon(c):
    k = c[0]
    if k == "n":
        q = c[1]
        return str(q.numerator) if q.denominator == 1 else repr(float(q))
    if k == "none":
        return "None"
    if k == "s":
        return repr(c[1])
    if k in ("t", "l"):
        inner = ", ".join(show_canon(x) for x in c[1])
        return f"({inner})" if k == "t" else f"[{inner}]"
    if k == "v":
        return "Vector(" + ", ".join(show_canon(("n", x)) for x in c[1:]) + ")"
    if k == "exc":
        return f"<{c[1]}>"
    return f"<{c[1]}>"


def uncanon(c):
    """canonical value -> a Python value that is == to the original"""
    from scenic.core.vectors import Vector
    k = c[0]
    if k == "n":
        return int(c[1]) if c[1].denominator == 1 else float(c[1])
    if k == "none":
        return None
    if k == "s":
        return c[1]
    if k == "t":
        return tuple(uncanon(x) for x in c[1])
    if k == "l":
        return [uncanon(x) for x in c[1]]
    if k == "v":
        return Vector(*[uncanon(("n", x)) for x in c[1:]])
    raise ValueError(c)


def short_zero_case(e, leaf_canon):
    """a constant Vector combined by + / - with an operand sampled to an all-zero sequence of fewer than 3 elements"""
    if leaf_canon is None:
        return False
    try:
        leaf_values = [uncanon(c) for c in leaf_canon]
    except ValueError:
        return False
    for a, b in ((e[2], e[3]), (e[3], e[2])):
        if a[0] == "C" and isinstance(a[1], VecConst) and leaves_of(b):
            v = py_eval(src(b), leaf_values)
            if v[0] in ("t", "l") and len(v[1]) < 3 and all(x == ("n", Fraction(0)) for x in v[1]):
                return True
    return False


def classify_violation(kind, e, real, what="", leaf_values=None):
    """stable key of a failing expression (minimal failing sub-expression)"""
    k = e[0]
    if k == "B" and e[1] in ("add", "sub") and kind == "sample-exception" and "IndexError" in what and short_zero_case(e, leaf_values):
        return "vector-zero-identity-short-sequence"
    parts = [kind, node_kind(e)] + [node_kind(c) for c in children(e)]
    return ":".join(parts)[:100]


def expr_job(job):
    """(worker) one expression on the real code: forest shape, sampled values, plain-Python values"""
    name, leaves, kinds, e, seed, nsamples = job
    text = src(e)
    try:
        real = run_real(leaves, text, seed, nsamples)
    except RecursionError:
        return {"stage": "infra", "exc": "RecursionError", "msg": "", "shape": None, "leaf_ty": None, "samples": []}
    samples = real.samples
    if real.stage == "compile":
        # the leaves were built before the expression failed: draw them to obtain what plain Python computes
        from props import c05_hook
        rec = c05_hook.RECORDED
        samples = []
        if all(f"L{i}" in rec for i in range(len(leaves))):
            objs = [rec[f"L{i}"] for i in range(len(leaves))]
            try:
                sub = S()["D"].Samplable.sampleAll(objs)
                lv = [sub[o] for o in objs]
                samples = [([canon(v) for v in lv], lv, None)]
            except Exception:
                samples = []
    out = []
    for lc, lv, r in samples:
        if lc is None or any(has_other(c) for c in lc):
            continue
        p = py_eval(text, lv)
        out.append({"lc": lc, "r": r, "p": p, "pow_ok": pow_modelled(e, lv),
                    "universe": inside_universe(e, lv), "mag": magnitude(e, lv)})
    return {"stage": real.stage, "exc": real.exc, "msg": real.msg, "shape": real.shape, "leaf_ty": real.leaf_ty, "samples": out}


def is_raw_literal(x):
    """a tuple/list literal (or a concatenation/repetition of such) that contains a random leaf: a plain Python container"""
    if x[0] in ("T", "LS"):
        return bool(leaves_of(x))
    if x[0] == "B" and x[1] in ("add", "mul"):
        return is_raw_literal(x[2]) or is_raw_literal(x[3])
    return False


def unmodelled_syntax(e):
    """`str % x` formats its operand (any object): outside the model"""
    if e[0] == "B" and e[1] == "mod" and e[2][0] == "C" and isinstance(e[2][1], str):
        return True
    return any(unmodelled_syntax(c) for c in children(e))


def compare_with_model(ctx, job, res, smp, out_line, counters):
    """(C) the model against the real code and against plain Python on one sample"""
    name, leaves, kinds, e, seed, _ = job
    parts = [x.strip() for x in out_line.split("|")]
    text = src(e)
    if len(parts) != 4:
        ctx.broken("correspondence", "expression model (driver protocol)", f"{text}: {out_line[:100]}")
        return
    supported, m_py, m_sc, m_shape = parts[0] == "1", parse_res(parts[1]), parse_res(parts[2]), parts[3]
    p, r = smp["p"], smp["r"]
    if not smp["pow_ok"]:
        ctx.hist("lean_compare", "skipped:non-integral-exponent")
        return
    if not smp["universe"]:
        ctx.hist("lean_compare", "skipped:value-outside-universe")
        return
    # forest shape
    if res["stage"] == "compile" and res["exc"] == "TypeError" and any(m in res["msg"] for m in IDEAL_MSGS) and m_shape != "FAIL":
        ctx.hist("lean_compare", "scenic:int-float-idealisation")
        return
    if res["stage"] == "compile":
        shape_ok = m_shape == "FAIL"
        real_shape = f"<{res['exc']} while compiling>"
    else:
        shape_ok = m_shape == res["shape"]
        real_shape = res["shape"]
    if not shape_ok:
        counters["shape"] += 1
        if counters["shape"] <= 4:
            ctx.broken("correspondence", "forest built by Scenic vs model `build`",
                       f"{text} with leaves {leaves}: scenic={real_shape} model={m_shape}"[:1900])
    ctx.hist("forest_shape", "agree" if shape_ok else "DISAGREE")
    # values
    if any(c is not None and c[0] != "exc" and has_other(c) for c in (p, r)) or not smp["universe"]:
        ctx.hist("lean_compare", "skipped:value-outside-universe")
        return
    if not exact_safe(e, kinds):
        ctx.hist("lean_compare", "skipped:inexact-discontinuous")
        return
    if is_exc(p) and p[1] == "OverflowError":
        ctx.hist("lean_compare", "skipped:float-range")
        return
    tol = TOL * smp["mag"]

    def agree(model, actual):
        if actual is None:
            return True
        if is_exc(actual):
            if model is None:
                return True
            # int/float idealisation: the model lets an integral float act as an int
            return actual[1] == "TypeError" and any(m in actual[2] for m in IDEAL_MSGS) and "ideal"
        if model is None:
            return False
        return model[0] == actual[0] and same_abs(model, actual, tol)
    where = f"{text} with leaves {leaves} at {[show_canon(c) for c in smp['lc']]}"
    a = agree(m_py, p)
    if a == "ideal":
        ctx.hist("lean_compare", "python:int-float-idealisation")
    elif not a:
        counters["py"] += 1
        if counters["py"] <= 4:
            ctx.broken("correspondence", "model `evalPy` vs plain Python",
                       f"{where}: python={show_canon(p)} model={'err' if m_py is None else show_canon(m_py)}")
    else:
        ctx.hist("lean_compare", "python:agree")
    if res["stage"] == "compile":
        r = ("exc", res["exc"], res["msg"])
    b = agree(m_sc, r)
    if b == "ideal":
        ctx.hist("lean_compare", "scenic:int-float-idealisation")
    elif not b:
        counters["sc"] += 1
        if counters["sc"] <= 4:
            ctx.broken("correspondence", "model `evalNode (build e)` vs sampled Scenic value",
                       f"{where}: scenic={show_canon(r)} model={'err' if m_sc is None else show_canon(m_sc)}")
    else:
        ctx.hist("lean_compare", "scenic:agree")
    # the theorem, observed: on the supported fragment the two model values coincide
    if supported and not ((m_py is None and m_sc is None) or (m_py is not None and m_sc is not None and same(m_py, m_sc, Fraction(0)))):
        counters["thm"] += 1
        if counters["thm"] <= 3:
            ctx.broken("proof", "forest_eval_eq_python (observed on the driver)", f"{text}: evalPy={parts[1]} evalNode(build)={parts[2]}")
    ctx.hist("supported_fragment", "inside" if supported else "outside")


def same_abs(a, b, tol):
    if a[0] != b[0]:
        return False
    if a[0] == "n":
        return abs(a[1] - b[1]) <= tol
    if a[0] == "v":
        return all(abs(x - y) <= tol for x, y in zip(a[1:], b[1:]))
    if a[0] in ("t", "l"):
        return len(a[1]) == len(b[1]) and all(same_abs(x, y, tol) for x, y in zip(a[1], b[1]))
    return a == b


def first_violation(leaves, kinds, e, seed):
    """(kind, text, leaf values shown) of the first sample of this expression that violates the property"""
    res = expr_job(("", leaves, kinds, e, seed, 3))
    for smp in res["samples"]:
        v = property_verdict(res["stage"], res["exc"], res["msg"], smp["r"], smp["p"])
        if v:
            return (v[0], v[1], [show_canon(c) for c in smp["lc"]], smp["lc"])
    return None


def shrink(leaves, kinds, e, seed, kind):
    """smallest sub-expression that still violates the property (same kind of violation)"""
    best = e
    progress = True
    while progress:
        progress = False
        for c in children(best):
            if not leaves_of(c):
                continue
            v = first_violation(leaves, kinds, c, seed)
            if v and v[0] == kind:
                best, progress = c, True
                break
    return best


def report_violation(ctx, job, verdict, shown):
    name, leaves, kinds, e, seed, _ = job
    kind, what = verdict
    m = shrink(leaves, kinds, e, seed, kind)
    v = first_violation(leaves, kinds, m, seed)
    if v is None:        # shrinking lost it (sample dependent): report the original
        m, v = e, (kind, what, shown, None)
    key = classify_violation(kind, m, None, v[1], v[3])
    used = sorted(leaves_of(m))
    ctx.hist("violation_candidates", key)
    return ctx.violation(
        key,
        f"`{src(m)}` with " + ", ".join(f"x{i} = {leaves[i]}" for i in used) + f": {v[1]} (leaf values {v[2]})",
        {"kind": "expr", "leaves": leaves, "leaf_kind": kinds, "expr": encode_expr(m), "source": src(m), "seed": seed})


def leaf_kind_of(l):
    for k, pool in LEAF_POOL.items():
        if l in pool:
            return k
    return "int" if l.startswith("DiscreteRange") else "num" if l.startswith("Range") else "mixed"


class Workers:
    """worker processes for the real-code runs (fork: Scenic is already imported); started before the Lean build so
    that both proceed at the same time; falls back to in-process evaluation"""

    def __init__(self):
        import multiprocessing as mp
        self.nproc = int(os.environ.get("VERIF_WORKERS", "0") or 0) or max(1, min(8, (os.cpu_count() or 2) // 2))
        self.pool = None
        self.pending = {}
        if self.nproc > 1:
            S()
            try:
                self.pool = mp.get_context("fork").Pool(self.nproc)
            except (OSError, ValueError):
                self.pool = None

    def submit(self, name, fn, jobs):
        if self.pool is not None and len(jobs) >= 40:
            self.pending[name] = self.pool.map_async(fn, jobs, chunksize=8)
        else:
            self.pending[name] = (fn, jobs)

    def result(self, name):
        h = self.pending.pop(name)
        if isinstance(h, tuple):
            fn, jobs = h
            return [fn(j) for j in jobs]
        try:
            return h.get(timeout=6000)
        except Exception as e:
            if type(e).__name__ == "TimeoutError":
                raise Infra("worker pool timed out")
            raise

    def close(self):
        if self.pool is not None:
            self.pool.terminate()
            self.pool = None


def expression_jobs(ctx):
    rng = ctx.rng
    jobs = []
    for name, leaves, e in corpus():
        jobs.append(("corpus:" + name, leaves, [leaf_kind_of(l) for l in leaves], e, rng.getrandbits(31), 3))
    ntrees = ctx.budget(800, 30000)
    for t in range(ntrees):
        g = Gen(rng, malformed=0.06 if t % 5 else 0.3)
        kind = rng.choice(["int", "num", "num", "tup", "lst", "vec", "vec", "str", "num", "int"])
        e = g.gen(kind, rng.choice([1, 2, 3, 3, 4, 5]))
        if not g.leaves:
            g.leaf(kind)
        jobs.append(("gen", g.leaves, g.leaf_kind, e, rng.getrandbits(31), 3))
    return jobs


def expression_part(ctx, build_ok, jobs, results):
    """(C)+(S) over the regression corpus and generated expression trees"""
    found = False
    lines, index = [], []
    reported = set()
    for ji, (job, res) in enumerate(zip(jobs, results)):
        name, leaves, kinds, e, seed, _ = job
        if res["stage"] == "infra":
            ctx.hist("real_outcome", "skipped:" + res["exc"])
            continue
        ctx.case(("expr", src(e), tuple(leaves)), nontrivial=bool(leaves_of(e)))
        ctx.hist("expr_depth", min(depth_of(e), 8))
        ctx.hist("expr_root", node_kind(e))
        ctx.hist("real_outcome", "compile:" + res["exc"] if res["stage"] == "compile" else
                 "sampled" if all(not is_exc(s["r"]) for s in res["samples"]) else "sample-exception")
        modelled = not unmodelled_syntax(e)
        for smp in res["samples"]:
            if modelled and res["leaf_ty"] is not None:
                try:
                    lines.append(lean_line(e, res["leaf_ty"], smp["lc"]))
                    index.append((ji, smp))
                except ValueError:
                    ctx.hist("lean_compare", "outside-universe")
            v = property_verdict(res["stage"], res["exc"], res["msg"], smp["r"], smp["p"])
            if res["stage"] == "compile" and not is_exc(smp["p"]) and res["exc"] in REJECT_CLASSES:
                ctx.hist("property", "rejected-while-compiling:" + res["exc"])
            elif is_exc(smp["p"]) or has_other(smp["p"]):
                ctx.hist("property", "python-raises-or-outside-universe")
            elif v is None:
                ctx.hist("property", "holds")
            else:
                ctx.hist("property", "VIOLATED:" + v[0])
                sig = (v[0], node_kind(e), src(e)[:30])
                if len(reported) < 60 and sig not in reported and len(ctx.violations) < 3:
                    reported.add(sig)
                    if report_violation(ctx, job, v, [show_canon(c) for c in smp["lc"]]):
                        found = True
                break
    if build_ok and lines:
        t0 = ctx.elapsed()
        out = ctx.driver(lines)
        ctx.extra.setdefault("timing_s", {})["expressions_lean_driver"] = round(ctx.elapsed() - t0, 1)
        counters = {"shape": 0, "py": 0, "sc": 0, "thm": 0}
        for (ji, smp), ol in zip(index, out):
            compare_with_model(ctx, jobs[ji], results[ji], smp, ol, counters)
        ctx.extra["expression_model_disagreements"] = counters
    return found


# ------------------------------------------------------------------------------------------------ supports
class Unmodelled(Exception):
    pass


def abstract_support(o):
    """real distribution forest -> tokens of the model's SExpr (what `supportInterval` looks at)"""
    s = S()
    D = s["D"]
    import scenic.core.type_support as TS
    if isinstance(o, TS.TypecheckedDistribution):
        return abstract_support(o._dist)
    if isinstance(o, (int, float)) and not isinstance(o, D.Distribution):
        if isinstance(o, float) and not math.isfinite(o):
            raise Unmodelled("non-finite constant")
        return ["K", show_frac(Fraction(o))]
    if not hasattr(o, "supportInterval"):
        return ["X"]
    if isinstance(o, D.TruncatedNormal):
        return ["TN", show_frac(Fraction(o.low)), show_frac(Fraction(o.high))]
    if isinstance(o, D.Range):
        return ["RANGE"] + abstract_support(o.low) + abstract_support(o.high)
    if isinstance(o, D.DiscreteRange):
        return ["DRANGE"] + abstract_support(o.low) + abstract_support(o.high)
    if isinstance(o, D.MultiplexerDistribution):
        out = ["MUX", str(len(o.options))]
        for opt in o.options:
            out += abstract_support(opt)
        return out
    if isinstance(o, D.AttributeDistribution):
        if isinstance(o.object, D.MultiplexerDistribution):
            out = ["MUX", str(len(o.object.options))]
            for opt in o.object.options:
                out += abstract_support(getattr(opt, o.attribute))
            return out
        return ["X"]
    if isinstance(o, D.OperatorDistribution):
        name = o.operator[2:-2]
        refl = False
        if name not in BINOPS and name.startswith("r") and name[1:] in BINOPS:
            name, refl = name[1:], True
        if name in BINOPS and len(o.operands) == 1 and not o.kwoperands:
            return ["B", name, "r" if refl else "f"] + abstract_support(o.object) + abstract_support(o.operands[0])
        if name in UNOPS and not o.operands:
            return ["U", name] + abstract_support(o.object)
        return ["X"]
    if isinstance(o, D.FunctionDistribution):
        if o.support is None:
            return ["X"]
        fname = o.function.__name__
        if fname in ("max", "min") and not o.kwargs and o.support.__qualname__.startswith("monotonicDistributionFunction"):
            out = ["MONO", fname, str(len(o.arguments))]
            for a in o.arguments:
                out += abstract_support(a)
            return out
        if fname == "hypot" and not o.kwargs and (o.support.__name__ == "_hypotSupport"
                                                  or o.support.__qualname__.startswith("monotonicDistributionFunction")):
            out = ["HYP", str(len(o.arguments))]
            for a in o.arguments:
                out += abstract_support(a)
            return out
        raise Unmodelled("support function of " + fname)
    if type(o).supportInterval is D.Distribution.supportInterval:
        return ["X"]
    raise Unmodelled(type(o).__name__)


SUP_LEAVES = [
    # (source, corner values or None when the attainable set depends on other leaves)
    ("Range(0, 1)", [0, 1, 0.5]), ("Range(-3, 1)", [-3, 1, 0, -1]), ("Range(-2, -0.5)", [-2, -0.5, -1]),
    ("Range(0.5, 4)", [0.5, 4, 2]), ("Range(2, -1)", [2, -1, 0]), ("Range(-1, 1)", [-1, 1, 0, 0.25]),
    ("DiscreteRange(-2, 3)", [-2, 3, 0, 1]), ("DiscreteRange(1, 4)", [1, 4, 2]), ("DiscreteRange(0, 0)", [0]),
    ("Uniform(1, 2.5, -3)", [1, 2.5, -3]), ("Uniform(0.5, 4)", [0.5, 4]), ("Options({0.25: 1, 3: 2, -1: 1})", [0.25, 3, -1]),
    ("Uniform(Range(0, 1), 5)", None), ("Options({Range(-1, 0): 1, DiscreteRange(2, 3): 2})", None),
    ("Normal(0, 1)", [0, 3, -3]), ("TruncatedNormal(1, 0.5, 0, 2)", [0, 2, 1]), ("TruncatedNormal(-2, 1, -3, -1.5)", [-3, -1.5, -2]),
    ("Range(DiscreteRange(0, 2), 4)", None), ("DiscreteRange(0, Range(2, 3.5))", None),
    ("Uniform(Vector(1, 2, 3), Vector(Range(0, 1), -2, 5)).x", None), ("Uniform(Vector(-1, 2, 3), Vector(4, -2, 5)).y", [2, -2]),
    ("Uniform(1, 'a')", None),
]
SUP_CONSTS = [0, 1, -1, 2, 0.5, -2.5, 3, 0.0, 1.0, 4, -0.5]


def sup_gen(rng, leaves, depth):
    """numeric expression over the support leaves; returns the tuple AST (see `src`)"""
    def leaf():
        if leaves and rng.random() < 0.4:
            return ("L", rng.randrange(len(leaves)))
        leaves.append(rng.choice(SUP_LEAVES))
        return ("L", len(leaves) - 1)
    if depth <= 0 or rng.random() < 0.15:
        return leaf() if rng.random() < 0.8 else ("C", rng.choice(SUP_CONSTS))
    c = rng.random()
    d = depth - 1
    if c < 0.55:
        op = rng.choice(["add", "sub", "mul", "truediv", "add", "sub", "mul", "truediv", "floordiv", "mod"])
        a = sup_gen(rng, leaves, d)
        b = sup_gen(rng, leaves, d) if rng.random() < 0.6 else ("C", rng.choice(SUP_CONSTS))
        return ("B", op, a, b) if rng.random() < 0.6 else ("B", op, b, a)
    if c < 0.75:
        return ("U", rng.choice(["neg", "abs", "abs", "pos"]), sup_gen(rng, leaves, d))
    if c < 0.93:
        fn = rng.choice(["max", "min", "max", "min", "hypot"])
        n = rng.choice([2, 2, 3])
        return ("F", fn, [("P", sup_gen(rng, leaves, d) if rng.random() < 0.7 else ("C", rng.choice(SUP_CONSTS))) for _ in range(n)])
    return ("B", "pow", sup_gen(rng, leaves, d), ("C", rng.choice([2, 1, 0, 3])))


def sup_corpus():
    L = lambda i: ("L", i)
    R31 = ("Range(-3, 1)", [-3, 1, 0, -1])
    R01 = ("Range(0, 1)", [0, 1, 0.5])
    R12 = ("Range(0.5, 4)", [0.5, 4, 2])
    out = [
        ("hypot-negative", [R31], ("F", "hypot", [("P", L(0)), ("P", ("C", 0))])),
        ("hypot-two", [R31, R01], ("F", "hypot", [("P", L(0)), ("P", L(1))])),
        ("abs-straddle", [R31], ("U", "abs", L(0))),
        ("neg", [R31], ("U", "neg", L(0))),
        ("sub", [R01, R12], ("B", "sub", L(0), L(1))),
        ("rsub", [R01], ("B", "sub", ("C", 1), L(0))),
        ("mul-signs", [R31, ("Range(-1, 1)", [-1, 1, 0])], ("B", "mul", L(0), L(1))),
        ("div-positive", [R31, R12], ("B", "truediv", L(0), L(1))),
        ("rdiv", [R12], ("B", "truediv", ("C", -2), L(0))),
        ("div-straddle", [R01, R31], ("B", "truediv", L(0), L(1))),
        ("max", [R31, R01], ("F", "max", [("P", L(0)), ("P", L(1)), ("P", ("C", 0.5))])),
        ("min", [R31, R01], ("F", "min", [("P", L(0)), ("P", L(1))])),
        ("neg-unknown", [("Normal(0, 1)", [0, 3, -3])], ("U", "neg", L(0))),
        ("abs-unknown", [("Normal(0, 1)", [0, 3, -3])], ("U", "abs", L(0))),
        ("identity-add-zero", [R31], ("B", "add", L(0), ("C", 0))),
    ]
    return out


def sup_job(job):
    """(worker) supportInterval of a generated forest on the real code, samples and corner values"""
    name, leaves, e, seed, nsamples = job
    s = S()
    from props import c05_hook
    text = src(e)
    leaf_src = [l[0] for l in leaves]
    res = {"stage": None, "exc": None, "support": None, "tokens": None, "values": [], "corners": [], "msg": ""}
    code = program_text(leaf_src, text, extra="from scenic.core.geometry import hypot")
    c05_hook.reset()
    random.seed(seed)
    try:
        c05_hook.make_leaves(leaf_src)
        sc = s["scenic"].scenarioFromString(code)
    except Exception as ex:
        res["stage"], res["exc"], res["msg"] = "compile", type(ex).__name__, str(ex)[:200]
        return res
    obj = c05_hook.RECORDED["E"]
    try:
        lo, hi = s["D"].supportInterval(obj)
        if (lo is not None and not math.isfinite(lo)) or (hi is not None and not math.isfinite(hi)):
            res["support"] = "nonfinite"
        else:
            res["support"] = (None if lo is None else Fraction(lo), None if hi is None else Fraction(hi))
    except Exception as ex:
        res["support"] = "exc"
        res["msg"] = f"{type(ex).__name__}: {str(ex)[:100]}"
    try:
        res["tokens"] = abstract_support(obj)
    except Unmodelled as ex:
        res["tokens"] = None
        res["unmodelled"] = str(ex)
    for _ in range(nsamples):
        try:
            scene, _ = sc.generate(maxIterations=100, verbosity=0)
        except Exception as ex:
            continue
        v = scene.params["result"]
        if isinstance(v, (int, float)) and math.isfinite(v):
            res["values"].append((Fraction(v), [repr(scene.params[f"leaf{i}"]) for i in range(len(leaves))]))
    # corner values: plain Python on attainable extreme leaf values
    used = sorted(leaves_of(e))
    if used and all(leaves[i][1] is not None for i in used):
        combos = list(itertools.islice(itertools.product(*[leaves[i][1] for i in used]), 300))
        ns0 = {"max": max, "min": min, "abs": abs, "hypot": math.hypot, "__builtins__": {}}
        for combo in combos:
            ns = dict(ns0)
            for i, v in zip(used, combo):
                ns[f"x{i}"] = v
            try:
                v = eval(text, ns)
            except Exception:
                continue
            if isinstance(v, (int, float)) and math.isfinite(v):
                res["corners"].append((Fraction(v), [repr(c) for c in combo]))
    return res


def support_jobs(ctx):
    rng = ctx.rng
    jobs = []
    for name, leaves, e in sup_corpus():
        jobs.append(("corpus:" + name, leaves, e, rng.getrandbits(31), 25))
    for t in range(ctx.budget(250, 8000)):
        leaves = []
        e = sup_gen(rng, leaves, rng.choice([1, 2, 2, 3, 4]))
        if not leaves:
            leaves.append(rng.choice(SUP_LEAVES))
            e = ("B", "add", e, ("L", 0))
        jobs.append(("gen", leaves, e, rng.getrandbits(31), ctx.budget(12, 20)))
    return jobs


def support_part(ctx, build_ok, jobs, results):
    found = False
    lines, index = [], []
    bad_model = 0
    for ji, (job, res) in enumerate(zip(jobs, results)):
        name, leaves, e, seed, _ = job
        text = src(e)
        ctx.case(("support", text, tuple(l[0] for l in leaves)), nontrivial=True)
        if res["stage"] == "compile":
            ctx.hist("support_outcome", "compile:" + res["exc"])
            continue
        sup = res["support"]
        kind = ("exception" if sup == "exc" else "nonfinite" if sup == "nonfinite" else
                "none" if sup == (None, None) else "half" if None in sup else "bounded")
        ctx.hist("support_outcome", kind)
        ctx.hist("support_root", node_kind(e))
        # (S) the property: every value the expression takes lies inside the reported bounds
        if sup not in ("exc", "nonfinite"):
            lo, hi = sup
            for what, vals in (("sampled", res["values"]), ("corner", res["corners"])):
                for v, lv in vals:
                    scale = max(1, abs(v), abs(lo or 0), abs(hi or 0))
                    margin = Fraction(1, 10 ** 8) * scale
                    below = lo is not None and v < lo - margin
                    above = hi is not None and v > hi + margin
                    ctx.evaluations += 1
                    if below or above:
                        key = "support-unsound:" + node_kind(e)
                        used = sorted(leaves_of(e))
                        if ctx.violation(
                                key,
                                f"supportInterval(`{text}`) with " + ", ".join(f"x{i} = {leaves[i][0]}" for i in used)
                                + f" reports ({None if lo is None else float(lo)}, {None if hi is None else float(hi)}) but the "
                                f"{what} value {float(v)} (leaves {lv}) lies outside",
                                {"kind": "support", "leaves": [list(l) for l in leaves], "expr": encode_expr(e), "source": text,
                                 "seed": seed, "value": float(v), "leaf_values": lv, "how": what}):
                            found = True
                        break
                else:
                    continue
                break
        # (C) the interval model against the code
        if res["tokens"] is None:
            ctx.hist("support_model", "outside-model:" + res.get("unmodelled", "?")[:30])
            continue
        lines.append("C05 sup 0 " + " ".join(res["tokens"]))
        index.append(ji)
    if build_ok and lines:
        out = ctx.driver(lines)
        for ji, ol in zip(index, out):
            name, leaves, e, seed, _ = jobs[ji]
            sup = results[ji]["support"]
            if sup == "nonfinite":
                ctx.hist("support_model", "skipped:nonfinite")
                continue
            ol = ol.strip()
            if ol == "bad-op":
                ctx.broken("correspondence", "support model (driver protocol)", src(e))
                continue
            if ol == "exc" or sup == "exc":
                ok = (ol == "exc") == (sup == "exc")
            else:
                a, b = ol.split()
                mlo, mhi = (None if a == "-" else Fraction(a)), (None if b == "-" else Fraction(b))
                def eqb(m, r):
                    if m is None or r is None:
                        return m is None and r is None
                    return abs(m - r) <= Fraction(1, 10 ** 9) * max(1, abs(m), abs(r))
                ok = eqb(mlo, sup[0]) and eqb(mhi, sup[1])
            ctx.hist("support_model", "agree" if ok else "DISAGREE")
            if not ok:
                bad_model += 1
                if bad_model <= 4:
                    shown = sup if sup == "exc" else tuple(None if x is None else float(x) for x in sup)
                    ctx.broken("correspondence", "interval model `support` vs supportInterval",
                               f"{src(e)} with leaves {[l[0] for l in leaves]}: scenic={shown} model={ol}")
        ctx.extra["support_model_disagreements"] = bad_model
    return found


# ------------------------------------------------------------------------------------------------ further constructs (direct oracle)
def canon_ext(v):
    """canon, extended with Orientations (up to the sign of the quaternion), dicts and numpy arrays"""
    import numpy
    from scenic.core.vectors import Orientation
    if isinstance(v, Orientation):
        q = [Fraction(float(c)) for c in v.q]
        for c in q:
            if c != 0:
                if c < 0:
                    q = [-x for x in q]
                break
        return ("q",) + tuple(q)
    if isinstance(v, dict):
        return ("d", sorted(((repr(k), canon_ext(x)) for k, x in v.items()), key=lambda t: t[0]))
    if isinstance(v, numpy.ndarray):
        return ("t", [canon_ext(x) for x in v.tolist()])
    if isinstance(v, (tuple, list)):
        return ("t" if isinstance(v, tuple) else "l", [canon_ext(x) for x in v])
    return canon(v)


def same_ext(a, b, tol=Fraction(1, 10 ** 9)):
    if a[0] != b[0]:
        return False
    if a[0] == "q":
        return all(close(x, y, tol) for x, y in zip(a[1:], b[1:]))
    if a[0] == "d":
        return len(a[1]) == len(b[1]) and all(k1 == k2 and same_ext(x, y, tol) for (k1, x), (k2, y) in zip(a[1], b[1]))
    if a[0] in ("t", "l"):
        return len(a[1]) == len(b[1]) and all(same_ext(x, y, tol) for x, y in zip(a[1], b[1]))
    return same(a, b, tol)


def show_ext(c):
    if c[0] == "q":
        return "Orientation(q=" + ", ".join(repr(float(x)) for x in c[1:]) + ")"
    if c[0] == "d":
        return "{" + ", ".join(f"{k}: {show_ext(v)}" for k, v in c[1]) + "}"
    if c[0] in ("t", "l"):
        inner = ", ".join(show_ext(x) for x in c[1])
        return f"({inner})" if c[0] == "t" else f"[{inner}]"
    return show_canon(c)


EXTRA_PRELUDE = "import collections\nP = collections.namedtuple('P', 'a b')"
EXTRAS = [
    # (name, leaves, expression text, key used when it violates the property (None = 'extra:<name>'))
    ("namedtuple-literal", ["Range(0, 1)", "DiscreteRange(1, 3)"], "P(x0, (x1, 2))", None),
    ("namedtuple-attr", ["Range(0, 1)", "DiscreteRange(1, 3)"], "P(x0, (x1, 2)).b[0] + P(1, x1).a", None),
    ("namedtuple-random", ["Uniform(P(1, 2), P(3, 4))"], "x0.a * 2 + x0[1]", None),
    ("namedtuple-star", ["Uniform((1, 2), (3, 4))"], "P(*x0)", None),
    ("slice-random-start", ["Uniform((1, 2, 3, 4), (5, 6, 7, 8))", "DiscreteRange(0, 2)"], "x0[x1:3]", None),
    ("slice-const", ["Uniform((1, 2, 3, 4), (5, 6, 7, 8))"], "x0[1:]", None),
    ("slice-step", ["Uniform([1, 2, 3, 4], [5, 6, 7, 8])", "DiscreteRange(1, 2)"], "x0[::x1]", None),
    ("slice-negative", ["Uniform((1, 2, 3, 4), (5, 6, 7, 8))", "DiscreteRange(1, 2)"], "x0[-x1:]", None),
    ("method-count", ["Uniform((1, 2, 1), (3, 1))"], "x0.count(1)", None),
    ("method-index-random", ["Uniform((1, 2, 1), (3, 1, 2))", "Uniform(1, 2)"], "x0.index(x1)", None),
    ("method-index-list", ["Uniform([1, 2, 1], [3, 1])"], "x0.index(1) + x0.count(1)", None),
    ("method-str", ["Uniform('ab', 'cd')"], "x0.upper() + x0", None),
    ("method-kw", ["Uniform('a b c', 'd e')", "DiscreteRange(0, 2)"], "x0.split(sep=' ', maxsplit=x1)", None),
    ("method-kw-positional", ["Uniform('a b a', 'a a')", "DiscreteRange(0, 2)"], "x0.replace('a', 'z', x1)", None),
    ("lifted-sin-cos", ["Range(0, 3)", "Range(-1, 1)"], "sin(x0) * cos(x1) + sin(0.5)", None),
    ("lifted-hypot", ["Range(-3, 1)"], "hypot(x0, 3)", None),
    ("lifted-round", ["Range(0, 10)"], "round(x0)", None),
    ("lifted-round-ndigits", ["Range(0, 10)"], "round(x0, 1) + round(x0, ndigits=2)", None),
    ("lifted-str", ["DiscreteRange(1, 9)"], "str(x0) + 'm'", None),
    ("lifted-float-int", ["DiscreteRange(1, 9)", "Range(0, 5)"], "float(x0) / 2 + int(x1)", None),
    ("divmod", ["Range(1, 20)"], "divmod(x0, 3)", None),
    ("rdivmod", ["DiscreteRange(3, 6)"], "divmod(20, x0)", None),
    ("max-key", ["Range(-3, 1)", "Range(-1, 2)"], "max(x0, x1, key=abs)", None),
    ("vector-norm", ["Range(-3, 1)"], "Vector(x0, 1, 2).norm()", None),
    ("vector-distance", ["Range(-3, 1)", "Range(0, 1)"], "Vector(x0, 1, 2).distanceTo(Vector(1, x1, 1))", None),
    ("vector-distance-const", ["Range(-3, 1)"], "Vector(x0, 1, 2).distanceTo(Vector(1, 1, 1))", None),
    ("vector-angleWith", ["Range(1, 3)", "Range(1, 2)"], "Vector(x0, 1, 0).angleWith(Vector(1, x1, 1))", None),
    ("vector-angleTo-random-self", ["Range(1, 3)"], "Vector(x0, 1, 0).angleTo(Vector(1, 2, 0))", None),
    ("vector-dot-random-both", ["Range(0, 3)", "Range(-1, 1)"], "Vector(x0, 1, x1).dot(Vector(x1, 2, 3))", None),
    ("vector-norm-expression", ["Range(-3, 1)", "Range(0, 2)"], "(Vector(x0, 1, 2) - Vector(x1, 0, 0)).norm()", None),
    ("vector-rotatedBy", ["Range(0, 3)"], "Vector(1, 2, 3).rotatedBy(x0)", None),
    ("zero-vector-rotatedBy", ["Range(0, 3)"], "Vector(0, 0, 0).rotatedBy(x0)", None),
    ("vector-dot", ["Range(0, 3)"], "Vector(x0, 1, 0).dot(Vector(1, 2, 3))", None),
    ("vector-angleTo", ["Range(1, 3)"], "Vector(0, 0, 0).angleTo(Vector(x0, 1, 0))", None),
    ("vector-normalized", ["Range(1, 3)"], "Vector(x0, 0, 4).normalized()", None),
    ("orientation-times-identity", ["Range(0, 1)"], "Orientation.fromEuler(x0, 0.2, 0) * Orientation.fromEuler(0, 0, 0)", None),
    ("identity-times-orientation", ["Range(0, 1)"], "Orientation.fromEuler(0, 0, 0) * Orientation.fromEuler(x0, 0.2, 0)", None),
    ("random-orientation-times-identity", ["Uniform(Orientation.fromEuler(1, 0, 0), Orientation.fromEuler(2, 0.5, 0))"],
     "(x0 * Orientation.fromEuler(0, 0, 0)) * Orientation.fromEuler(0.5, 0, 0)", None),
    ("orientation-plus-heading", ["Range(0, 1)"], "Orientation.fromEuler(0.3, 0, 0) + x0", None),
    ("dict-literal", ["Range(0, 1)"], "{'a': x0, 'b': 2}", "dict-literal-unsampled"),
    ("dict-in-list", ["Range(0, 1)"], "[x0, {'k': x0}]", "dict-literal-unsampled"),
    ("str-format", ["Uniform('b', 'c')"], "'v=%s' % x0", "str-format-left-constant"),
    ("conditional-expression", ["Range(0, 1)", "Uniform(True, False)"], "x0 if x1 else 2", None),
    ("comparison", ["Range(0, 1)"], "x0 < 0.5", None),
    ("pow-modulo", ["DiscreteRange(2, 5)"], "pow(x0, 3, 7)", None),
    ("unpack-in-literal", ["Uniform((1, 2), (3,))"], "[*x0, 1]", None),
    ("nested-call-star-kw", ["Uniform((1, 2), (3, 4, 5))", "Range(0, 1)"], "max(*x0, x1 + 4, key=abs) - min(*x0)", None),
]


def ext_eval(expr_src, leaf_values):
    import collections
    from scenic.core.vectors import Orientation, Vector
    ns = {f"x{i}": v for i, v in enumerate(leaf_values)}
    ns.update(Vector=Vector, Orientation=Orientation, P=collections.namedtuple("P", "a b"), max=max, min=min, len=len, abs=abs,
              sin=math.sin, cos=math.cos, hypot=math.hypot, round=round, str=str, float=float, int=int, divmod=divmod, pow=pow,
              __builtins__={})
    try:
        return canon_ext(eval(expr_src, ns))
    except Exception as e:
        return ("exc", type(e).__name__, str(e)[:200])


def extra_job(job):
    name, leaves, text, key, seed = job
    s = S()
    from props import c05_hook
    code = program_text(leaves, text, extra=EXTRA_PRELUDE, scenic_leaves=True)
    c05_hook.reset()
    random.seed(seed)
    out = {"stage": None, "exc": None, "msg": "", "samples": []}
    try:
        sc = s["scenic"].scenarioFromString(code)
    except Exception as e:
        out.update(stage="compile", exc=type(e).__name__, msg=str(e)[:200])
        rec = c05_hook.RECORDED
        if all(f"L{i}" in rec for i in range(len(leaves))):
            try:
                sub = s["D"].Samplable.sampleAll([rec[f"L{i}"] for i in range(len(leaves))])
                lv = [sub[rec[f"L{i}"]] for i in range(len(leaves))]
                out["samples"].append(([repr(v) for v in lv], None, ext_eval(text, lv)))
            except Exception:
                pass
        return out
    for _ in range(4):
        try:
            scene, _ = sc.generate(maxIterations=50, verbosity=0)
        except Exception as e:
            out["samples"].append((None, ("exc", type(e).__name__, str(e)[:200]), None))
            continue
        lv = [scene.params[f"leaf{i}"] for i in range(len(leaves))]
        out["samples"].append(([repr(v) for v in lv], canon_ext(scene.params["result"]), ext_eval(text, lv)))
    return out


def extras_part(ctx):
    """(S) constructs outside the Lean model: namedtuples, slices, method calls with keyword operands, lifted
    functions, Vector methods, Orientation identities, dict literals"""
    found = False
    jobs = [(n, l, t, k, ctx.rng.getrandbits(31)) for n, l, t, k in EXTRAS for _ in range(ctx.budget(1, 5))]
    for job in jobs:
        name, leaves, text, key, seed = job
        res = extra_job(job)
        ctx.case(("extra", name, seed), nontrivial=True)
        verdict = None
        for lv, r, p in res["samples"]:
            if res["stage"] == "compile":
                if p is not None and p[0] != "exc" and res["exc"] not in REJECT_CLASSES:
                    verdict = f"compiling raised {res['exc']}: {res['msg']}; plain Python gives {show_ext(p)}"
                ctx.hist("extras", "rejected-while-compiling:" + res["exc"] if verdict is None else "VIOLATED")
                break
            if p is None:       # the scene could not be generated and the leaves are unknown
                verdict = f"sampling raised {r[1]}: {r[2]}"
                break
            if p[0] == "exc":
                ctx.hist("extras", "python-raises")
                continue
            if r[0] == "exc":
                verdict = f"sampling raised {r[1]}: {r[2]}; plain Python gives {show_ext(p)} (leaves {lv})"
                break
            if not same_ext(r, p):
                verdict = f"scene value {show_ext(r)} but plain Python gives {show_ext(p)} (leaves {lv})"
                break
            ctx.hist("extras", "holds")
        if verdict is not None:
            ctx.hist("extras", "VIOLATED")
            if ctx.violation(key or f"extra:{name}", f"`{text}` with " + ", ".join(f"x{i} = {l}" for i, l in enumerate(leaves)) + ": " + verdict,
                             {"kind": "extra", "name": name, "leaves": leaves, "source": text, "seed": seed}):
                found = True
    return found


# ------------------------------------------------------------------------------------------------ classes with self-dependent defaults
def gen_class_program(rng):
    """a Scenic class whose defaults refer to other properties (`self.p`), instantiated with some properties overridden;
    returns (program text, {property: python expression over the final values `v[...]`}, root properties)"""
    n = rng.randint(3, 7)
    names = [f"p{i}" for i in range(n)]
    order = names[:]
    rng.shuffle(order)                       # dependency order is unrelated to declaration order
    roots, exprs, decl = [], {}, {}
    root_srcs = ["Range(1, 2)", "DiscreteRange(1, 4)", "Uniform(0.5, 2)", "Range(-1, 1)", "(Range(0, 1), DiscreteRange(1, 3))",
                 "Uniform((1, 2), (3, 4))"]
    kinds = {}
    for k, nm in enumerate(order):
        avail = [m for m in order[:k] if kinds[m] == "num"]
        if k == 0 or not avail or rng.random() < 0.25:
            srcx = rng.choice(root_srcs)
            roots.append(nm)
            decl[nm] = srcx
            kinds[nm] = "num" if srcx[0] != "(" and "((" not in srcx else "tup"
            continue
        a = rng.choice(avail)
        b = rng.choice(avail)
        form = rng.choice(["{A} + 1", "{A} * {B}", "({A}, {B} - 2)", "max({A}, {B}, 1.5)", "abs({A} - {B}) + 0", "1 * {A} / 2",
                           "[{A}, ({B}, 3)]", "{A} - 0 + {B} * 1", "2 - {A}", "({A} + {B},)[0]"])
        decl[nm] = form.format(A=f"self.{a}", B=f"self.{b}")
        exprs[nm] = form.format(A=f"v['{a}']", B=f"v['{b}']")
        kinds[nm] = "tup" if form[0] in "([" and not form.endswith("[0]") else "num"
    lines = ["class Foo(Point):"] + [f"    {nm}: {decl[nm]}" for nm in names]
    overrides = []
    for nm in names:
        if rng.random() < 0.3:
            o = rng.choice(["Range(10, 20)", "DiscreteRange(5, 7)", "3", "Uniform(7, 8.5)"])
            if kinds[nm] == "num":
                overrides.append((nm, o))
    lines.append("obj = new Foo" + (" " if overrides else "") + ", ".join(f"with {nm} {o}" for nm, o in overrides))
    lines.append("param inst = obj")
    for nm, _ in overrides:
        exprs.pop(nm, None)
    return "\n".join(lines) + "\n", exprs, roots, names


FIELD_PROGRAM = """import collections
P = collections.namedtuple('P', 'a b')
field = VectorField("f", lambda pos: 0.1 * pos.x)
r = Range(0, 1)
pt = Uniform(P(1, 2), P(3, 4))
param r = r, pt = pt
class Bar(OrientedPoint):
    foo: self.position.x + self.heading
    bar: (self.foo, self.position.y * 2)
obj = new Bar at (Range(0, 10), Range(0, 10)), facing r relative to field, with g pt._replace(a=(0.5 relative to field))
param inst = obj
"""


def classes_part(ctx, build_ok):
    """(S) defaults / specifier arguments referring to other properties see their final values;
    (C) the evaluation order observed in Constructible._resolveSpecifiers is well ordered (hypothesis of delayed_eval_final)"""
    import scenic
    from scenic.core import object_types as OT
    from scenic.core import specifiers as SP
    from scenic.core.geometry import normalizeAngle
    rng = ctx.rng
    found = False
    events = []
    orig_get, orig_specify = SP.Specifier.getValuesFor, OT.Constructible.__dict__["_specify"]

    def get_values(self, obj):
        events.append(("eval", tuple(self.requiredProperties)))
        return orig_get(self, obj)

    def specify(cls, context, prop, value):
        events.append(("set", prop))
        return orig_specify.__func__(cls, context, prop, value)
    wo_lines, wo_info = [], []
    SP.Specifier.getValuesFor = get_values
    OT.Constructible._specify = classmethod(specify)
    try:
        programs = [("field", FIELD_PROGRAM, None, None, None)]
        for _ in range(ctx.budget(40, 600)):
            code, exprs, roots, names = gen_class_program(rng)
            programs.append(("class", code, exprs, roots, names))
        for kind, code, exprs, roots, names in programs:
            del events[:]
            random.seed(rng.getrandbits(31))
            try:
                sc = scenic.scenarioFromString(code)
            except Exception as e:
                ctx.hist("class_programs", "compile-failed:" + type(e).__name__)
                if type(e).__name__ not in ("ScenicParseError", "ScenicSyntaxError"):
                    if ctx.violation(f"class-defaults:compile:{type(e).__name__}",
                                     f"compiling raised {type(e).__name__}: {str(e)[:200]} for\n{code}", {"kind": "class", "program": code}):
                        found = True
                continue
            # the evaluation order observed while resolving the specifiers of the last object
            specs, ids = [], {}
            for ev in events:
                if ev[0] == "eval":
                    specs.append([[ids.setdefault(p, len(ids)) for p in ev[1]], []])
                elif specs:
                    specs[-1][1].append(ids.setdefault(ev[1], len(ids)))
            if specs:
                toks = ["C05", "wo", str(len(specs))]
                for deps, sets in specs:
                    toks += [str(len(deps))] + list(map(str, deps)) + [str(len(sets))] + list(map(str, sets))
                wo_lines.append(" ".join(toks))
                wo_info.append(code)
            ctx.case(("class", code), nontrivial=True)
            for _ in range(ctx.budget(3, 4)):
                try:
                    scene, _ = sc.generate(maxIterations=50, verbosity=0)
                except Exception as e:
                    if ctx.violation(f"class-defaults:{type(e).__name__}", f"scene generation raised {type(e).__name__}: {e} for\n{code}",
                                     {"kind": "class", "program": code}):
                        found = True
                    break
                obj = scene.params["inst"]
                bad = None
                if kind == "field":
                    r, pt = scene.params["r"], scene.params["pt"]
                    hd = normalizeAngle(0.1 * obj.position.x + r)
                    exp_g = normalizeAngle(0.1 * obj.position.x + 0.5)
                    checks = [("heading", obj.heading, hd), ("foo", obj.foo, obj.position.x + obj.heading),
                              ("bar", tuple(obj.bar), (obj.foo, obj.position.y * 2)), ("g.b", obj.g.b, pt.b)]
                    ga = obj.g.a
                    ga = ga.yaw if hasattr(ga, "yaw") else ga
                    checks.append(("g.a (keyword operand evaluated in the context of the object)", float(ga), exp_g))
                    for nm, got, want in checks:
                        if not same_ext(canon_ext(got), canon_ext(want), Fraction(1, 10 ** 9)):
                            bad = f"{nm} = {got!r}, expected {want!r} from the final values"
                            break
                else:
                    v = {nm: getattr(obj, nm) for nm in names}
                    for nm, ex in exprs.items():
                        try:
                            want = eval(ex, {"v": v, "max": max, "abs": abs, "__builtins__": {}})
                        except Exception as e:
                            continue
                        ctx.evaluations += 1
                        if not same_ext(canon_ext(v[nm]), canon_ext(want), Fraction(1, 10 ** 12)):
                            bad = f"{nm} = {v[nm]!r} but its default evaluates to {want!r} on the final values {v}"
                            break
                ctx.hist("class_defaults", "holds" if bad is None else "VIOLATED")
                if bad is not None:
                    if ctx.violation("class-defaults:" + kind, f"{bad}\n{code}",
                                     {"kind": "class", "program": code, "exprs": exprs, "names": names}):
                        found = True
                    break
    finally:
        SP.Specifier.getValuesFor = orig_get
        OT.Constructible._specify = orig_specify
    if build_ok and wo_lines:
        out = ctx.driver(wo_lines)
        for ol, code in zip(out, wo_info):
            ctx.hist("evaluation_order", "well-ordered" if ol.strip() == "1" else "NOT-well-ordered")
            if ol.strip() != "1":
                ctx.broken("correspondence", "evaluation order of _resolveSpecifiers vs `Delayed.wellOrdered` (hypothesis of delayed_eval_final)",
                           code[:600])
    return found



# ------------------------------------------------------------------------------------------------ delayed arguments of lifted calls
def delayed_job(job):
    """one generated program with lazily evaluated (positional / keyword / nested / container) operands of lifted calls"""
    from props import c05_delayed as D
    S()
    code, checks, seed, n = job
    return D.run_program(code, checks, seed, n)


def delayed_jobs(ctx):
    from props import c05_delayed as D
    jobs, infos = [], []
    for _ in range(ctx.budget(70, 1500)):
        code, checks, info = D.gen_program(ctx.rng)
        jobs.append((code, checks, ctx.rng.getrandbits(31), 3))
        infos.append(info)
    return jobs, infos


def _noaddr(t):
    import re
    return re.sub(r" at 0x[0-9a-f]+", "", t)


def delayed_part(ctx, build_ok, jobs, infos, results):
    """(S) programs: the value of a property given by a lifted call over lazily evaluated operands equals plain Python on
    the *final* values of the properties it reaches, for every specifier order and with modifying specifiers;
    (C) unit level: `_requiredProperties` of delayed values built through the real API vs `Delayed.required` on the
    generated shapes, and the properties actually read while evaluating vs `Delayed.reads` (all must be declared)"""
    from props import c05_delayed as D
    found = False
    for (code, checks, seed, n), info, res in zip(jobs, infos, results):
        ctx.case(("delayed", code), nontrivial=True)
        ctx.evaluations += res.get("scenes", 0) * len(checks)
        for v in info["via"]:
            ctx.hist("delayed_operand_via", v)
        ctx.hist("delayed_specifier_order", info["order"] + ("+modifier" if info["modifier"] else ""))
        ctx.hist("delayed_provider", info["provider"] + "/" + info["qprovider"])
        vd = D.verdict(res)
        ctx.hist("delayed_programs", "holds" if vd is None and res["stage"] == "ok" else
                 ("rejected:" + str(res["exc"]) if vd is None else "VIOLATED:" + vd[0]))
        if vd is not None:
            body = code.split("requireVisible: False\n", 1)[-1]
            if ctx.violation("delayed-argument:" + vd[0],
                             _noaddr(vd[1]) + f"\n[specifier order {info['order']}, provider {info['provider']}, modifying specifier "
                             f"{info['modifier']}, operands via {', '.join(info['via'])}]\n" + body,
                             {"kind": "delayed", "program": code, "checks": [list(c) for c in checks], "seed": seed}):
                found = True
    # unit level
    rng = ctx.rng
    trees = [D.unit_tree(rng, rng.choice([1, 2, 2, 3, 3, 4])) for _ in range(ctx.budget(400, 8000))]
    lines, reals = [], []
    for t in trees:
        try:
            declared, read, out = D.unit_real(t)
        except Exception as e:
            ctx.hist("delayed_unit", "build-raised:" + type(e).__name__)
            ctx.broken("correspondence", "building a delayed value through lazy_eval / distributionFunction raised", f"{t}: {type(e).__name__}: {e}"[:400])
            continue
        ctx.case(("delayed-unit", repr(t)), nontrivial=D.tree_is_delayed(t))
        reals.append((t, declared, read, out))
        lines.append("C05 dl " + " ".join(D.tree_line(t)))
        if not set(read) <= set(declared):
            ctx.hist("delayed_unit", "READS-UNDECLARED")
            ctx.broken("correspondence", "a delayed value reads a property it does not declare in _requiredProperties",
                       f"{t}: declared {declared}, read {read}")
        else:
            ctx.hist("delayed_unit", "declared-covers-read" if read else "not-delayed")
    if build_ok and lines:
        outs = ctx.driver(lines)
        agree = 0
        for (t, declared, read, out), ol in zip(reals, outs):
            want = " ".join(map(str, declared)) + " | " + " ".join(map(str, sorted(D.tree_reads(t))))
            if ol.strip() != want.strip():
                ctx.broken("correspondence", "required properties of a delayed value: model (Delayed.required on generated shapes) vs code",
                           f"{t}: model `{ol.strip()}`, code `{want.strip()}`")
            else:
                agree += 1
        ctx.extra["delayed_unit_agree"] = f"{agree}/{len(reals)}"
    return found

# ------------------------------------------------------------------------------------------------ main
def run(ctx):
    ctx.rule = ("cases = (expression tree, leaf distributions) pairs from a fixed regression corpus and a typed random "
                "generator (depth <= 5; all reversible operators in both orders, identity-shaped constants, unary operators, "
                "indexing, len, attribute access, tuple/list/Vector literals, lifted max/min with star-unpacking; 6-30% "
                "deliberately ill-typed), each compiled as a real Scenic program and sampled 3 times; support cases = scalar "
                "distribution forests; class cases = generated Scenic classes with self-dependent defaults; delayed cases = generated "
                "programs whose `with` specifiers are lifted calls over lazily evaluated operands (positional / keyword / nested / "
                "in containers / next to random values) with the specifiers in several orders and `on` modifying the provider, plus "
                "delayed-value trees built through the real API; "
                "non-trivial = contains at least one random leaf; distinct by (source text, leaves)")
    ctx.assumptions += [
        "numbers are exact rationals in the model: Python's int/float/bool distinction is erased (values compared with ==), "
        "float rounding is outside the model (model-vs-code comparisons use a 1e-9 tolerance scaled by the largest intermediate value; "
        "discontinuous operators are compared only on exactly represented operands)",
        "exceptions are identified in the model (the property is about values)",
    ]
    ctx.trusted_base += ["tools/translate/c05_exprtables.py, tools/translate/c05_support.py (template extraction)",
                         "tools/props/c05.py (generators, canonicalisation, direct oracle: Python eval on the sampled leaves)"]
    ctx.fingerprint(FINGERPRINTS)
    from translate import c05_exprtables, c05_support
    try:
        ctx.gen("ExprTables", c05_exprtables.to_lean(c05_exprtables.extract()))
    except TemplateMismatch as e:
        ctx.gen_restore("ExprTables")
        ctx.escalated.append(f"translator tie lost (exprtables): {e}")
        ctx.notes.append(f"translator tie lost for the operator tables: {e}; relying on correspondence at thorough budget")
    try:
        ctx.gen("SupportFormulas", c05_support.to_lean(c05_support.extract()))
    except TemplateMismatch as e:
        ctx.gen_restore("SupportFormulas")
        ctx.escalated.append(f"translator tie lost (support formulas): {e}")
        ctx.notes.append(f"translator tie lost for the support formulas: {e}; relying on correspondence at thorough budget")
    from translate import c05_delayed as c05_delayed_tr
    try:
        ctx.gen("DelayedShapes", c05_delayed_tr.to_lean(c05_delayed_tr.extract()))
    except TemplateMismatch as e:
        ctx.gen_restore("DelayedShapes")
        ctx.escalated.append(f"translator tie lost (delayed shapes): {e}")
        ctx.notes.append(f"translator tie lost for the delayed-value constructors of lazy_eval.py: {e}; relying on correspondence at thorough budget")
    # the real-code runs do not depend on the Lean build: start them first
    workers = Workers()
    try:
        ejobs, sjobs = expression_jobs(ctx), support_jobs(ctx)
        djobs, dinfos = delayed_jobs(ctx)
        t0 = ctx.elapsed()
        workers.submit("expr", expr_job, ejobs)
        workers.submit("sup", sup_job, sjobs)
        workers.submit("delayed", delayed_job, djobs)
        pr = ctx.prove(THEOREMS, side_conditions=SIDE)
        ctx.extra.setdefault("timing_s", {})["lake_build_and_audit"] = round(ctx.elapsed() - t0, 1)
        if ctx.tier == "thorough" and pr.build_ok:
            ctx.leanchecker(["ScenicModel.Props.C05", "ScenicModel.Props.C05Expr", "ScenicModel.Props.C05Support",
                             "ScenicModel.Props.C05Delayed"])
        found = False
        eres = workers.result("expr")
        sres = workers.result("sup")
        dres = workers.result("delayed")
        ctx.extra["timing_s"]["real_code_runs_done_after"] = round(ctx.elapsed() - t0, 1)
    finally:
        workers.close()
    found |= expression_part(ctx, pr.build_ok, ejobs, eres)
    found |= support_part(ctx, pr.build_ok, sjobs, sres)
    found |= extras_part(ctx)
    found |= delayed_part(ctx, pr.build_ok, djobs, dinfos, dres)
    found |= classes_part(ctx, pr.build_ok)
    ctx.resolve_brokens(found)


def replay(ctx, path):
    """re-execute the recorded input on $SCENIC_REPO; exit status 1 when the violation is reproduced, 0 when the
    property holds on it"""
    body = json.load(open(path))
    rep = body.get("replay", body)
    kind = rep.get("kind")
    bad = False
    if kind == "expr":
        e = decode_expr(rep["expr"])
        leaves = rep["leaves"]
        text = src(e)
        print("program:\n" + program_text(leaves, text, scenic_leaves=True))
        for scenic_leaves in (True, False):
            res = expr_job(("replay", leaves, rep.get("leaf_kind") or [leaf_kind_of(l) for l in leaves], e, rep.get("seed", 0), 12))
            if res["stage"] == "compile":
                print(f"compiling raised {res['exc']}: {res['msg']}")
            for smp in res["samples"]:
                v = property_verdict(res["stage"], res["exc"], res["msg"], smp["r"], smp["p"])
                print("leaves:", [show_canon(c) for c in smp["lc"]], "-> scenic:", "-" if smp["r"] is None else show_canon(smp["r"]),
                      " plain Python:", show_canon(smp["p"]), "" if v is None else "   <== " + v[0])
                bad |= v is not None
            break
    elif kind == "support":
        e = decode_expr(rep["expr"])
        leaves = [tuple(l) for l in rep["leaves"]]
        res = sup_job(("replay", leaves, e, rep.get("seed", 0), 200))
        print("expression:", src(e), " leaves:", [l[0] for l in leaves])
        sup = res["support"]
        print("supportInterval ->", sup if isinstance(sup, str) else tuple(None if x is None else float(x) for x in sup))
        vals = [float(v) for v, _ in res["values"]]
        if vals:
            print(f"{len(vals)} sampled values in [{min(vals)}, {max(vals)}]")
        print("recorded offending value:", rep.get("value"), "at leaves", rep.get("leaf_values"), f"({rep.get('how')})")
        if not isinstance(sup, str):
            lo, hi = sup
            for v, lv in res["values"] + res["corners"]:
                margin = Fraction(1, 10 ** 8) * max(1, abs(v), abs(lo or 0), abs(hi or 0))
                if (lo is not None and v < lo - margin) or (hi is not None and v > hi + margin):
                    print("value", float(v), "at leaves", lv, "lies outside the reported support")
                    bad = True
                    break
    elif kind == "extra":
        res = extra_job((rep["name"], rep["leaves"], rep["source"], None, rep.get("seed", 0)))
        print("program:\n" + program_text(rep["leaves"], rep["source"], extra=EXTRA_PRELUDE, scenic_leaves=True))
        if res["stage"] == "compile":
            print(f"compiling raised {res['exc']}: {res['msg']}")
        for lv, r, p in res["samples"]:
            print("leaves:", lv, "-> scenic:", None if r is None else (r if r[0] == "exc" else show_ext(r)),
                  " plain Python:", None if p is None else (p if p[0] == "exc" else show_ext(p)))
            if res["stage"] == "compile":
                bad |= p is not None and p[0] != "exc" and res["exc"] not in REJECT_CLASSES
            elif p is None:
                bad = True
            elif p[0] != "exc":
                bad |= r[0] == "exc" or not same_ext(r, p)
    elif kind == "delayed":
        from props import c05_delayed as D
        print(rep["program"].split("requireVisible: False\n", 1)[-1])
        res = D.run_program(rep["program"], [tuple(c) for c in rep["checks"]], rep.get("seed", 0), 6)
        vd = D.verdict(res)
        print(res)
        if vd is not None:
            print(_noaddr(vd[1]))
            bad = True
    elif kind == "class":
        import scenic
        print(rep["program"])
        try:
            sc = scenic.scenarioFromString(rep["program"])
            for _ in range(5):
                scene, _ = sc.generate(maxIterations=50, verbosity=0)
                obj = scene.params["inst"]
                print({p: getattr(obj, p) for p in obj.properties if p.startswith("p") or p in ("foo", "bar", "g", "heading")})
                if rep.get("exprs"):
                    v = {nm: getattr(obj, nm) for nm in rep["names"]}
                    for nm, ex in rep["exprs"].items():
                        try:
                            want = eval(ex, {"v": v, "max": max, "abs": abs, "__builtins__": {}})
                        except Exception:
                            continue
                        if not same_ext(canon_ext(v[nm]), canon_ext(want), Fraction(1, 10 ** 12)):
                            print(f"{nm} = {v[nm]!r} but its default evaluates to {want!r} on the final values")
                            bad = True
        except Exception as e:
            print("raised", type(e).__name__, e)
            bad = True
    else:
        print(json.dumps(rep, indent=1)[:3000])
        bad = bool(body.get("no_failing_input_found"))
    print("REPRODUCED: the property is violated on this input" if bad else "NOT REPRODUCED: the property holds on this input")
    return 1 if bad else 0
