"""C11 — temporal requirements accept exactly the traces satisfying the formula.

Proof:  lean/ScenicModel/Props/C11*.lean — for every formula / trace / run length: the verdict of the monitor is
        exact (`verdict_sound_complete_partial`, `…_exact_bound`), definite verdicts are final
        (`false_is_final_partial`), `always <non-temporal>` is rejected at once, Boolean connectives and
        non-temporal sub-formulas (current step only), Scenic's rule (`accept_iff_partial`,
        `early_reject_hopeless_partial`, `scene_check_consistent`, `dynamic_require_monitored`), the precedence
        chain and the documented examples; witnesses for the three places where the full statement fails.
Tie:    (T) translate/ltl.py (rv_ltl scan bound + digests, propositions.py constructor table, the verdict tests
        of _step/_stop/falsifiedByInner, _addDynamicRequirement) and translate/ltlgram.py (scenic.gram temporal
        rules, PropositionTransformer/veneer operand order, documented examples);
        (C) Lean driver vs the real code: per-step verdicts of PropositionMonitor for all formulas of depth <= 2
        over two atoms x all traces; parse trees of generated / random token strings with a parser regenerated
        from the current scenic.gram; outcome (accepted / rejection step / scene rejected / crash) of
        DummySimulator runs of generated programs, requirement at top level, in a setup block, in the setup block
        of a sub-scenario started later, and inside compose blocks;
        (S) direct oracle: an independent Python evaluator of the finite-trace semantics vs the acceptance of the
        real simulator, plus early-rejection-only-when-hopeless by enumeration of all continuations.
"""
import importlib.util
import itertools
import json
import multiprocessing
import os
import random
import subprocess
import sys
import time
import types

from vlib.ctx import Infra, TemplateMismatch

THEOREMS = [
    "Scenic.C11.verdict_sound_complete_partial",
    "Scenic.C11.verdict_sound_complete_exact_bound",
    "Scenic.C11.nested_until_witness",
    "Scenic.C11.nested_until_witness_applies",
    "Scenic.C11.false_is_final_partial",
    "Scenic.C11.true_is_final_partial",
    "Scenic.C11.until_premature_false_witness",
    "Scenic.C11.always_atomic_false_immediate",
    "Scenic.C11.always_atomic_rejected_by_then",
    "Scenic.C11.always_atomic_not_rejected_while_true",
    "Scenic.C11.not_boolean",
    "Scenic.C11.and_boolean",
    "Scenic.C11.or_boolean",
    "Scenic.C11.implies_boolean",
    "Scenic.C11.nontemporal_current_step",
    "Scenic.C11.accept_iff_partial",
    "Scenic.C11.accept_iff_final_fragment",
    "Scenic.C11.accept_iff_shifted_partial",
    "Scenic.C11.early_reject_hopeless_partial",
    "Scenic.C11.scene_check_consistent",
    "Scenic.C11.runtime_setup_accept_iff_partial",
    "Scenic.C11.dynamic_require_monitored_partial",
    "Scenic.C11.dynamic_require_same_checks",
    "Scenic.C11.dynamic_early_reject_hopeless_partial",
    "Scenic.C11.runtime_values_truth_only",
    "Scenic.C11.monitor_sees_truth_values",
    "Scenic.C11.scenario_accept_decomposes",
    "Scenic.C11.scenario_reject_culprit",
    "Scenic.C11.scenario_accept_iff_partial",
    "Scenic.C11.scenario_early_reject_hopeless_partial",
    "Scenic.LTL.verdict_iff_sat_all",
    "Scenic.LTL.verdict_iff_sat_zero",
    "Scenic.LTL.definite_final_all",
    "Scenic.LTL.definite_final_zero",
    "Scenic.LTL.accept_iff",
    "Scenic.LTL.early_reject_hopeless",
    "Scenic.LTL.reject_implies_unsat",
    "Scenic.LTL.prop_current_step_only",
    "Scenic.LTL.eventually_prop_true_immediate",
    "Scenic.LTL.okZero_mono",
    "Scenic.LTL.immediate_eq_run",
    "Scenic.LTL.runRegistered_eq_run",
    "Scenic.LTL.runImmediateV_eq",
    "Scenic.LTL.loop_accepted_iff",
    "Scenic.LTL.loop_rejected",
    "Scenic.LTL.simulate_accepted_iff",
    "Scenic.LTL.simulate_rejected_culprit",
    "Scenic.C11.Syntax.precedence_chain",
    "Scenic.C11.Syntax.doc_examples",
    "Scenic.C11.Syntax.group_lookahead_needed",
]
SIDE = [
    "Scenic.C11.gen_rule_canonical",
    "Scenic.C11.gen_init_last",
    "Scenic.C11.gen_runtime_canonical",
    "Scenic.C11.gen_atom_coerced",
    "Scenic.C11.gen_eval_forms_canonical",
    "Scenic.C11.gen_ctor_map_canonical",
    "Scenic.C11.gen_temporal_classes",
    "Scenic.C11.gen_sugar_canonical",
    "Scenic.C11.Syntax.gen_gram_core",
    "Scenic.C11.Syntax.gen_syntax_map_canonical",
]

FINGERPRINTS = {
    "PropositionMonitor": ("src/scenic/core/propositions.py", "PropositionMonitor"),
    "PropositionNode": ("src/scenic/core/propositions.py", "PropositionNode"),
    "propositions.py": ("src/scenic/core/propositions.py", None),
    "BoundRequirement": ("src/scenic/core/requirements.py", "BoundRequirement"),
    "MonitorRequirement": ("src/scenic/core/requirements.py", "MonitorRequirement"),
    "DynamicRequirement": ("src/scenic/core/requirements.py", "DynamicRequirement"),
    "DynamicMonitorRequirement": ("src/scenic/core/requirements.py", "DynamicMonitorRequirement"),
    "PendingRequirement.compile": ("src/scenic/core/requirements.py", "PendingRequirement.compile"),
    "CompiledRequirement": ("src/scenic/core/requirements.py", "CompiledRequirement"),
    "_start": ("src/scenic/core/dynamics/scenarios.py", "DynamicScenario._start"),
    "_step": ("src/scenic/core/dynamics/scenarios.py", "DynamicScenario._step"),
    "_stop": ("src/scenic/core/dynamics/scenarios.py", "DynamicScenario._stop"),
    "_bindTo": ("src/scenic/core/dynamics/scenarios.py", "DynamicScenario._bindTo"),
    "_addDynamicRequirement": ("src/scenic/core/dynamics/scenarios.py", "DynamicScenario._addDynamicRequirement"),
    "_invokeInner": ("src/scenic/core/dynamics/scenarios.py", "DynamicScenario._invokeInner"),
    "_runSubBehavior": ("src/scenic/core/dynamics/invocables.py", "Invocable._runSubBehavior"),
    "runTryInterrupt": ("src/scenic/core/dynamics/invocables.py", "runTryInterrupt"),
    "DynamicScenario.__init__": ("src/scenic/core/dynamics/scenarios.py", "DynamicScenario.__init__"),
    "Scenario._makeSceneFromSample": ("src/scenic/core/scenarios.py", "Scenario._makeSceneFromSample"),
    "Simulation._run": ("src/scenic/core/simulators.py", "Simulation._run"),
    "Simulation.__init__": ("src/scenic/core/simulators.py", "Simulation.__init__"),
    "veneer.require": ("src/scenic/syntax/veneer.py", "require"),
    "veneer.makeRequirement": ("src/scenic/syntax/veneer.py", "makeRequirement"),
    "PropositionTransformer": ("src/scenic/syntax/compiler.py", "PropositionTransformer"),
    "createRequirementLike": ("src/scenic/syntax/compiler.py", "ScenicToPythonTransformer.createRequirementLike"),
    "scenic.gram": ("src/scenic/syntax/scenic.gram", None),
}

# which part of the correspondence a changed source fingerprint / a lost translator tie escalates to the thorough budget
SCOPE = {"scenic.gram": "syntax", "PropositionTransformer": "syntax", "createRequirementLike": "syntax",
         "PropositionMonitor": "monitor", "PropositionNode": "monitor", "propositions.py": "monitor"}      # everything else: "sim"


def budget(ctx, st, scope, quick, thorough):
    """tier budget; an escalation only raises the budget of the part of the check that looks at the changed code
    (monitor level: exhaustive sweep of the proposition classes; syntax level: parser/compiler; sim: the rule)"""
    return thorough if ctx.tier == "thorough" or scope in st.scopes else quick


def time_box(ctx, st, share, least):
    """absolute deadline of a simulator phase: `share` of the wall-time target of the tier, but never less than `least`
    seconds from now (so that the most discriminating cases, which come first, always run).  None = no box (thorough)."""
    if ctx.tier == "thorough":
        return None
    target = float(os.environ.get("VERIF_C11_TARGET_S", "420" if "sim" in st.scopes else "200"))
    return max(time.time() + least, ctx.t0 + target * share)


UNARY = ("Not", "Next", "Eventually", "Always")
BINARY = ("And", "Or", "Implies", "Until")
ATOM_NAMES = "ABC"


# =============================================================================================== formulas
def enum_formulas(depth, natoms=2):
    """all formulas of depth <= `depth` over `natoms` atoms (binary and/or), in a fixed order"""
    level = [("Atom", a) for a in range(natoms)]
    allf = list(level)
    seen = set(allf)
    for _ in range(depth):
        new = []
        for u in UNARY:
            new += [(u, f) for f in allf]
        for b in BINARY:
            new += [(b, f, g) for f in allf for g in allf]
        for f in new:
            if f not in seen:
                seen.add(f)
                allf.append(f)
    return allf


def depth_of(f):
    return 0 if f[0] == "Atom" else 1 + max(depth_of(g) for g in f[1:])


def random_formula(rng, depth, natoms=2, nary=True):
    if depth == 0 or rng.random() < 0.15:
        return ("Atom", rng.randrange(natoms))
    op = rng.choice(UNARY + BINARY)
    if op in UNARY:
        return (op, random_formula(rng, depth - 1, natoms, nary))
    if op in ("And", "Or") and nary and rng.random() < 0.25:
        return (op,) + tuple(random_formula(rng, depth - 1, natoms, nary) for _ in range(3))
    return (op, random_formula(rng, depth - 1, natoms, nary), random_formula(rng, depth - 1, natoms, nary))


def toks(f):
    """prefix token form read by the Lean driver"""
    if f[0] == "Atom":
        return ["Atom", str(f[1])]
    r = [f[0], str(len(f) - 1)] if f[0] in ("And", "Or") else [f[0]]
    for g in f[1:]:
        r += toks(g)
    return r


def tokstr(f):
    return " ".join(toks(f))


def is_prop(f):
    return f[0] == "Atom" or (f[0] in ("Not", "And", "Or", "Implies") and all(is_prop(g) for g in f[1:]))


def ok_all(f, shift, crisp):
    """mirror of Lean `F.okAll` (cross-checked against the driver's `cls`)"""
    if f[0] == "Atom":
        return True
    if f[0] == "Until":
        return (not shift) and ok_all(f[1], shift, crisp) and ok_all(f[2], shift, crisp) and (not crisp or is_prop(f[2]))
    return all(ok_all(g, shift, crisp) for g in f[1:])


def ok_zero(f, shift, crisp):
    if f[0] in ("Not", "And", "Or", "Implies"):
        return all(ok_zero(g, shift, crisp) for g in f[1:])
    if f[0] == "Until":
        return ok_all(f[1], shift, crisp) and ok_all(f[2], shift, crisp) and (not crisp or is_prop(f[2]))
    return ok_all(f, shift, crisp)


# =============================================================================================== independent oracle (S)
def sat_py(f, tr, i=0):
    """finite-trace LTL, strong next / strong until, on the list of rows `tr` at position i (independent of Lean)"""
    op = f[0]
    n = len(tr)
    if op == "Atom":
        return bool(tr[i][f[1]])
    if op == "Not":
        return not sat_py(f[1], tr, i)
    if op == "And":
        return all(sat_py(g, tr, i) for g in f[1:])
    if op == "Or":
        return any(sat_py(g, tr, i) for g in f[1:])
    if op == "Implies":
        return (not sat_py(f[1], tr, i)) or sat_py(f[2], tr, i)
    if op == "Next":
        return i + 1 < n and sat_py(f[1], tr, i + 1)
    if op == "Eventually":
        return any(sat_py(f[1], tr, k) for k in range(i, n))
    if op == "Always":
        return all(sat_py(f[1], tr, k) for k in range(i, n))
    if op == "Until":
        for k in range(i, n):
            if sat_py(f[2], tr, k):
                return True
            if not sat_py(f[1], tr, k):
                return False
        return False
    raise ValueError(op)


def rows_of_code(x, length, natoms=2):
    return [[(x >> (natoms * t + a)) & 1 == 1 for a in range(natoms)] for t in range(length)]


# =============================================================================================== real code, monitor level
def real_monitor_verdicts(f, length, natoms=2):
    """verdict string of Scenic's PropositionMonitor over all traces (same layout as the driver's `mon`)"""
    from scenic.core import propositions as P

    class Env:
        row = None
    env = Env()

    def mk(g, ids):
        if g[0] == "Atom":
            a = g[1]
            return P.Atomic((lambda a=a: env.row[a]), next(ids))
        ops = [mk(h, ids) for h in g[1:]]
        if g[0] in ("And", "Or"):
            return getattr(P, g[0])(ops)
        return getattr(P, g[0])(*ops)
    out = []
    for x in range(2 ** (natoms * length)):
        prop = mk(f, itertools.count())
        m = prop.create_monitor()
        for t in range(length):
            env.row = [(x >> (natoms * t + a)) & 1 == 1 for a in range(natoms)]
            out.append(str(m.update().value))
    return "".join(out)


def _w_monitor(job):
    """job = (formulas, length, natoms) -> per formula (real verdict string, sat string of every prefix, witnesses)

    witnesses (on the REAL verdicts, against the independent semantics):
      'verdict':   smallest (x, t) where truthy(verdict after t+1 steps) != sat(prefix of length t+1)
      'premature': smallest (x, t, y, t2) where the verdict after t+1 steps is FALSE although the trace y (same first
                   t+1 steps) satisfies the formula at length t2+1
    """
    fs, length, natoms = job
    _quiet()
    res = []
    ntr = 2 ** (natoms * length)
    for f in fs:
        try:
            v = real_monitor_verdicts(f, length, natoms)
        except Exception as e:  # a crash of the real monitor is a disagreement with the model
            res.append(("crash:" + type(e).__name__, "", {}))
            continue
        sp = []
        for x in range(ntr):
            rows = rows_of_code(x, length, natoms)
            sp.append("".join("1" if sat_py(f, rows[: t + 1]) else "0" for t in range(length)))
        sp = "".join(sp)
        wit = {}
        for x in range(ntr):
            base = x * length
            for t in range(length):
                c = v[base + t]
                if (c in "34") != (sp[base + t] == "1") and "verdict" not in wit:
                    wit["verdict"] = (x, t)
                if c == "1" and t + 1 < length and "premature" not in wit:
                    pre = x & ((1 << (natoms * (t + 1))) - 1)
                    for hi in range(2 ** (natoms * (length - t - 1))):
                        y = pre | (hi << (natoms * (t + 1)))
                        t2 = sp.find("1", y * length + t + 1, (y + 1) * length)
                        if t2 >= 0:
                            wit["premature"] = (x, t, y, t2 - y * length)
                            break
            if len(wit) == 2:
                break
        res.append((v, sp, wit))
    return res


# =============================================================================================== real code, syntax level
_FACT = {"Always": "Always", "Eventually": "Eventually", "Next": "Next", "Until": "Until", "Implies": "Implies",
         "PropositionNot": "Not"}


def _walk_factory(n):
    import ast
    if not (isinstance(n, ast.Call) and isinstance(n.func, ast.Name)):
        return ["<?>"]
    f = n.func.id
    if f == "AtomicProposition":
        b = n.args[0].body
        if isinstance(b, ast.Name):
            return ["Atom", {"A": "0", "B": "1", "C": "2"}.get(b.id, "?")]
        return ["Atom", "!"]
    if f in ("PropositionAnd", "PropositionOr"):
        el = n.args[0].elts
        r = [f[11:], str(len(el))]
        for e in el:
            r += _walk_factory(e)
        return r
    r = [_FACT.get(f, "<" + f + ">")]
    for a in n.args:
        r += _walk_factory(a)
    return r


def untok(ts):
    return " ".join(ts).replace("( ", "(").replace(" )", ")")


def real_parse(s):
    """the proposition tree Scenic's parser + compiler build for `require <s>` (prefix form) or `error`"""
    import scenic.syntax.translator as tr
    from scenic.syntax.compiler import compileScenicAST
    try:
        tree = tr.parse_string("require " + s + "\n", "exec", filename="<c11>")
        py, _ = compileScenicAST(tree, filename="<c11>")
        return " ".join(_walk_factory(py.body[-1].value.args[1]))
    except Exception as e:
        from scenic.core.errors import ScenicSyntaxError
        if isinstance(e, (ScenicSyntaxError, SyntaxError)):
            return "error"
        return "crash:" + type(e).__name__


def _w_parse(strings):
    _quiet()
    return [real_parse(s) for s in strings]


# --- printing formulas with optional parentheses
_PREC = {"Until": 1, "Next": 2, "Eventually": 2, "Always": 2, "Implies": 3, "Or": 4, "And": 5, "Not": 6, "Atom": 7}
_KW = {"Next": "next", "Eventually": "eventually", "Always": "always", "Not": "not"}


def show(f, rng=None, extra=0.0, full=False):
    """token list for f; parentheses where the usual reading needs them, plus optional ones"""
    def wrap(ts, cond):
        return ["("] + ts + [")"] if cond else ts

    def opt():
        return full or (rng is not None and rng.random() < extra)

    def go(g, last):
        # `last`: g is the right-most operand of its parenthesis group (a prefix operator swallows everything to its right)
        op = g[0]
        if op == "Atom":
            return wrap([ATOM_NAMES[g[1]]], rng is not None and rng.random() < extra / 2)
        if op in _KW:
            c = g[1]
            need = _PREC[c[0]] < (_PREC[op] if op == "Not" else 2) and c[0] not in ("Next", "Eventually", "Always")
            if op == "Not":
                need = _PREC[c[0]] < 6 and c[0] not in ("Next", "Eventually", "Always")
            else:
                need = c[0] == "Until"
            inner = go(c, True) if (need or opt()) else None
            if inner is not None:
                return [_KW[op], "("] + inner + [")"]
            return [_KW[op]] + go(c, last)
        if op in ("And", "Or"):
            kw = op.lower()
            out = []
            for k, c in enumerate(g[1:]):
                is_last = k == len(g) - 2
                pre = c[0] in ("Next", "Eventually", "Always")
                need = _PREC[c[0]] <= _PREC[op] and not (pre and is_last and last and k > 0)
                if pre and k == 0:
                    need = True
                if c[0] == "Not" or c[0] == "Atom":
                    need = False
                if c[0] == "Not" and c[1][0] in ("Next", "Eventually", "Always") and not (is_last and last):
                    need = True
                if op == "Or" and c[0] == "And":
                    need = _has_open_prefix(c) and not (is_last and last)
                ts = go(c, True) if (need or opt()) else None
                out += (["("] + ts + [")"]) if ts is not None else go(c, is_last and last)
                if not is_last:
                    out.append(kw)
            return out
        if op == "Implies":
            a, b = g[1], g[2]
            need_a = _PREC[a[0]] <= 3 or _has_open_prefix(a)
            ta = go(a, True) if (need_a or opt()) else None
            left = (["("] + ta + [")"]) if ta is not None else go(a, False)
            need_b = b[0] in ("Until", "Implies")
            tb = go(b, True) if (need_b or opt()) else None
            right = (["("] + tb + [")"]) if tb is not None else go(b, last)
            return left + ["implies"] + right
        if op == "Until":
            a, b = g[1], g[2]
            ta = go(a, True) if (a[0] == "Until" or opt()) else None
            left = (["("] + ta + [")"]) if ta is not None else go(a, True)
            tb = go(b, True) if (b[0] == "Until" or opt()) else None
            right = (["("] + tb + [")"]) if tb is not None else go(b, True)
            return left + ["until"] + right
        raise ValueError(op)
    return go(f, True)


def _has_open_prefix(g):
    """an unparenthesised prefix operator at the right edge of g would swallow what follows"""
    if g[0] in ("Next", "Eventually", "Always"):
        return True
    if g[0] == "Atom":
        return False
    if g[0] == "Until":
        return False
    return _has_open_prefix(g[-1])


# =============================================================================================== real code, end to end
TAB = "verif_c11_tab"


def install_table_module():
    """the module the generated programs import: atoms read the scripted table at the current step"""
    if TAB in sys.modules:
        return sys.modules[TAB]
    import scenic.syntax.veneer as veneer
    m = types.ModuleType(TAB)
    m.rows = []
    m.maxt = -1

    def cell(a):
        s = veneer.currentSimulation
        t = s.currentTime if s is not None else 0
        m.maxt = max(m.maxt, t)
        return m.rows[t][a] if t < len(m.rows) else False
    m.A = lambda: cell(0)
    m.B = lambda: cell(1)
    m.C = lambda: cell(2)
    sys.modules[TAB] = m
    return m


def formula_source(ts):
    return untok(ts).replace("A", "vt.A()").replace("B", "vt.B()").replace("C", "vt.C()")


def program(placement, fsrc, n, d=0, s=0):
    """Scenic source with `require <fsrc>` in force for n steps; d/s = delays before the (sub-)scenario / statement"""
    def w(k, ind=8):
        return "".join(" " * ind + "wait\n" for _ in range(k))
    gen = "        if False:\n            wait\n"      # keeps a compose block a generator when it has no other wait
    head = f"import {TAB} as vt\n"
    main = "scenario Main():\n    setup:\n        ego = new Object\n"
    if placement == "top":
        return head + f"ego = new Object\nrequire {fsrc}\n", None
    if placement == "top-after":      # stops through `terminate after`
        return head + f"ego = new Object\nrequire {fsrc}\nterminate after {n - 1} steps\n", None
    if placement == "setup":
        return head + main + f"        require {fsrc}\n    compose:\n" + w(n - 1) + gen, "Main"
    if placement == "sub":
        return head + ("scenario Sub():\n    setup:\n" f"        require {fsrc}\n    compose:\n" + w(n - 1) + gen
                       + main + "    compose:\n" + w(d) + "        do Sub()\n"), "Main"
    if placement == "dyn":
        return head + ("scenario Sub():\n    compose:\n" + w(s) + f"        require {fsrc}\n" + w(n - 1) + gen
                       + main + "    compose:\n" + w(d) + "        do Sub()\n"), "Main"
    if placement == "dyn-top":
        return head + main + "    compose:\n" + w(s) + f"        require {fsrc}\n" + w(n - 1) + gen, "Main"
    forever = "        while True:\n            wait\n"
    if placement == "sub-open":       # the sub-scenario never ends by itself: stopped when the simulation ends (maxSteps)
        return head + ("scenario Sub():\n    setup:\n" f"        require {fsrc}\n    compose:\n" + forever
                       + main + "    compose:\n" + w(d) + "        do Sub()\n"), "Main"
    if placement == "sub-for":        # … stopped by the time limit of `do … for n steps` (at the start of the step after its last)
        return head + ("scenario Sub():\n    setup:\n" f"        require {fsrc}\n    compose:\n" + forever
                       + main + "    compose:\n" + w(d) + f"        do Sub() for {n} steps\n"), "Main"
    if placement == "sub-after":      # … stopped by its own `terminate after` (the step of the limit belongs to its trace)
        return head + ("scenario Sub():\n    setup:\n" f"        require {fsrc}\n        terminate after {n - 1} steps\n    compose:\n"
                       + forever + main + "    compose:\n" + w(d) + "        do Sub()\n"), "Main"
    if placement == "dyn-open":
        return head + ("scenario Sub():\n    compose:\n" + w(s) + f"        require {fsrc}\n" + forever
                       + main + "    compose:\n" + w(d) + "        do Sub()\n"), "Main"
    raise ValueError(placement)


def program_multi(inits, adds, n, d, top):
    """a scenario running n steps with the requirements `inits` in its setup block and `adds` = [(step, source)]
    executed by its compose block; `top`: it is the top-level scenario, else a sub-scenario started after d steps"""
    head = f"import {TAB} as vt\n"
    ind = " " * 8
    body = ""
    for t in range(n):
        for (s_, src) in adds:
            if s_ == t:
                body += f"{ind}require {src}\n"
        if t < n - 1:
            body += f"{ind}wait\n"
    body += f"{ind}if False:\n{ind}    wait\n"
    setup = "".join(f"{ind}require {src}\n" for src in inits)
    if top:
        return head + "scenario Main():\n    setup:\n" + ind + "ego = new Object\n" + setup + "    compose:\n" + body, "Main"
    sub = "scenario Sub():\n" + ("    setup:\n" + setup if setup else "") + "    compose:\n" + body
    main = "scenario Main():\n    setup:\n" + ind + "ego = new Object\n    compose:\n" + "".join(ind + "wait\n" for _ in range(d)) + ind + "do Sub()\n"
    return head + sub + main, "Main"


_SIM = None


def _sim_class():
    global _SIM
    if _SIM is None:
        from scenic.core.simulators import DummySimulator

        class Sim(DummySimulator):
            rejected_at = None

            def createSimulation(self, scene, **kw):
                try:
                    return super().createSimulation(scene, **kw)
                except BaseException as e:
                    sim = getattr(e, "simulation", None)
                    self.rejected_at = getattr(sim, "currentTime", None)
                    raise
        _SIM = Sim
    return _SIM


def compile_program(code, scenario):
    import scenic
    return scenic.scenarioFromString(code, scenario=scenario)


def run_once(sc, rows, max_steps):
    """('acc', t) | ('rej', t) | ('scene',) | ('crash', cls)"""
    from scenic.core.distributions import RejectionException
    m = install_table_module()
    m.rows = rows
    m.maxt = -1
    try:
        scene, _ = sc.generate(maxIterations=1)
    except RejectionException:
        return ("scene",)
    except Exception as e:
        return ("crash", "generate:" + type(e).__name__)
    sim = _sim_class()()
    try:
        res = sim.simulate(scene, maxSteps=max_steps, maxIterations=1)
    except Exception as e:
        return ("crash", type(e).__name__)
    if res is None:
        return ("rej", sim.rejected_at)
    return ("acc", res.currentTime)


def fmt_outcome(o):
    return o[0] if len(o) == 1 else f"{o[0]}{o[1]}" if o[0] in ("acc", "rej") else f"crash:{o[1]}"


SUB_LIKE = ("sub", "sub-open", "sub-for", "sub-after")          # requirement in the setup block of a sub-scenario started after d steps
DYN_LIKE = ("dyn", "dyn-open")                     # requirement executed by the compose block of such a sub-scenario after s steps


def offset_of(placement, d, s):
    return (d if placement in SUB_LIKE + DYN_LIKE + ("multi-sub",) else 0) + (s if placement in DYN_LIKE + ("dyn-top",) else 0)


def max_steps_of(placement, total):
    """`top`, `sub-open`, `dyn-open` stop through maxSteps (which must be >= 1: maxSteps=0 means "no limit"); the others
    stop by themselves"""
    return total - 1 if placement in ("top", "sub-open", "dyn-open") else total + 3


def e2e_case(placement, ts, n, d, s, codes, junk):
    """run the program for the given trace codes; returns list of outcomes, or ('compile-error', cls)"""
    if placement == "top" and n < 2:
        placement = "setup"
    if placement.startswith("multi"):
        inits, adds = ts
        code, scen = program_multi([formula_source(t) for t in inits], [(k, formula_source(t)) for k, t in adds], n, d,
                                   placement == "multi-top")
    else:
        code, scen = program(placement, formula_source(ts), n, d, s)
    try:
        sc = compile_program(code, scen)
    except Exception as e:
        return ("compile-error", type(e).__name__ + ": " + str(e)[:80])
    off = offset_of(placement, d, s)
    total = off + n
    max_steps = max_steps_of(placement, total)
    if max_steps < 1:
        return ("harness-error", f"{placement} placement needs at least two steps")
    out = []
    for x in codes:
        rows = junk[:off] + rows_of_code(x, n) + [[False, False]] * 4
        out.append(run_once(sc, rows, max_steps))
    return out


def _w_e2e(args):
    _quiet()
    res = []
    for (placement, ts, n, d, s, codes, junk) in args:
        try:
            res.append(e2e_case(placement, ts, n, d, s, codes, junk))
        except Exception as e:
            res.append(("harness-error", type(e).__name__ + ": " + str(e)[:200]))
    return res


_DEVNULL = None


def _quiet():
    """workers: no warnings noise on stderr"""
    import warnings
    warnings.filterwarnings("ignore")


# =============================================================================================== infrastructure
def use_fresh_parser(ctx):
    """regenerate the parser from the current scenic.gram (parser.py is a build product that may be stale)"""
    gram = os.path.join(ctx.repo, "src/scenic/syntax/scenic.gram")
    out = os.path.join(ctx.tmp, "c11_fresh_parser.py")
    p = subprocess.run([sys.executable, "-m", "pegen", gram, "-o", out], capture_output=True, text=True, cwd=ctx.tmp)
    if p.returncode != 0 or not os.path.exists(out):
        ctx.notes.append("could not regenerate the parser from scenic.gram (" + (p.stderr or p.stdout)[-200:].strip()
                         + "); using the installed parser.py")
        return False
    spec = importlib.util.spec_from_file_location("scenic_c11_fresh_parser", out)
    mod = importlib.util.module_from_spec(spec)
    spec.loader.exec_module(mod)
    import scenic.syntax.translator as tr
    installed = os.path.join(ctx.repo, "src/scenic/syntax/parser.py")
    try:
        same = open(installed).read().split("\n", 2)[2] == open(out).read().split("\n", 2)[2]
    except OSError:
        same = None
    ctx.extra["parser_py_matches_grammar"] = same
    if same is False:
        ctx.notes.append("the installed src/scenic/syntax/parser.py differs from the parser generated from the current "
                         "scenic.gram; all parsing in this check uses the regenerated one")
    tr.parse_string = mod.parse_string
    return True


def pool_map(ctx, fn, jobs, deadline=None):
    """fn(job) -> list of results; results concatenated in job order.

    `deadline` (absolute time.time() value) time-boxes the phase: the jobs are taken in order, the ones not finished when
    the deadline passes are dropped and their results are None (a cut-off is reported in the notes, never as a violation).
    Worker count: VERIF_JOBS (default 8)."""
    if not jobs:
        return []
    nproc = min(int(os.environ.get("VERIF_JOBS", "8")), len(jobs))
    parts = []
    if nproc <= 1:
        for j in jobs:
            if deadline is not None and time.time() > deadline and parts:
                break
            parts.append(fn(j))
    else:
        pool = multiprocessing.get_context("fork").Pool(nproc)
        try:
            it = pool.imap(fn, jobs, chunksize=1)
            for _ in jobs:
                try:
                    if deadline is None:
                        parts.append(it.next())
                    else:
                        parts.append(it.next(timeout=max(1.0, deadline - time.time()) if parts else None))
                except multiprocessing.TimeoutError:
                    break
        finally:
            pool.terminate()
            pool.join()
    out = [r for part in parts for r in part]
    missing = sum(len(j) for j in jobs[len(parts):])
    if missing:
        ctx.extra.setdefault("time_boxed", {})[getattr(fn, "__name__", "?")] = {"done": len(out), "cut_off": missing}
        ctx.notes.append(f"time box: {missing} of {len(out) + missing} generated cases of {getattr(fn, '__name__', '?')} were not run "
                         "(machine slow); not run = not counted, never a violation")
    return out + [None] * missing


def chunks(items, size):
    return [items[i:i + size] for i in range(0, len(items), size)]


# =============================================================================================== correspondence + oracle
class State:
    pass


def classify(ctx, st, fs):
    """fragment flags (okZero crisp=false, okZero crisp=true, prop) from the Lean driver, cross-checked with the mirror"""
    flags = {}
    shift = st.shift
    if st.driver_ok:
        out = ctx.driver(["C11 cls " + tokstr(f) for f in fs])
    else:
        out = [None] * len(fs)
    for f, o in zip(fs, out):
        mine = (ok_zero(f, shift, False), ok_zero(f, shift, True), is_prop(f))
        if o is not None:
            lean = tuple(c == "1" for c in o.split())
            if lean != mine and not st.cls_reported:
                st.cls_reported = True
                ctx.broken("correspondence", "fragment classifier (Lean okZero vs its Python mirror)", f"{tokstr(f)}: lean={o} python={mine}")
            mine = lean if len(lean) == 3 else mine
        flags[f] = mine
    return flags


def monitor_level(ctx, st):
    """(C1) PropositionMonitor vs Lean `evalAt` on every formula x every trace; (S) the same verdicts vs `sat_py`."""
    natoms = 2
    length = budget(ctx, st, "monitor", 4, 5)
    fs = enum_formulas(2, natoms)
    extra = []
    rng = random.Random(ctx.rng.getrandbits(32))
    want = budget(ctx, st, "monitor", 100, 4000)
    seen = set(fs)
    while len(extra) < want:
        f = random_formula(rng, rng.choice([3, 3, 4]), natoms)
        if f not in seen and depth_of(f) >= 3:
            seen.add(f)
            extra.append(f)
    fs3 = []
    while len(fs3) < budget(ctx, st, "monitor", 30, 400):
        f = random_formula(rng, 3, 3)
        if ("Atom", 2) in set(_subs(f)) and f not in seen:
            seen.add(f)
            fs3.append(f)
    st.witness = {}
    sweeps = [(fs + extra, length, natoms), (fs3, budget(ctx, st, "monitor", 3, 4), 3)]
    if length == 4:
        # quick tier: every formula of depth <= 2 x all 64 traces of length 3; all 256 traces of length 4 for the formulas of
        # depth <= 1, a seeded part of depth 2 and the deeper ones (the full sweep at length 4/5 is the escalated budget)
        deep = [f for f in fs if depth_of(f) == 2]
        rng.shuffle(deep)
        sweeps = [(fs, 3, natoms), ([f for f in fs if depth_of(f) <= 1] + sorted(deep[:400], key=tokstr) + extra, 4, natoms), sweeps[1]]
    for forms, ln, k in sweeps:
        t0 = time.time()
        per = max(2, len(forms) // 84)
        real = pool_map(ctx, _w_monitor, [(c, ln, k) for c in chunks(forms, per)])
        lean = lsat = None
        if st.driver_ok:
            lean = ctx.driver([f"C11 mon {k} {ln} {tokstr(f)}" for f in forms])
            lsat = ctx.driver([f"C11 sat {k} {ln} {tokstr(f)}" for f in forms])
        flags = classify(ctx, st, forms)
        bad = 0
        ntr = 2 ** (k * ln)
        for idx, f in enumerate(forms):
            rv, sp, wit = real[idx]
            ctx.case(("mon", k, ln, toks(f)), nontrivial=f[0] != "Atom")
            ctx.evaluations += ntr * ln - 1
            ctx.hist("monitor_sweep", f"{k} atoms x {ln} steps")
            ctx.hist("formula_depth", depth_of(f))
            ctx.hist("formula_root", f[0])
            ctx.hist("fragment", "exact+final" if flags[f][1] else "exact-only" if flags[f][0] else "outside")
            if lean is not None and lean[idx] != rv:
                bad += 1
                if bad <= 3:
                    j = next((j for j in range(min(len(rv), len(lean[idx]))) if rv[j] != lean[idx][j]), 0)
                    x, t = divmod(j, ln)
                    ctx.broken("correspondence", "monitor model (evalAt) vs PropositionMonitor/rv_ltl",
                               f"{tokstr(f)} trace={_bits(rows_of_code(x, ln, k))} step {t}: lean={lean[idx][j:j+1]} real={rv[j:j+1] or rv}")
            if rv.startswith("crash"):
                st.candidates.append(("monitor-crash", f, None, rv))
                continue
            if lsat is not None:
                # Lean `sat` on the full trace vs the independent evaluator (keeps the specification honest)
                full = "".join(sp[x * ln + ln - 1] for x in range(ntr))
                if lsat[idx] != full and not st.sat_reported:
                    st.sat_reported = True
                    ctx.broken("correspondence", "Lean `sat` vs independent Python evaluator", tokstr(f))
            if "verdict" in wit:
                x, t = wit["verdict"]
                key = ("verdict", flags[f][0])
                if key not in st.witness or _smaller(f, t, st.witness[key]):
                    st.witness[key] = (f, rows_of_code(x, ln, k)[: t + 1], t)
                ctx.hist("verdict_vs_semantics", "differs:in-fragment" if flags[f][0] else "differs:outside-fragment")
            else:
                ctx.hist("verdict_vs_semantics", "exact on all traces")
            if "premature" in wit:
                x, t, y, t2 = wit["premature"]
                key = ("premature", flags[f][1])
                if key not in st.witness or _smaller(f, t2, st.witness[key]):
                    st.witness[key] = (f, rows_of_code(y, ln, k)[: t2 + 1], t2)
                ctx.hist("false_verdict_finality", "premature:in-fragment" if flags[f][1] else "premature:outside-fragment")
        ctx.hist("monitor_level_cost", f"{k} atoms x {ln} steps x {len(forms)} formulas: {time.time() - t0:.0f}s")
    return fs


def _subs(f):
    yield f
    for g in f[1:]:
        if isinstance(g, tuple):
            yield from _subs(g)


def _smaller(f, t, old):
    return (len(toks(f)), t) < (len(toks(old[0])), old[2])


def syntax_level(ctx, st, fs):
    """(C3) the regenerated parser + PropositionTransformer vs the Lean grammar model, on printed formulas with
    optional parentheses and on random token strings; returns {formula: [token strings that denote it]}"""
    rng = random.Random(ctx.rng.getrandbits(32))
    cand = {}
    pool = list(fs)
    rng.shuffle(pool)
    pool = [f for f in fs if depth_of(f) <= 1] + pool[: budget(ctx, st, "syntax", 220, 2810)]
    pool += [random_formula(rng, 3, 2) for _ in range(budget(ctx, st, "syntax", 40, 1500))]
    for f in pool:
        vs = {tuple(show(f)), tuple(show(f, full=True))}
        for _ in range(budget(ctx, st, "syntax", 2, 4)):
            vs.add(tuple(show(f, rng, extra=rng.choice([0.15, 0.4]))))
        cand.setdefault(f, set()).update(vs)
    alph = ["A", "B", "(", ")", "not", "and", "or", "implies", "until", "next", "eventually", "always"]
    noise = set()
    while len(noise) < budget(ctx, st, "syntax", 300, 6000):
        n = rng.randint(1, 9)
        c = tuple(rng.choice(alph) for _ in range(n))
        d, ok = 0, True
        for i, t in enumerate(c):
            if t == "(":
                d += 1
                ok &= not (i + 1 < len(c) and c[i + 1] == ")") and not (i > 0 and c[i - 1] in ("A", "B", ")"))
            elif t == ")":
                d -= 1
                ok &= d >= 0
        if ok and d == 0:
            noise.add(c)
    # the worked examples and the precedence facts themselves
    fixed = [tk for _, _, tk, _ in __import__("translate.ltlgram", fromlist=["x"]).DOC_EXAMPLES] + ["A and always B", "( always A ) implies B", "always A implies B", "always ( A implies next A )",
             "( A until B ) or ( always A and not B )", "A until B until A", "A implies B implies A",
             "not A and B", "A or always B or A", "always A until B", "A implies B until A", "( always A ) and B"]
    strings = sorted({s for vs in cand.values() for s in vs} | noise | {tuple(s.split()) for s in fixed})
    real = pool_map(ctx, _w_parse, chunks([untok(s) for s in strings], 100))
    lean = ctx.driver(["C11 parse " + " ".join(s) for s in strings]) if st.driver_ok else [None] * len(strings)
    parsed = {}
    bad = 0
    for s, r, l in zip(strings, real, lean):
        ctx.case(("parse", s))
        ctx.hist("parse_outcome", "tree" if r not in ("error",) and not r.startswith("crash") else r.split(":")[0])
        parsed[s] = r
        if r.startswith("crash"):
            st.candidates.append(("parse-crash", None, untok(s), r))
        if l is not None and r != l and "!" not in r:
            bad += 1
            if bad <= 3:
                ctx.broken("correspondence", "grammar model (Syntax.parse) vs regenerated parser + PropositionTransformer",
                           f"`{untok(s)}`: lean={l} real={r}")
    denote = {}
    inexpressible = 0
    for f, vs in cand.items():
        want = tokstr(f)
        good = [s for s in vs if parsed.get(s) == want]
        if good:
            denote[f] = sorted(good, key=len)
        else:
            inexpressible += 1
            ctx.hist("inexpressible_root", f[0])
        # the fully parenthesised and the minimal form are *meant* to denote f: any other tree is a precedence surprise
        for s in (tuple(show(f)), tuple(show(f, full=True))):
            r = parsed.get(s)
            if r not in (want, "error") and r is not None and not r.startswith("crash"):
                st.precedence_surprises.append((want, untok(s), r))
    ctx.extra["syntax"] = {"strings": len(strings), "formulas_with_a_string": len(denote), "inexpressible": inexpressible}
    # the worked examples of the reference must parse to the reading the text states
    from translate import ltlgram
    for rel, ex, tk, tree in ltlgram.DOC_EXAMPLES:
        r = parsed.get(tuple(tk.split()))
        if r is None:
            r = real_parse(untok(tk.split()))
        ctx.case(("doc-example", ex))
        if r != tree:
            st.doc_failures.append((rel, ex, untok(tk.split()), tree, r))
    return denote


PLACEMENTS = ("top", "setup", "sub", "dyn", "top-after", "sub-after", "dyn-top", "sub-open", "sub-for", "dyn-open")
OP_OF = {"top": "run", "setup": "run", "top-after": "run", "sub": "rts", "sub-open": "rts", "sub-for": "rts", "sub-after": "rts",
         "dyn": "dyn", "dyn-top": "dyn", "dyn-open": "dyn"}


def expected_outcome(placement, p, off, n, last_verdict, step_reject):
    """the simulator outcome that one entry `p` of the driver's output predicts (see Driver/C11.lean)"""
    end = off + n if placement == "sub-for" else off + n - 1      # `do … for n steps` stops the scenario one step later
    if OP_OF.get(placement) == "run":
        if p[0] == "S":
            return ("scene",)
        p = p[1:]
    if p == "A":
        return ("acc", end)
    if p == "X":
        return ("crash", "RuntimeError")
    t = int(p[1:])
    if placement == "sub-for" and t == n - 1 and last_verdict not in step_reject:
        return ("rej", end)           # rejected by `_stop`, which `do … for` calls at the start of the next step
    return ("rej", t + off)


def end_to_end(ctx, st, fs, denote):
    """(C2 + S) simulator outcome vs the Lean rule and vs the independent semantics"""
    rng = random.Random(ctx.rng.getrandbits(32))
    base = [f for f in fs if depth_of(f) <= 1 and f in denote]
    rest = [f for f in denote if depth_of(f) >= 2]
    rng.shuffle(rest)
    # formulas that discriminate the rv_ltl defects / the theorems' fragments / the run-time paths are always included
    A, B = ("Atom", 0), ("Atom", 1)
    # (the simplest ones first: when the time box cuts the phase short, what has run still covers every operator of the
    # rule in every placement)
    special = [("Always", A), ("Eventually", A), ("Until", A, B), ("Next", A), ("Implies", A, B),
               ("Next", ("Until", A, B)), ("Until", A, ("Or", ("Eventually", B), A)),
               ("Always", ("Implies", A, ("Next", B))), ("Or", ("Until", A, B), ("Always", ("And", A, ("Not", B)))),
               ("Not", ("Next", ("Until", A, B))), ("Implies", ("Always", A), B), ("Eventually", ("Always", A)),
               ("And", ("Implies", A, B), ("Or", ("Not", A), B))]
    special = [f for f in special if f in denote or _try_denote(st, denote, f)]
    chosen = list(dict.fromkeys(special + base + rest[: budget(ctx, st, "sim", 20, 1200)]))
    quick = budget(ctx, st, "sim", True, False)
    jobs, meta = [], []
    for f in chosen:
        strs = denote[f]
        for placement in PLACEMENTS:
            rare = placement in ("top-after", "sub-after", "dyn-top", "sub-open", "sub-for", "dyn-open")
            if f in special:
                # every way a scenario can end / a requirement can come into force, for the discriminating formulas
                if rare and placement not in ("top-after", "sub-after") and rng.random() > 0.5:
                    continue
            elif rare and rng.random() > 0.15:
                continue
            elif not rare and quick and depth_of(f) <= 1 and rng.random() > 0.5:
                continue
            ts = rng.choice(strs[:4])
            n = rng.choice([4, 3, 3, 2, 1]) if f not in special else rng.choice([3, 3, 3, 4])
            if placement in ("top-after", "sub-after"):
                n = max(n, 2)
            d = rng.choice([0, 1, 2]) if placement in SUB_LIKE + DYN_LIKE else 0
            s = rng.choice([0, 0, 1, 2]) if placement in DYN_LIKE + ("dyn-top",) else 0
            if max_steps_of(placement, offset_of(placement, d, s) + n) < 1:
                n = 2
            ntr = 4 ** n
            codes = list(range(ntr)) if ntr <= 64 or ctx.tier == "thorough" or f in special else sorted(rng.sample(range(ntr), 48))
            junk = [[rng.random() < 0.5, rng.random() < 0.5] for _ in range(d + s)]
            jobs.append((placement, list(ts), n, d, s, codes, junk))
            meta.append(f)
    per = max(1, len(jobs) // 64)
    results = pool_map(ctx, _w_e2e, chunks(jobs, per), deadline=time_box(ctx, st, 0.8, 70))
    # Lean predictions
    lines, vlines = [], []
    for (placement, ts, n, d, s, codes, junk), f in zip(jobs, meta):
        if placement == "top" and n < 2:
            placement = "setup"
        lines.append(f"C11 {OP_OF[placement]} 2 {n} {tokstr(f)}")
        vlines.append(f"C11 mon 2 {n} {tokstr(f)}")
    lean = ctx.driver(lines) if st.driver_ok else [None] * len(lines)
    leanv = ctx.driver(vlines) if st.driver_ok else [None] * len(lines)
    flags = classify(ctx, st, list(dict.fromkeys(meta)))
    step_reject = [str(v) for v in st.rule.get("stepReject", [1])]
    bad = 0
    for job, f, res, pred, verd in zip(jobs, meta, results, lean, leanv):
        placement, ts, n, d, s, codes, junk = job
        if placement == "top" and n < 2:
            placement = "setup"
        off = offset_of(placement, d, s)
        if res is None:                      # cut off by the time box: not run, not counted
            ctx.hist("placement", "(not run: time box)")
            continue
        ctx.case(("e2e", placement, ts, n, d, s), nontrivial=f[0] != "Atom")
        ctx.hist("placement", placement)
        ctx.hist("run_length", n)
        if isinstance(res, tuple) and res and res[0] in ("compile-error", "harness-error"):
            if res[0] == "harness-error":
                raise Infra(f"end-to-end harness failed: {res[1]}")
            ctx.hist("e2e_outcome", "compile-error")
            st.candidates.append(("compile-error", f, (placement, ts, n, d, s), res[1]))
            continue
        ctx.evaluations += len(codes) - 1
        predl = pred.split(" ") if pred is not None else None
        end = off + n if placement == "sub-for" else off + n - 1
        for x, o in zip(codes, res):
            rows = rows_of_code(x, n)
            truth = sat_py(f, rows)
            ctx.hist("e2e_outcome", o[0] if o[0] != "crash" else "crash:" + o[1])
            # ---- (C2) model vs code
            if predl is not None:
                p = predl[x]
                exp = expected_outcome(placement, p, off, n, verd[x * n + n - 1], step_reject)
                if exp == ("scene",) and OP_OF[placement] == "run" and placement not in ("top", "setup", "top-after"):
                    exp = None
                if exp is not None and o != exp:
                    bad += 1
                    if bad <= 3:
                        ctx.broken("correspondence", "acceptance rule model (run) vs Simulator.simulate",
                                   f"{placement} `{untok(ts)}` n={n} d={d} s={s} rows={_bits(rows)}: lean={p} "
                                   f"(expected {fmt_outcome(exp)}) real={fmt_outcome(o)}")
            # ---- (S) the property itself
            rep = {"kind": "e2e", "placement": placement, "formula": untok(ts), "tree": tokstr(f), "n": n, "d": d, "s": s,
                   "rows": _bits(junk[:off] + rows), "expected": "accepted" if truth else "rejected"}
            where = f"{placement}:{untok(ts)}"
            if o[0] == "crash":
                _report(ctx, st, f"crash:{o[1]}:{where}", f"`require {untok(ts)}` ({placement}, in force for {n} steps from step "
                        f"{off}) on rows {rep['rows']} crashed with {o[1]}", rep)
                continue
            accepted = o[0] == "acc"
            if accepted != truth:
                if not flags[f][0]:
                    _report(ctx, st, "rv_ltl-nested-until",
                            f"`require {untok(ts)}` ({placement}): simulator {'accepted' if accepted else 'rejected'} rows {rep['rows']} "
                            f"but the trace {'violates' if accepted else 'satisfies'} the formula (until below a temporal operator)", rep)
                elif not flags[f][1] and not accepted:
                    _report(ctx, st, "rv_ltl-until-premature-false",
                            f"`require {untok(ts)}` ({placement}) rejected rows {rep['rows']} which satisfy the formula "
                            "(until with a temporal right operand)", rep)
                else:
                    _report(ctx, st, f"accept-mismatch:{where}",
                            f"`require {untok(ts)}` ({placement}, {n} steps from step {off}): simulator "
                            f"{fmt_outcome(o)} on rows {rep['rows']}, the formula is {'satisfied' if truth else 'violated'}", rep)
            elif accepted and o[1] != end:
                _report(ctx, st, f"end-time:{where}", f"`require {untok(ts)}` ({placement}): the simulation ended in step {o[1]}, "
                        f"expected step {end}", dict(rep, expected=f"accepted, ending in step {end}"))
            elif not accepted and o[0] == "rej" and o[1] is not None and o[1] - off + 1 < n:
                # rejected early: no continuation of the steps seen so far may satisfy the formula
                t = o[1] - off
                if t < 0 or _hopeful(f, rows[: t + 1], n):
                    key = ("rv_ltl-nested-until" if not flags[f][0] else "rv_ltl-until-premature-false" if not flags[f][1]
                           else f"early-reject:{where}")
                    _report(ctx, st, key, f"`require {untok(ts)}` ({placement}) rejected in step {o[1]} although a continuation "
                            f"of rows {_bits(rows[:t+1])} satisfies the formula",
                            dict(rep, expected=f"no rejection in step {o[1]}: some continuation of rows {_bits(rows[:t+1])} satisfies the formula"))
            elif not accepted and o[0] == "rej" and o[1] is not None and o[1] > end:
                _report(ctx, st, f"late-reject:{where}", f"`require {untok(ts)}` ({placement}) rejected in step {o[1]}, after the end "
                        f"(step {end}) of its scenario", dict(rep, expected=f"rejected by step {end}"))
            elif o[0] == "scene" and placement not in ("top", "setup", "top-after"):
                _report(ctx, st, f"scene-reject:{where}", f"`require {untok(ts)}` ({placement}) made scene generation fail", rep)
    return chosen


def multi_level(ctx, st, denote):
    """(C + S) scenarios with several temporal requirements — some in the setup block, some executed by the compose block
    in different steps — vs the Lean machine `simulate` (driver `sim`) and vs the semantics of each requirement on its
    own window"""
    rng = random.Random(ctx.rng.getrandbits(32))
    temporal = [f for f in denote if not is_prop(f) and depth_of(f) <= 2]
    if len(temporal) < 4:
        return
    temporal.sort(key=tokstr)
    small = [f for f in temporal if depth_of(f) == 1]
    jobs, meta = [], []
    for _ in range(budget(ctx, st, "sim", 24, 600)):
        n = rng.choice([2, 3, 3])
        top = rng.random() < 0.4
        d = 0 if top else rng.choice([0, 1, 2])
        k = rng.choice([2, 2, 3])
        reqs = []
        for _k in range(k):
            f = rng.choice(small if rng.random() < 0.6 else temporal)
            start = None if rng.random() < 0.4 else rng.randrange(n)
            reqs.append((start, f, list(rng.choice(denote[f][:3]))))
        if all(r[0] is None for r in reqs):
            reqs[-1] = (rng.randrange(n),) + reqs[-1][1:]
        inits = [r for r in reqs if r[0] is None]
        adds = sorted([r for r in reqs if r[0] is not None], key=lambda r: r[0])
        ntr = 4 ** n
        codes = list(range(ntr))
        junk = [[rng.random() < 0.5, rng.random() < 0.5] for _ in range(d)]
        placement = "multi-top" if top else "multi-sub"
        jobs.append((placement, ([r[2] for r in inits], [(r[0], r[2]) for r in adds]), n, d, 0, codes, junk))
        meta.append((inits, adds))
    results = pool_map(ctx, _w_e2e, chunks(jobs, max(1, len(jobs) // 32)), deadline=time_box(ctx, st, 0.95, 30))
    lines = []
    for (placement, _, n, d, s, codes, junk), (inits, adds) in zip(jobs, meta):
        segs = [f"i {tokstr(r[1])}" for r in inits] + [f"{r[0]} {tokstr(r[1])}" for r in adds]
        lines.append(f"C11 sim 2 {n} " + " ; ".join(segs))
    lean = ctx.driver(lines) if st.driver_ok else [None] * len(lines)
    # requirements in the setup block of the top-level scenario also take part in the initial-scene check
    scene_lines = sorted({f"C11 run 2 {job[2]} {tokstr(r[1])}" for job, (inits, _) in zip(jobs, meta) if job[0] == "multi-top" for r in inits})
    scene_out = dict(zip(scene_lines, ctx.driver(scene_lines))) if st.driver_ok and scene_lines else {}
    flags = classify(ctx, st, list(dict.fromkeys(r[1] for m in meta for part in m for r in part)))
    bad = 0
    for job, (inits, adds), res, pred in zip(jobs, meta, results, lean):
        placement, srcs, n, d, _, codes, junk = job
        off = d if placement == "multi-sub" else 0
        scene_pred = [scene_out[f"C11 run 2 {n} {tokstr(r[1])}"].split(" ") for r in inits] if placement == "multi-top" and scene_out else []
        desc = "; ".join([f"setup: require {untok(r[2])}" for r in inits] + [f"step {r[0]}: require {untok(r[2])}" for r in adds])
        if res is None:                      # cut off by the time box
            ctx.hist("placement", "(not run: time box)")
            continue
        ctx.case(("multi", placement, desc, n, d))
        ctx.hist("placement", placement)
        ctx.hist("multi_requirements", len(inits) + len(adds))
        if isinstance(res, tuple) and res and res[0] in ("compile-error", "harness-error"):
            if res[0] == "harness-error":
                raise Infra(f"multi-requirement harness failed: {res[1]}")
            st.candidates.append(("compile-error", inits[0][1] if inits else adds[0][1], (placement, ["…"], n, d, 0), res[1] + " :: " + desc))
            continue
        ctx.evaluations += len(codes) - 1
        predl = pred.split(" ") if pred is not None else None
        reqs = [(0, r[1], r[2]) for r in inits] + [(r[0], r[1], r[2]) for r in adds]
        exact = all(flags[f][0] for _, f, _ in reqs)
        final = all(flags[f][1] for _, f, _ in reqs)
        for x, o in zip(codes, res):
            rows = rows_of_code(x, n)
            ctx.hist("e2e_outcome", o[0] if o[0] != "crash" else "crash:" + o[1])
            rep = {"kind": "multi", "placement": placement, "inits": [untok(r[2]) for r in inits],
                   "adds": [[r[0], untok(r[2])] for r in adds], "n": n, "d": d, "rows": _bits(junk[:off] + rows)}
            if predl is not None:
                p = predl[x]
                exp = ("acc", off + n - 1) if p == "A" else ("rej", int(p[1:]) + off)
                if any(sp[x][0] == "S" for sp in scene_pred):
                    exp = ("scene",)
                if o != exp:
                    bad += 1
                    if bad <= 3:
                        ctx.broken("correspondence", "scenario machine (simulate) vs Simulator.simulate",
                                   f"{placement} [{desc}] n={n} d={d} rows={_bits(rows)}: lean={p} real={fmt_outcome(o)}")
            if o == ("scene",):
                # legitimate only when a setup-block requirement of the top-level scenario is hopeless in step 0
                if placement != "multi-top" or all(_hopeful(r[1], rows[:1], n) for r in inits):
                    _report(ctx, st, f"scene-reject:{placement}:{desc}", f"scenario with [{desc}] ({placement}): scene generation failed on rows "
                            f"{rep['rows']} although every setup-block requirement can still be satisfied", dict(rep, expected="a scene"))
                continue
            if o[0] == "crash":
                _report(ctx, st, f"crash:{o[1]}:{placement}:{desc}", f"scenario with [{desc}] ({placement}) crashed with {o[1]} on rows {rep['rows']}",
                        dict(rep, expected="accepted or rejected"))
                continue
            truth = all(sat_py(f, rows[st_:]) for st_, f, _ in reqs)
            accepted = o[0] == "acc"
            rep["expected"] = "accepted" if truth else "rejected"
            if accepted != truth:
                key = f"multi-mismatch:{placement}:{desc}" if exact and (final or accepted) else (
                    "rv_ltl-nested-until" if not exact else "rv_ltl-until-premature-false")
                _report(ctx, st, key, f"scenario with [{desc}] ({placement}, {n} steps from step {off}): simulator {fmt_outcome(o)} on rows "
                        f"{rep['rows']}, but {'every requirement is satisfied on its window' if truth else 'some requirement is violated on its window'}", rep)
            elif not accepted and o[0] == "rej" and o[1] is not None and o[1] - off + 1 < n and final:
                t = o[1] - off
                culprits = [1 for st_, f, _ in reqs if st_ <= t and not _hopeful(f, rows[st_: t + 1], n - st_)]
                if t < 0 or not culprits:
                    _report(ctx, st, f"multi-early-reject:{placement}:{desc}", f"scenario with [{desc}] ({placement}) rejected in step {o[1]} although "
                            f"every requirement in force can still be satisfied by a continuation of rows {_bits(rows[:t+1])}",
                            dict(rep, expected=f"no rejection in step {o[1]}"))


def _try_denote(st, denote, f):
    for s in (tuple(show(f)), tuple(show(f, full=True))):
        if real_parse(untok(s)) == tokstr(f):
            denote[f] = [s]
            return True
    return False


def _bits(rows):
    return ",".join("".join("1" if v else "0" for v in r) for r in rows)


def _hopeful(f, prefix, n):
    """does some continuation of `prefix` (to any length <= n, over 2 atoms) satisfy f?"""
    t = len(prefix)
    for ln in range(t, n + 1):
        for hi in range(4 ** (ln - t)):
            if sat_py(f, prefix + rows_of_code(hi, ln - t)):
                return True
    return False


MAX_VIOLATIONS = 5


def _report(ctx, st, key, what, rep):
    """known keys are always passed on (they print KNOWN-FINDING once); at most MAX_VIOLATIONS new ones are written"""
    if key in st.reported:
        return
    from vlib.ctx import load_findings
    known = key in load_findings().get(ctx.prop, {})
    if not known and st.nviol >= MAX_VIOLATIONS:
        st.suppressed += 1
        return
    st.reported.add(key)
    if ctx.violation(key, what, rep):
        st.found = True
        st.nviol += 1


VALS = {"1": 1, "0": 0, "2": 2, "e": "", "s": "x", "l": [], "L": [0], "f": 0.0, "N": None}


def truthiness_stream(ctx, st):
    """atoms returning non-Boolean values (None included): only their truth value may matter"""
    vals = VALS
    rng = random.Random(ctx.rng.getrandbits(32))
    A, B = ("Atom", 0), ("Atom", 1)
    forms = [(("Always", A), "always A"), (("Eventually", A), "eventually A"), (("Until", A, B), "A until B"),
             (("Always", ("Or", A, ("Next", B))), "always A or next B"), (("Next", ("Not", A)), "next not A")]
    for f, s in forms:
        for placement in ("top", "dyn"):
            code, scen = program(placement, formula_source(s.split()), 3)
            try:
                sc = compile_program(code, scen)
            except Exception:
                continue
            for _ in range(budget(ctx, st, "sim", 15, 120)):
                ks = [[rng.choice(list(vals)) for _ in range(2)] for _ in range(3)]
                rows = [[vals[k] for k in r] for r in ks]
                truth = sat_py(f, [[bool(v) for v in r] for r in rows])
                o = run_once(sc, rows + [[False, False]] * 3, max_steps_of(placement, 3))
                ctx.case(("truthiness", placement, s, ks))
                ctx.hist("atom_values", "with None" if any(k == "N" for r in ks for k in r) else "without None")
                rep = {"kind": "truthiness", "placement": placement, "formula": s, "keys": ks, "expected": "accepted" if truth else "rejected"}
                shown = ",".join("".join(r) for r in ks)
                if o[0] == "crash":
                    _report(ctx, st, f"atom-value-crash:{o[1]}:{placement}:{s}:{shown}", f"`require {s}` ({placement}) with atom values "
                            f"{rows} crashed with {o[1]}", rep)
                elif (o[0] == "acc") != truth:
                    _report(ctx, st, f"truthiness-mismatch:{placement}:{s}:{shown}", f"`require {s}` ({placement}) with atom values {rows}: "
                            f"{fmt_outcome(o)}, expected {rep['expected']}", rep)
    # the same for non-temporal requirements evaluated on the spot at run time (setup block of a sub-scenario, compose block),
    # also against the Lean model of `evaluate()` (driver `immv`)
    forms2 = [(("And", A, B), "A and B"), (("Or", A, B), "A or B"), (("Not", A), "not A"), (("Implies", A, B), "A implies B"),
              (("And", ("Not", A), ("Or", B, A)), "not A and (B or A)"), (("Implies", ("Or", A, B), ("And", B, A)), "(A or B) implies (B and A)"),
              (("Implies", A, ("Implies", B, A)), "A implies (B implies A)"), (("Or", ("Implies", A, B), ("Not", B)), "(A implies B) or not B")]
    lines, cases = [], []
    for f, s in forms2:
        for placement in ("sub", "dyn"):
            code, scen = program(placement, formula_source(s.replace("(", "( ").replace(")", " )").split()), 1, 0, 0)
            try:
                sc = compile_program(code, scen)
            except Exception as e:
                st.candidates.append(("compile-error", f, (placement, s.replace("(", "( ").replace(")", " )").split(), 1, 0, 0), type(e).__name__))
                continue
            for _ in range(budget(ctx, st, "sim", 12, 100)):
                ks = [[rng.choice(list(vals)) for _ in range(2)]]
                rows = [[vals[k] for k in r] for r in ks]
                truth = sat_py(f, [[bool(v) for v in r] for r in rows])
                o = run_once(sc, rows + [[False, False]] * 3, 3)
                ctx.case(("truthiness-runtime", placement, s, ks))
                rep = {"kind": "truthiness", "placement": placement, "formula": s, "keys": ks, "expected": "accepted" if truth else "rejected"}
                lines.append(f"C11 immv {''.join(ks[0])} {tokstr(f)}")
                cases.append((s, placement, ks, o))
                if o[0] == "crash" or (o[0] == "acc") != truth:
                    _report(ctx, st, f"runtime-truthiness:{placement}:{s}:{''.join(ks[0])}", f"`require {s}` executed at run time ({placement}) "
                            f"with atom values {rows[0]}: {fmt_outcome(o)}, expected {rep['expected']}", rep)
    if st.driver_ok and lines:
        bad = 0
        for (s, placement, ks, o), p in zip(cases, ctx.driver(lines)):
            exp = ("acc", 0) if p == "A" else ("rej", 0) if p == "R0" else ("crash", "RuntimeError")
            if o != exp:
                bad += 1
                if bad <= 2:
                    ctx.broken("correspondence", "evaluate() model (evalPy) vs veneer.require at run time",
                               f"{placement} `{s}` values {ks[0]}: lean={p} real={fmt_outcome(o)}")


def confirm_monitor_witnesses(ctx, st, denote):
    """the monitor-level sweep is exhaustive; turn its smallest witnesses into simulator runs (real acceptance)"""
    for (kind, in_fragment), (f, rows, t) in sorted(st.witness.items(), key=lambda kv: str(kv[0])):
        strs = denote.get(f) or ([tuple(show(f))] if real_parse(untok(show(f))) == tokstr(f) else None)
        if not strs:
            continue
        ts = list(strs[0])
        n = len(rows)
        x = sum((1 << (2 * tt + a)) for tt in range(n) for a in range(2) if a < len(rows[tt]) and rows[tt][a])
        if any(len(r) > 2 for r in rows):
            continue
        res = e2e_case("top", ts, n, 0, 0, [x], [])
        if not isinstance(res, list):
            continue
        o = res[0]
        truth = sat_py(f, rows)
        rep = {"kind": "e2e", "placement": "top", "formula": untok(ts), "tree": tokstr(f), "n": n, "d": 0, "s": 0,
               "rows": _bits(rows), "expected": "accepted" if truth else "rejected"}
        mismatch = (o[0] == "acc") != truth
        if not mismatch:
            continue
        if kind == "verdict":
            key = f"accept-mismatch:top:{untok(ts)}" if in_fragment else "rv_ltl-nested-until"
        else:
            key = f"early-reject:top:{untok(ts)}" if in_fragment else (
                "rv_ltl-until-premature-false" if ok_zero(f, st.shift, False) else "rv_ltl-nested-until")
        _report(ctx, st, key, f"`require {untok(ts)}` on rows {_bits(rows)}: simulator {fmt_outcome(o)}, the formula is "
                f"{'satisfied' if truth else 'violated'} by that trace", rep)


# =============================================================================================== main
def run(ctx):
    ctx.rule = ("cases = (formula, run length, atoms) at monitor level (all formulas of depth <= 2 over two atoms, seeded deeper / "
                "n-ary / three-atom ones) x ALL traces; token strings at syntax level (printed formulas with optional parentheses, "
                "random balanced token strings); (placement, formula string, length, delays) x traces at simulator level; "
                "non-trivial = not a bare atom; distinct by content hash; `evaluations` counts (case, trace, step) triples")
    ctx.assumptions += [
        "atoms are functions of the current step only (scripted tables); exceptions raised by atoms are out of scope",
        "continuations are checked by the theorems for all lengths; the enumeration confirms them up to the run length",
        "rv_ltl is third-party: its source is digest-checked against the version the monitor model was written from",
    ]
    ctx.trusted_base += ["tools/translate/ltl.py, tools/translate/ltlgram.py (template extraction)",
                         "tools/props/c11.py (correspondence harness, independent evaluator sat_py)",
                         "pegen (regenerates the parser from scenic.gram)"]
    changed = ctx.fingerprint(FINGERPRINTS)
    st = State()
    st.scopes = {SCOPE.get(label, "sim") for label in changed}
    st.found = False
    st.nviol = 0
    st.suppressed = 0
    st.reported = set()
    st.candidates = []
    st.precedence_surprises = []
    st.doc_failures = []
    st.cls_reported = st.sat_reported = False
    st.rule = {}
    st.shift = True
    from translate import ltl, ltlgram
    try:
        d = ltl.extract()
        st.rule = d["rule"]
        st.shift = d["untilShift"]
        ctx.gen("LTL", ltl.to_lean(d))
        ctx.extra["extracted_rule"] = d["rule"]
        ctx.extra["rv_ltl_until_shift"] = d["untilShift"]
    except TemplateMismatch as e:
        ctx.gen_restore("LTL")        # never build against a stale Gen file of an earlier run
        ctx.escalated.append(f"translator tie lost (ltl): {e}")
        st.scopes |= {"monitor", "sim"}
        ctx.notes.append(f"translator tie lost for the monitor/rule data: {e}; relying on correspondence at thorough budget")
    try:
        g = ltlgram.extract()
        ctx.gen("LTLGram", ltlgram.to_lean(g))
    except TemplateMismatch as e:
        ctx.gen_restore("LTLGram")
        ctx.escalated.append(f"translator tie lost (ltlgram): {e}")
        st.scopes |= {"syntax"}
        ctx.notes.append(f"translator tie lost for the grammar data: {e}; relying on correspondence at thorough budget")
    pr = ctx.prove(THEOREMS, side_conditions=SIDE)
    st.driver_ok = pr.build_ok
    if not pr.build_ok:
        rc, log = ctx.lake(["build", "drv_c11"])
        st.driver_ok = rc == 0
    if ctx.tier == "thorough" and pr.build_ok:
        ctx.leanchecker(["ScenicModel.Props.C11", "ScenicModel.Props.C11Sem", "ScenicModel.Props.C11Final",
                         "ScenicModel.Props.C11Scenario", "ScenicModel.Props.C11Syntax"])
    import scenic  # noqa: F401
    _quiet()
    use_fresh_parser(ctx)
    install_table_module()
    random.seed(ctx.rng.getrandbits(32))
    phases = {}

    def timed(name, fn, *a):
        t0 = time.time()
        r = fn(*a)
        phases[name] = round(time.time() - t0, 1)
        if os.environ.get("VERIF_DEBUG"):
            print(f"[c11] {name}: {phases[name]}s (elapsed {ctx.elapsed():.0f}s)", flush=True)
        return r
    phases["translate+prove"] = round(ctx.elapsed(), 1)
    fs = timed("monitor_level", monitor_level, ctx, st)
    denote = timed("syntax_level", syntax_level, ctx, st, fs)
    timed("confirm_witnesses", confirm_monitor_witnesses, ctx, st, denote)   # smallest counterexamples first
    timed("end_to_end", end_to_end, ctx, st, fs, denote)
    timed("multi_level", multi_level, ctx, st, denote)
    timed("truthiness", truthiness_stream, ctx, st)
    ctx.extra["phase_seconds"] = phases
    for rel, ex, src, tree, r in st.doc_failures:
        _report(ctx, st, f"doc-example:{src}", f"the documented example `{ex}` ({rel}) {'is a syntax error' if r == 'error' else 'parses as ' + r}; "
                f"the text states the reading {tree}", {"kind": "parse", "formula": src, "expected": tree})
    for want, s, r in st.precedence_surprises[:3]:
        _report(ctx, st, f"precedence:{s}", f"`{s}` was printed for {want} but parses as {r}",
                {"kind": "parse", "formula": s, "expected": want})
    for kind, f, where, detail in st.candidates[:3]:
        if kind == "compile-error":
            _report(ctx, st, f"compile-error:{where[0]}:{untok(where[1])}",
                    f"`require {untok(where[1])}` ({where[0]}) parsed in isolation but the program did not compile: {detail}",
                    {"kind": "e2e", "placement": where[0], "formula": untok(where[1]), "tree": tokstr(f), "n": where[2], "d": where[3],
                     "s": where[4], "rows": "", "expected": "compiles"})
        elif kind == "parse-crash":
            _report(ctx, st, f"parse-crash:{where}", f"`require {where}` made the front end raise {detail}",
                    {"kind": "parse", "formula": where, "expected": "tree or syntax error"})
        elif kind == "monitor-crash":
            _report(ctx, st, f"monitor-crash:{tokstr(f)}", f"PropositionMonitor crashed on {tokstr(f)}",
                    {"kind": "monitor", "tree": tokstr(f)})
    ctx.extra["reported_keys"] = sorted(k for k in st.reported)
    if st.suppressed:
        ctx.notes.append(f"{st.suppressed} further distinct failing inputs were found and not written out (only the first {MAX_VIOLATIONS} are)")
    ctx.resolve_brokens(st.found)


def replay(ctx, path):
    """re-executes the recorded input against $SCENIC_REPO; exit code 1 when the recorded failure shows again, 0 otherwise"""
    body = json.load(open(path))
    rep = body.get("replay", body)
    import scenic  # noqa: F401
    _quiet()
    ctx.notes = []
    use_fresh_parser(ctx)
    install_table_module()
    kind = rep.get("kind")
    failed = None
    if kind == "parse":
        got = real_parse(rep["formula"].replace("(", " ( ").replace(")", " ) "))
        print(f"require {rep['formula']}  ->  {got}   (expected: {rep.get('expected')})")
        failed = got != rep.get("expected") and rep.get("expected") not in ("tree or syntax error",)
        if rep.get("expected") == "tree or syntax error":
            failed = got.startswith("crash")
    elif kind in ("e2e", "multi"):
        if kind == "multi":
            tk = lambda x: x.replace("(", " ( ").replace(")", " ) ").split()
            code, scen = program_multi([formula_source(tk(x)) for x in rep["inits"]],
                                       [(k, formula_source(tk(x))) for k, x in rep["adds"]], rep["n"], rep["d"], rep["placement"] == "multi-top")
            off = rep["d"] if rep["placement"] == "multi-sub" else 0
        else:
            ts = rep["formula"].replace("(", " ( ").replace(")", " ) ").split()
            code, scen = program(rep["placement"], formula_source(ts), rep["n"], rep["d"], rep["s"])
            off = offset_of(rep["placement"], rep["d"], rep["s"])
        print(code)
        rows = [[c == "1" for c in r] for r in rep["rows"].split(",")] if rep["rows"] else []
        try:
            sc = compile_program(code, scen)
        except Exception as e:
            print("does not compile:", type(e).__name__, e)
            print("REPRODUCED" if rep.get("expected") == "compiles" else "not reproduced")
            return 1 if rep.get("expected") == "compiles" else 0
        total = off + rep["n"]
        o = run_once(sc, rows + [[False, False]] * 4, max_steps_of(rep["placement"], total))
        print(f"atom rows (step: A B) {rep['rows']}; requirement(s) in force from step {off}, scenario of {rep['n']} steps")
        print(f"simulator: {fmt_outcome(o)}    expected: {rep.get('expected')}")
        exp = rep.get("expected", "")
        if exp in ("accepted", "rejected"):
            failed = o[0] == "crash" or (o[0] == "acc") != (exp == "accepted")
        elif exp.startswith("no rejection in step"):
            failed = o[0] == "rej" and str(o[1]) == exp.split()[4].rstrip(":")
        elif exp.startswith("accepted, ending in step"):
            failed = o != ("acc", int(exp.split()[-1]))
        elif exp.startswith("rejected by step"):
            failed = not (o[0] == "rej" and o[1] is not None and o[1] <= int(exp.split()[-1]))
        elif exp in ("a scene", "accepted or rejected", "compiles"):
            failed = o[0] in ("scene", "crash") if exp != "compiles" else False
    elif kind == "truthiness":
        vals = VALS
        pl = rep.get("placement", "top")
        toks_ = rep["formula"].replace("(", " ( ").replace(")", " ) ").split()
        n = len(rep["keys"])
        code, scen = program(pl, formula_source(toks_), n, 0, 0)
        sc = compile_program(code, scen)
        rows = [[vals[k] for k in r] for r in rep["keys"]]
        print(code, "atom values per step:", rows)
        o = run_once(sc, rows + [[False, False]] * 3, max_steps_of(pl, n) if n > 1 else 3)
        print("simulator:", fmt_outcome(o), "  expected:", rep.get("expected"))
        failed = o[0] == "crash" or (o[0] == "acc") != (rep.get("expected") == "accepted")
    else:
        print(json.dumps(rep, indent=1)[:3000])
    if failed is None:
        print("(nothing to re-execute for this record)")
        return 0
    print("REPRODUCED: the recorded failure shows on this tree" if failed else "not reproduced: this tree behaves as expected")
    return 1 if failed else 0
