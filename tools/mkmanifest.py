#!/usr/bin/env python3
"""Assemble MANIFEST.json from manifest.d/*.json fragments (one per claimed property)."""
import glob
import json
import os

ROOT = os.path.dirname(os.path.dirname(os.path.abspath(__file__)))
ALL = [json.loads(l)["id"] for l in open(os.path.join(ROOT, "properties.jsonl"))]
NA_FILE = os.path.join(ROOT, "manifest.d", "not_applicable.json")


def main():
    checks = []
    claimed = set()
    for f in sorted(glob.glob(os.path.join(ROOT, "manifest.d", "C*.json"))):
        d = json.load(open(f))
        pid = d["property_id"]
        claimed.add(pid)
        checks.append({
            "property_id": pid,
            "quick_cmd": f"./check {pid} --tier quick",
            "thorough_cmd": f"./check {pid} --tier thorough",
            "evidence_file": f"evidence/{pid}.json",
            "replay_cmd_template": f"./check {pid} --replay {{path}}",
            "engine": d.get("engine", "lean-proof+correspondence"),
            "level_claimed": d["level_claimed"],
            "level_note": d["level_note"],
            "technique": d["technique"],
        })
    na_reasons = json.load(open(NA_FILE)) if os.path.exists(NA_FILE) else {}
    na = [{"property_id": p, "reason": na_reasons.get(p, "check not yet built in this round (planned: DESIGN.md §6); no claim is made")}
          for p in ALL if p not in claimed]
    hooks_file = os.path.join(ROOT, "manifest.d", "hooks.json")
    hooks = json.load(open(hooks_file))
    man = {
        "version": 1,
        "setup_cmd": "./tools/setup.sh",
        "hooks": hooks,
        "engines": [{
            "name": "lean-proof+correspondence",
            "path": "check",
            "serves_properties": sorted(claimed),
            "kind_free_text": "Lean 4 model + theorems (lean/ScenicModel), translators regenerating Gen/*.lean from /repo, "
                              "compiled Lean driver for differential correspondence, direct property oracles on the real code",
        }],
        "checks": checks,
        "not_applicable": na,
        "notes": "Single entry point ./check <Cxx> --tier quick|thorough [--replay f]; KNOWN_FINDINGS.json lists recorded and fixed defects.",
    }
    json.dump(man, open(os.path.join(ROOT, "MANIFEST.json"), "w"), indent=1)
    print(f"MANIFEST.json: {len(checks)} checks, {len(na)} not claimed")


if __name__ == "__main__":
    main()
