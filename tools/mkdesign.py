#!/usr/bin/env python3
"""Assemble DESIGN.md from notes/design/shared/{HEAD,TAIL}.md, notes/design/Cxx.md, the findings files and seeded/."""
import glob
import json
import os
import re

ROOT = os.path.dirname(os.path.dirname(os.path.abspath(__file__)))
PROPS = [json.loads(l) for l in open(os.path.join(ROOT, "properties.jsonl"))]


def read(p):
    with open(os.path.join(ROOT, p)) as f:
        return f.read()


def demote(md):
    """per-property notes start at '# Cxx …': shift every heading two levels down (code blocks untouched)."""
    out, fence = [], False
    for line in md.split("\n"):
        if line.startswith("```"):
            fence = not fence
        if not fence and re.match(r"#{1,4} ", line):
            line = "##" + line
        out.append(line)
    return "\n".join(out)


def main():
    man = json.load(open(os.path.join(ROOT, "MANIFEST.json")))
    claimed = {c["property_id"]: c for c in man["checks"]}
    na = {e["property_id"]: e["reason"] for e in man.get("not_applicable", [])}
    parts = [read("notes/design/shared/HEAD.md").rstrip(), ""]

    parts += ["## 6. Per-property: what was built", "",
              "One note per property, written by the builder of that property's check (model scope, theorems, generated data,",
              "correspondence, direct oracle, limits, which source changes are caught by which part, run times).", ""]
    parts += ["| id | claimed level | deciding technique |", "|---|---|---|"]
    for p in PROPS:
        pid = p["id"]
        if pid in claimed:
            parts.append(f"| {pid} | {claimed[pid]['level_claimed']['category']} | {claimed[pid]['technique']} |")
        else:
            parts.append(f"| {pid} | not claimed | {na.get(pid, '')} |")
    parts.append("")
    for p in PROPS:
        pid = p["id"]
        f = f"notes/design/{pid}.md"
        if os.path.exists(os.path.join(ROOT, f)):
            parts += [demote(read(f)).rstrip(), "", "-" * 86, ""]
        else:
            parts += [f"### {pid} — {p['title']}", "", "(no design note yet)", "", "-" * 86, ""]

    # ---- section 7: defects
    kf = json.load(open(os.path.join(ROOT, "KNOWN_FINDINGS.json")))
    parts += ["## 7. Defects of BerkeleyLearnVerify/Scenic found by the checks", "",
              "### 7.1 Repaired (one unguarded `fix:` commit each in /repo; the check passes on the repaired tree and reports the",
              "violation again if the defect returns — each repaired defect's minimal input is a regression case of its check)", ""]
    for line in kf.get("fixed", []):
        parts.append("* " + line)
    parts += ["", "### 7.2 Known findings (recorded, not repaired; matched by property + key, a different violation of the same",
              "property is still reported)", ""]
    known = list(kf.get("findings", []))
    for f in sorted(glob.glob(os.path.join(ROOT, "findings.d", "*.json"))):
        known += json.load(open(f)).get("findings", [])
    seen = set()
    parts += ["| property | key | what fails |", "|---|---|---|"]
    for e in sorted(known, key=lambda e: (e["property"], e["key"])):
        if e.get("status", "known") != "known" or (e["property"], e["key"]) in seen:
            continue
        seen.add((e["property"], e["key"]))
        what = e["what"].replace("|", "\\|").replace("\n", " ")
        parts.append(f"| {e['property']} | `{e['key']}` | {what} |")
    parts.append("")
    fa = os.path.join(ROOT, "notes/design/shared/FALSE_ALARMS.md")
    if os.path.exists(fa):
        parts += [open(fa).read().rstrip(), ""]
    parts += ["-" * 86, "", read("notes/design/shared/TAIL.md").rstrip(), "", "-" * 86, ""]

    # ---- section 11: seeded changes
    parts += ["## 11. Seeded property-breaking changes and which check catches them", "",
              "Written by independent agents that saw only the text of one property and a scratch worktree of /repo (nothing from",
              "/verif); each was confirmed by the coordinator (demonstration fails with the change and passes without it, the",
              "touched modules' tests and the pinned suite still pass) before being kept in `seeded/<id>/`. `tools/run_seeded.py`",
              "applies one, runs the check(s), and undoes it.", ""]
    res_path = os.path.join(ROOT, "seeded", "RESULTS.json")
    results = json.load(open(res_path)) if os.path.exists(res_path) else {}
    parts += ["| id | property | change | needs, to manifest | caught by (quick tier) |", "|---|---|---|---|---|"]
    for d in sorted(glob.glob(os.path.join(ROOT, "seeded", "*", "meta.json"))):
        m = json.load(open(d))
        sid = os.path.basename(os.path.dirname(d))
        r = results.get(sid, {})
        prop = m["property"] if isinstance(m["property"], str) else ",".join(m["property"])
        cell = r.get("summary", "(not yet run)")
        parts.append(f"| {sid} | {prop} | {m.get('summary','').replace('|','/')} | {m.get('needs_to_manifest','').replace('|','/')} | {cell.replace('|','/')} |")
    parts.append("")
    open(os.path.join(ROOT, "DESIGN.md"), "w").write("\n".join(parts) + "\n")
    print("DESIGN.md:", sum(len(p.split('\n')) for p in parts), "lines")


if __name__ == "__main__":
    main()
