#!/bin/bash
# Developer tool: run the repository's pinned test suite sharded by test file (one pytest process per file, N in parallel).
#   tools/run_suite.sh <repo-dir> <out-dir> [jobs]
# The registered baseline command (MANIFEST.hooks.baseline_off_cmd) is the serial one; this is only a faster way to
# get the same per-test outcomes while developing.
REPO="${1:-/repo}"; OUT="${2:-/tmp/suite}"; JOBS="${3:-12}"
mkdir -p "$OUT"; rm -f "$OUT"/*.log
cd "$REPO" || exit 2
PYTHONPATH=$REPO/src /venv/bin/python -c "import scenic.syntax.parser" >/dev/null 2>&1  # build the parser once, before the shards race to build it
find tests -name 'test_*.py' | sort > "$OUT/files.txt"
export REPO OUT
cat "$OUT/files.txt" | xargs -P "$JOBS" -I{} bash -c 'f={}; n=$(echo $f | tr "/" "_"); PYTHONPATH=$REPO/src /venv/bin/python -m pytest -ra -q -p no:cacheprovider --timeout=900 "$f" > "$OUT/$n.log" 2>&1; echo "$f rc=$?" >> "$OUT/rc.txt"'
grep -h "^FAILED\|^ERROR" "$OUT"/*.log | sort > "$OUT/failed.txt"
echo "files: $(wc -l < $OUT/files.txt)  failing entries: $(wc -l < $OUT/failed.txt)"
