"""Shared machinery of every property check (see DESIGN.md section 2.1).

A property module (tools/props/cxx.py) defines run(ctx) and replay(ctx, path) and uses:

  ctx.gen(name, text)                 write lean/ScenicModel/Gen/<name>.lean (only if changed)
  ctx.gen_restore(name)               on TemplateMismatch: put back the committed Gen/<name>.lean (never use a stale one)
  ctx.prove(theorems, gen_side=[..])  lake build ScenicModel.Props.<id> + axiom audit
  ctx.driver(lines)                   run the compiled Lean model driver on a list of lines
  ctx.fingerprint({name: (file, qualname)})   source fingerprints -> escalation
  ctx.case(obj, nontrivial=True)      count one explored case (hash-deduplicated)
  ctx.hist(name, bucket)              input-distribution histogram
  ctx.broken(kind, name, detail)      a proof obligation / correspondence no longer checks
  ctx.violation(key, what, replay)    a concrete failing input on the real code
  ctx.finish()                        known-finding matching, evidence file, exit code
"""
import ast
import collections
import fcntl
import hashlib
import json
import os
import random
import re
import subprocess
import sys
import tempfile
import time

ROOT = os.environ.get("VERIF_ROOT") or os.path.dirname(os.path.dirname(os.path.dirname(os.path.abspath(__file__))))
REPO = os.environ.get("SCENIC_REPO", "/repo")
LEAN = os.path.join(ROOT, "lean")
STD_AXIOMS = {"propext", "Classical.choice", "Quot.sound"}
FORBIDDEN = re.compile(
    r"\bsorry\b|\badmit\b|^\s*axiom\s|native_decide|bv_decide|implemented_by|\bunsafe\s|maxHeartbeats\s+0\b",
    re.M,
)


class Infra(Exception):
    """A problem of the checking machinery itself (exit 2, never a violation)."""


class TemplateMismatch(Exception):
    """The translator's template no longer matches the shape of the source."""


def strip_lean_comments(text):
    out, i, depth, n = [], 0, 0, len(text)
    while i < n:
        if text.startswith("/-", i):
            depth += 1
            i += 2
        elif depth and text.startswith("-/", i):
            depth -= 1
            i += 2
        elif depth:
            if text[i] == "\n":
                out.append("\n")
            i += 1
        elif text.startswith("--", i):
            while i < n and text[i] != "\n":
                i += 1
        elif text[i] == '"':
            j = i + 1
            while j < n and text[j] != '"':
                j += 2 if text[j] == "\\" else 1
            out.append('""')
            i = j + 1
        else:
            out.append(text[i])
            i += 1
    return "".join(out)


class ProofResult:
    def __init__(self):
        self.ok = True
        self.build_ok = True
        self.build_log = ""
        self.axioms = {}
        self.failed = []  # names of obligations that no longer check
        self.obligations = 0
        self.discharged = 0

    def __bool__(self):
        return self.ok


class Ctx:
    def __init__(self, prop, tier, seed):
        self.prop = prop
        self.tier = tier
        self.seed = seed
        self.rng = random.Random((seed, prop).__repr__())
        self.t0 = time.time()
        self.level = "proof"
        self.evaluations = 0
        self._cases = set()
        self._nontrivial = set()
        self.samples = []
        self.hists = collections.defaultdict(collections.Counter)
        self.violations = []  # (key, what, replay_path, no_input)
        self.known_hits = []
        self.brokens = []  # (kind, name, detail)
        self.notes = []
        self.assumptions = []
        self.trusted_base = [
            "Lean 4.33.0 kernel",
            "axioms allowed in property theorems: propext, Classical.choice, Quot.sound (audited by #print axioms on every run)",
        ]
        self.extra = {}
        self.rule = ""
        self.proof = None
        self.escalated = []
        self.checker_cmd = f"cd lean && lake build ScenicModel.Props.{prop} && lake env lean <generated #print axioms audit>"
        self.replay_dir = os.path.join(ROOT, "replays", prop)
        self.tmp = tempfile.mkdtemp(prefix=f"verif-{prop}-")
        self.repo = REPO
        self.root = ROOT

    # ------------------------------------------------------------------ budgets
    def budget(self, quick, thorough):
        """Tier budget; a changed source fingerprint escalates quick to the thorough budget."""
        if self.tier == "thorough" or self.escalated:
            return thorough
        return quick

    def elapsed(self):
        return time.time() - self.t0

    # ------------------------------------------------------------------ Lean side
    def _lock(self):
        os.makedirs(os.path.join(LEAN, ".lake"), exist_ok=True)
        # one lock per property: checks of different properties build different modules and may run concurrently
        f = open(os.path.join(LEAN, ".lake", f"verif-{self.prop}.lock"), "w")
        fcntl.flock(f, fcntl.LOCK_EX)
        return f

    def gen(self, name, text):
        """(Re)generate lean/ScenicModel/Gen/<name>.lean from /repo-derived data."""
        path = os.path.join(LEAN, "ScenicModel", "Gen", name + ".lean")
        header = (
            "-- GENERATED from /repo by tools (never hand-edited); regenerated on every check run.\n"
        )
        text = header + text.rstrip() + "\n"
        lock = self._lock()
        try:
            old = None
            if os.path.exists(path):
                with open(path) as f:
                    old = f.read()
            if old != text:
                with open(path, "w") as f:
                    f.write(text)
                return True
            return False
        finally:
            lock.close()

    def gen_restore(self, name):
        """The translator could not extract data from the current source (template mismatch): put back the
        committed Gen/<name>.lean (data of the pinned source) so that a stale file from an earlier run is never
        used; the tie to the current source then rests on the correspondence check (escalated budget)."""
        rel = f"lean/ScenicModel/Gen/{name}.lean"
        p = subprocess.run(["git", "-C", ROOT, "show", f"HEAD:{rel}"], capture_output=True, text=True)
        if p.returncode == 0:
            lock = self._lock()
            try:
                path = os.path.join(ROOT, rel)
                if not os.path.exists(path) or open(path).read() != p.stdout:
                    with open(path, "w") as f:
                        f.write(p.stdout)
            finally:
                lock.close()
            return True
        return False

    def lake(self, args, timeout=3000):
        lock = self._lock()
        try:
            p = subprocess.run(["lake"] + args, cwd=LEAN, capture_output=True, text=True, timeout=timeout)
            return p.returncode, p.stdout + p.stderr
        except subprocess.TimeoutExpired:
            raise Infra(f"lake {' '.join(args)} timed out")
        finally:
            lock.close()

    def import_closure(self, roots):
        """Lean source files reachable from the given modules through `import ScenicModel.*` / `import Driver.*`."""
        seen, todo = {}, list(roots)
        while todo:
            m = todo.pop()
            if m in seen:
                continue
            path = os.path.join(LEAN, *m.split(".")) + ".lean"
            if not os.path.exists(path):
                continue
            txt = open(path).read()
            seen[m] = (path, txt)
            for im in re.findall(r"^\s*(?:public\s+)?import\s+((?:ScenicModel|Driver)[\w.]*)", txt, re.M):
                todo.append(im)
        return seen

    def grep_audit(self, roots=None):
        """No sorry/admit/axiom/native_decide/... in any file the property's theorems or driver depend on."""
        roots = roots or [f"ScenicModel.Props.{self.prop}", f"Driver.{self.prop}"]
        bad = []
        for m, (path, txt) in self.import_closure(roots).items():
            mm = FORBIDDEN.search(strip_lean_comments(txt))
            if mm:
                bad.append((os.path.relpath(path, LEAN), mm.group(0).strip()))
        return bad

    def prove(self, theorems, module=None, side_conditions=(), extra_targets=None):
        """Build the property's theorem module and audit the axioms of each named theorem.

        theorems: fully qualified names of the property theorems (one obligation each);
        side_conditions: fully qualified names of theorems about GENERATED data (one each).
        """
        module = module or f"ScenicModel.Props.{self.prop}"
        res = ProofResult()
        names = list(theorems) + list(side_conditions)
        res.obligations = len(names)
        if extra_targets is None:
            extra_targets = (f"drv_{self.prop.lower()}",)
        rc, log = self.lake(["build", module] + list(extra_targets))
        res.build_log = log
        if rc != 0:
            res.ok = False
            res.build_ok = False
            # find which declarations failed (lake prints file:line:col: error ...)
            errs = re.findall(r"error: (.*?\.lean):(\d+):(\d+): (.*)", log)
            res.failed = [f"{os.path.relpath(f, LEAN) if os.path.isabs(f) else f}:{l}: {m[:200]}" for f, l, c, m in errs] or ["lake build failed"]
            self.proof = res
            for f in res.failed:
                self.broken("proof", module, f)
            return res
        bad = self.grep_audit([module, f"Driver.{self.prop}"])
        if bad:
            res.ok = False
            res.failed += [f"forbidden token {tok!r} in {p}" for p, tok in bad]
        # axiom audit
        audit = os.path.join(self.tmp, "Audit.lean")
        with open(audit, "w") as f:
            f.write(f"import {module}\n")
            for n in names:
                f.write(f"#print axioms {n}\n")
        lock = self._lock()
        try:
            p = subprocess.run(["lake", "env", "lean", audit], cwd=LEAN, capture_output=True, text=True, timeout=1200)
        finally:
            lock.close()
        out = p.stdout + p.stderr
        flat = re.sub(r"\s+", " ", out)
        for n in names:
            m = re.search(r"'" + re.escape(n) + r"' (does not depend on any axioms|depends on axioms: \[([^\]]*)\])", flat)
            if not m:
                res.ok = False
                res.failed.append(f"theorem {n} missing or not checkable")
                continue
            axs = [a.strip() for a in (m.group(2) or "").split(",") if a.strip()]
            res.axioms[n] = axs
            extra = [a for a in axs if a not in STD_AXIOMS]
            if extra:
                res.ok = False
                res.failed.append(f"theorem {n} depends on non-standard axioms {extra}")
            else:
                res.discharged += 1
        if p.returncode != 0 and res.ok:
            res.ok = False
            res.failed.append("axiom audit failed: " + out[-400:])
        self.proof = res
        for f in res.failed:
            self.broken("proof", module, f)
        return res

    def leanchecker(self, modules):
        lock = self._lock()
        try:
            p = subprocess.run(["lake", "env", "leanchecker"] + list(modules), cwd=LEAN, capture_output=True, text=True, timeout=3000)
        finally:
            lock.close()
        ok = p.returncode == 0
        self.extra["leanchecker"] = {"modules": list(modules), "ok": ok}
        if not ok:
            self.broken("proof", "leanchecker", (p.stdout + p.stderr)[-400:])
        return ok

    def driver(self, lines, timeout=1200):
        """Feed lines to the compiled Lean driver; returns its output lines (one per input line)."""
        exe = os.path.join(LEAN, ".lake", "build", "bin", f"drv_{self.prop.lower()}")
        if not os.path.exists(exe):
            rc, log = self.lake(["build", f"drv_{self.prop.lower()}"])
            if rc != 0:
                raise Infra("cannot build Lean driver:\n" + log[-2000:])
        data = "\n".join(lines) + "\n"
        try:
            p = subprocess.run([exe], input=data, capture_output=True, text=True, timeout=timeout)
        except subprocess.TimeoutExpired:
            raise Infra("Lean driver timed out")
        if p.returncode != 0:
            raise Infra(f"Lean driver failed rc={p.returncode}: {p.stderr[-1000:]}")
        out = p.stdout.split("\n")
        if out and out[-1] == "":
            out.pop()
        if len(out) != len(lines):
            raise Infra(f"Lean driver returned {len(out)} lines for {len(lines)} inputs")
        return out

    # ------------------------------------------------------------------ source fingerprints
    def fingerprint(self, items):
        """items: {label: (path relative to repo, qualified name 'Class.method' or 'func' or None for the whole file)}.
        Compares the hash of the normalised AST with fingerprints/<prop>.json; returns changed labels."""
        store = os.path.join(ROOT, "fingerprints", f"{self.prop}.json")
        old = {}
        if os.path.exists(store):
            old = json.load(open(store))
        cur, changed = {}, []
        cache = {}
        for label, (rel, qual) in items.items():
            p = os.path.join(REPO, rel)
            try:
                if p not in cache:
                    src = open(p).read()
                    cache[p] = (src, ast.parse(src) if p.endswith(".py") else None)
                src, tree = cache[p]
                if tree is None or qual is None:
                    h = hashlib.sha256(src.encode()).hexdigest()[:16]
                else:
                    node = find_def(tree, qual)
                    h = hashlib.sha256(ast.dump(node).encode()).hexdigest()[:16] if node is not None else "missing"
            except (OSError, SyntaxError) as e:
                h = f"unreadable:{type(e).__name__}"
            cur[label] = h
            if label in old and old[label] != h:
                changed.append(label)
        self.extra["fingerprints"] = {"changed": changed, "n": len(cur)}
        if changed:
            self.escalated.append("source fingerprint changed: " + ", ".join(changed))
        if os.environ.get("VERIF_UPDATE_FINGERPRINTS") == "1":
            os.makedirs(os.path.dirname(store), exist_ok=True)
            json.dump(cur, open(store, "w"), indent=1, sort_keys=True)
        return changed

    # ------------------------------------------------------------------ bookkeeping
    def case(self, obj, nontrivial=True, sample=False):
        self.evaluations += 1
        h = hashlib.blake2b(repr(obj).encode(), digest_size=8).digest()
        new = h not in self._cases
        self._cases.add(h)
        if nontrivial:
            self._nontrivial.add(h)
        if (sample or (new and len(self.samples) < 6)) and len(self.samples) < 12:
            s = obj if isinstance(obj, (str, int, float, list, dict)) else repr(obj)
            if len(json.dumps(s, default=str)) < 1500:
                self.samples.append(s)
        return new

    def hist(self, name, bucket, n=1):
        self.hists[name][str(bucket)] += n

    def broken(self, kind, name, detail=""):
        """kind: 'proof' | 'correspondence' | 'translator'."""
        self.brokens.append((kind, name, str(detail)[:2000]))

    def write_replay(self, name, obj):
        os.makedirs(self.replay_dir, exist_ok=True)
        path = os.path.join(self.replay_dir, name + ".json")
        with open(path, "w") as f:
            json.dump(obj, f, indent=1, default=str, sort_keys=True)
        return path

    def violation(self, key, what, replay, no_input=False):
        """Report a failing input (replay: JSON-able dict reproducing it on the real code).
        key: stable identity of the failing input / call site, matched against KNOWN_FINDINGS.json."""
        known = load_findings().get(self.prop, {})
        if key in known and not no_input:
            if key not in [k for k, _ in self.known_hits]:
                self.known_hits.append((key, known[key]))
            return False
        if any(v[0] == key for v in self.violations):
            return True
        body = {"property": self.prop, "key": key, "what": what, "replay": replay,
                "how_to_replay": f"./check {self.prop} --replay <this file>"}
        if no_input:
            body["no_failing_input_found"] = True
        path = self.write_replay(re.sub(r"[^A-Za-z0-9_.-]+", "_", key)[:80], body)
        self.violations.append((key, what, path, no_input))
        return True

    def resolve_brokens(self, found_input):
        """Call after the failing-input search: if obligations/correspondences broke and the search found
        no concrete failing input, report the violation naming what no longer checks."""
        if self.brokens and not found_input and not any(not v[3] for v in self.violations):
            names = sorted({f"{k}:{n}" for k, n, _ in self.brokens})
            self.violation(
                "broken:" + ";".join(names)[:60],
                "no longer shown to hold: " + "; ".join(f"{k} {n}: {d[:300]}" for k, n, d in self.brokens[:5]),
                {"broken": [{"kind": k, "name": n, "detail": d} for k, n, d in self.brokens]},
                no_input=True,
            )

    # ------------------------------------------------------------------ finish
    def finish(self):
        if self.brokens and not self.violations:
            self.resolve_brokens(False)
        wall = time.time() - self.t0
        cov = {
            "evaluations": self.evaluations,
            "distinct_cases": len(self._cases),
            "distinct_nontrivial": len(self._nontrivial),
            "rule": self.rule,
            "samples": self.samples[:12] or ["(none)"],
            "checker_cmd": self.checker_cmd,
            "trusted_base": self.trusted_base,
            "input_distribution": {k: dict(v.most_common(40)) for k, v in self.hists.items()},
            "broken_obligations": [{"kind": k, "name": n, "detail": d[:400]} for k, n, d in self.brokens],
            "escalated": self.escalated,
            "known_findings_reproduced": [k for k, _ in self.known_hits],
        }
        if self.proof is not None:
            cov["obligations"] = self.proof.obligations
            cov["discharged"] = self.proof.discharged
            cov["axioms"] = self.proof.axioms
        # extras never override or mistype the keys the evidence schema reserves
        reserved_int = {"evaluations", "distinct_nontrivial", "states", "transitions", "traces_validated_against_impl",
                        "obligations", "discharged", "programs", "disagreements_checked"}
        reserved_other = {"rule", "samples", "checker_cmd", "trusted_base", "explanation", "exhaustive"}
        for k, v in self.extra.items():
            if (k in reserved_int and not (isinstance(v, int) and not isinstance(v, bool) and v >= 0)) or \
                    (k in reserved_other and k in cov):
                cov[k + "_detail"] = v
            else:
                cov[k] = v
        ev = {
            "property_id": self.prop,
            "tier": self.tier,
            "seed": self.seed,
            "level": self.level,
            "coverage": cov,
            "assumptions": self.assumptions,
            "wall_s": round(wall, 2),
            "violations": len(self.violations),
            "notes": self.notes,
        }
        os.makedirs(os.path.join(ROOT, "evidence"), exist_ok=True)
        with open(os.path.join(ROOT, "evidence", f"{self.prop}.json"), "w") as f:
            json.dump(ev, f, indent=1, default=str)
        for key, what in self.known_hits:
            print(f"KNOWN-FINDING: property={self.prop} {what} [{key}]")
        for key, what, path, no_input in self.violations:
            print(f"  violation detail: {what[:600]}")
            tail = " no-failing-input-found" if no_input else ""
            print(f"VIOLATION property={self.prop} replay={path}{tail}")
        if not self.violations:
            p = self.proof
            print(f"OK property={self.prop} tier={self.tier} seed={self.seed} "
                  f"obligations={p.discharged if p else 0}/{p.obligations if p else 0} "
                  f"evaluations={self.evaluations} distinct_nontrivial={len(self._nontrivial)} wall={wall:.1f}s")
        try:
            import shutil
            shutil.rmtree(self.tmp, ignore_errors=True)
        except Exception:
            pass
        return 1 if self.violations else 0


def find_def(tree, qual):
    parts = qual.split(".")
    node = tree
    for part in parts:
        found = None
        for ch in ast.walk(node) if node is tree else ast.iter_child_nodes(node):
            if isinstance(ch, (ast.FunctionDef, ast.AsyncFunctionDef, ast.ClassDef)) and ch.name == part:
                found = ch
                break
        if found is None:
            return None
        node = found
    return node


_findings_cache = None


def load_findings():
    """KNOWN_FINDINGS.json (+ findings.d/*.json while a property is under construction)
    -> {property: {key: what}} for entries with status 'known'."""
    global _findings_cache
    if _findings_cache is None:
        import glob
        res = collections.defaultdict(dict)
        files = [os.path.join(ROOT, "KNOWN_FINDINGS.json")] + sorted(glob.glob(os.path.join(ROOT, "findings.d", "*.json")))
        for path in files:
            if os.path.exists(path):
                data = json.load(open(path))
                for e in data.get("findings", []):
                    if e.get("status", "known") == "known":
                        res[e["property"]][e["key"]] = e["what"]
        _findings_cache = res
    return _findings_cache
