"""Entry point used by /verif/check:  check.py <Cxx> [--tier quick|thorough] [--replay file]"""
import argparse
import importlib
import os
import sys
import traceback

from vlib.ctx import Ctx, Infra


def main():
    ap = argparse.ArgumentParser()
    ap.add_argument("prop")
    ap.add_argument("--tier", default=os.environ.get("VERIF_TIER") or "quick",
                    choices=["quick", "thorough"])
    ap.add_argument("--replay", default=None)
    args = ap.parse_args()
    prop = args.prop.upper()
    try:
        seed = int(os.environ.get("VERIF_SEED", "0") or 0)
    except ValueError:
        seed = 0
    ctx = Ctx(prop, args.tier, seed)
    try:
        mod = importlib.import_module(f"props.{prop.lower()}")
    except ModuleNotFoundError as e:
        print(f"INFRA: no check module for {prop}: {e}")
        sys.exit(2)
    try:
        if args.replay:
            rc = mod.replay(ctx, args.replay)
            sys.exit(rc if isinstance(rc, int) else 0)
        mod.run(ctx)
        rc = ctx.finish()
    except Infra as e:
        print(f"INFRA: {e}")
        rc = 2
    except Exception:
        traceback.print_exc()
        print("INFRA: unexpected exception in the check itself (not a violation)")
        rc = 2
    sys.stdout.flush()
    sys.exit(rc)


if __name__ == "__main__":
    main()
