"""Entry point used by /verif/check:  check.py <Cxx> [--tier quick|thorough] [--replay file]"""
import argparse
import importlib
import os
import sys
import traceback

from vlib.ctx import Ctx, Infra


def ensure_parser():
    """src/scenic/syntax/parser.py is a git-ignored build product of scenic.gram which Scenic itself only builds when it
    is missing.  Checks must see the CURRENT grammar, so rebuild it (as the repository's Makefile does) whenever it is
    missing or older than the grammar.  Serialised by a lock because several checks may start at once."""
    import fcntl
    import subprocess
    repo = os.environ.get("SCENIC_REPO", "/repo")
    gram = os.path.join(repo, "src/scenic/syntax/scenic.gram")
    parser = os.path.join(repo, "src/scenic/syntax/parser.py")
    if not os.path.exists(gram):
        return
    def stale():
        return (not os.path.exists(parser)) or os.path.getmtime(parser) < os.path.getmtime(gram)
    if not stale():
        return
    lockdir = os.path.join(os.environ.get("VERIF_ROOT", "."), "lean", ".lake")
    os.makedirs(lockdir, exist_ok=True)
    with open(os.path.join(lockdir, "verif-parser.lock"), "w") as lk:
        fcntl.flock(lk, fcntl.LOCK_EX)
        if stale():
            tmp = parser + ".verif-tmp"
            p = subprocess.run([sys.executable, "-m", "pegen", "-q", gram, "-o", tmp], capture_output=True, text=True,
                               cwd=repo, timeout=900)
            if p.returncode != 0 or not os.path.exists(tmp):
                # a grammar pegen cannot compile: leave no parser behind, so that Scenic's own import reports it
                for f in (tmp, parser):
                    if os.path.exists(f):
                        os.remove(f)
                print("NOTE: pegen could not build a parser from the current scenic.gram: " + (p.stdout + p.stderr)[-300:])
            else:
                os.replace(tmp, parser)


def main():
    ap = argparse.ArgumentParser()
    ap.add_argument("prop")
    ap.add_argument("--tier", default=os.environ.get("VERIF_TIER") or "quick",
                    choices=["quick", "thorough"])
    ap.add_argument("--replay", default=None)
    args = ap.parse_args()
    prop = args.prop.upper()
    try:
        seed = int(os.environ.get("VERIF_SEED", "0") or 0)
    except ValueError:
        seed = 0
    try:
        ensure_parser()
    except Exception as e:  # never a violation
        print(f"INFRA: cannot rebuild the Scenic parser from the current grammar: {e}")
        sys.exit(2)
    ctx = Ctx(prop, args.tier, seed)
    try:
        mod = importlib.import_module(f"props.{prop.lower()}")
    except ModuleNotFoundError as e:
        print(f"INFRA: no check module for {prop}: {e}")
        sys.exit(2)
    try:
        if args.replay:
            rc = mod.replay(ctx, args.replay)
            sys.exit(rc if isinstance(rc, int) else 0)
        mod.run(ctx)
        rc = ctx.finish()
    except Infra as e:
        print(f"INFRA: {e}")
        rc = 2
    except Exception:
        traceback.print_exc()
        print("INFRA: unexpected exception in the check itself (not a violation)")
        rc = 2
    sys.stdout.flush()
    sys.exit(rc)


if __name__ == "__main__":
    main()
