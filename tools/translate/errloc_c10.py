"""Error-location layer of the parser generated from scenic.gram  ->  Gen/ErrLocC10.lean  (C10).

Source: the *generated* parser.py (regenerated from the current scenic.gram on every run): `parse_string`, and in
`class Parser`: `_build_syntax_error`, every method that calls `_build_syntax_error` / `raise_raw_syntax_error` with
explicit positions.  Extracted (data of Model/ErrLoc.lean):
  preload          parse_string stores every source line in tokenizer._lines (enumerate(..., start=1))
  fallback         _build_syntax_error catches KeyError and retries with get_lines([start[0]])
  lineOffset       k where the reported line (2nd component of `args`) is `start[0]` (k = 0) or `start[0] + k`
  tokErrLineFirst  the TokenError wrapper unpacks `msg, (A, B) = e.args` and sets `syn.lineno = A`
  helpers          per helper: which line is passed as start / end (start or end of argument 1 / 2, none)
Anything else raises TemplateMismatch."""
import ast

from translate.astutil import TemplateMismatch

CALLEES = ("_build_syntax_error", "raise_raw_syntax_error")


def _mm(msg):
    raise TemplateMismatch("errloc: " + msg)


def _find(tree, cls, name):
    for n in tree.body:
        if cls is None and isinstance(n, ast.FunctionDef) and n.name == name:
            return n
        if cls is not None and isinstance(n, ast.ClassDef) and n.name == cls:
            for m in n.body:
                if isinstance(m, ast.FunctionDef) and m.name == name:
                    return m
    _mm(f"{cls + '.' if cls else ''}{name} not found")


def _is_sub0(e, name):
    return (isinstance(e, ast.Subscript) and isinstance(e.value, ast.Name) and e.value.id == name
            and isinstance(e.slice, ast.Constant) and e.slice.value == 0)


def _parse_string(fn):
    preload = False
    for n in ast.walk(fn):
        if isinstance(n, ast.Call) and isinstance(n.func, ast.Attribute) and n.func.attr == "update" \
                and isinstance(n.func.value, ast.Attribute) and n.func.value.attr == "_lines":
            a = n.args[0] if len(n.args) == 1 else None
            if not (isinstance(a, ast.Call) and isinstance(a.func, ast.Name) and a.func.id == "enumerate"
                    and "readlines" in ast.dump(a) and len(a.keywords) == 1 and a.keywords[0].arg == "start"
                    and isinstance(a.keywords[0].value, ast.Constant)):
                _mm("parse_string: unexpected shape of tokenizer._lines.update(...)")
            if a.keywords[0].value.value != 1:
                _mm(f"parse_string: source lines are stored from index {a.keywords[0].value.value!r}, not 1")
            preload = True
    first = None
    for n in ast.walk(fn):
        if isinstance(n, ast.ExceptHandler) and n.type is not None and "TokenError" in ast.dump(n.type):
            unpack = [s for s in n.body if isinstance(s, ast.Assign) and isinstance(s.targets[0], ast.Tuple)]
            setl = [s for s in n.body if isinstance(s, ast.Assign) and isinstance(s.targets[0], ast.Attribute)
                    and s.targets[0].attr == "lineno"]
            if len(unpack) != 1 or len(setl) != 1 or not isinstance(setl[0].value, ast.Name):
                _mm("parse_string: TokenError handler shape")
            t = unpack[0].targets[0]
            if not (len(t.elts) == 2 and isinstance(t.elts[1], ast.Tuple) and len(t.elts[1].elts) == 2
                    and all(isinstance(x, ast.Name) for x in t.elts[1].elts)):
                _mm("parse_string: TokenError handler unpacking")
            a, b = (x.id for x in t.elts[1].elts)
            if setl[0].value.id not in (a, b):
                _mm("parse_string: syn.lineno is not a component of the TokenError position")
            first = setl[0].value.id == a
    if first is None:
        _mm("parse_string: no handler for tokenize.TokenError")
    return preload, first


def _build(fn):
    fallback = False
    tries = [n for n in ast.walk(fn) if isinstance(n, ast.Try)]
    if len(tries) > 1:
        _mm("_build_syntax_error: more than one try")
    rng = [n for n in ast.walk(fn) if isinstance(n, ast.Call) and isinstance(n.func, ast.Name) and n.func.id == "range"]
    if len(rng) != 1 or len(rng[0].args) != 2 or not _is_sub0(rng[0].args[0], "start") or not (
            isinstance(rng[0].args[1], ast.BinOp) and isinstance(rng[0].args[1].op, ast.Add)
            and _is_sub0(rng[0].args[1].left, "end")):
        _mm("_build_syntax_error: range(start[0], end[0] + 1) not found")
    if tries:
        hs = tries[0].handlers
        if len(hs) != 1 or tries[0].finalbody or tries[0].orelse:
            _mm("_build_syntax_error: try shape")
        if isinstance(hs[0].type, ast.Name) and hs[0].type.id in ("KeyError", "LookupError", "Exception"):
            calls = [c for c in ast.walk(hs[0]) if isinstance(c, ast.Call) and isinstance(c.func, ast.Attribute)
                     and c.func.attr == "get_lines"]
            if len(calls) != 1 or not (isinstance(calls[0].args[0], ast.List) and len(calls[0].args[0].elts) == 1
                                       and _is_sub0(calls[0].args[0].elts[0], "start")):
                _mm("_build_syntax_error: the KeyError fallback does not look up [start[0]]")
            fallback = True
        # a handler for another exception class does not catch KeyError: fallback stays False
    argsa = [n for n in ast.walk(fn) if isinstance(n, ast.Assign) and isinstance(n.targets[0], ast.Name)
             and n.targets[0].id == "args" and isinstance(n.value, ast.Tuple)]
    if len(argsa) != 1 or len(argsa[0].value.elts) < 2:
        _mm("_build_syntax_error: args = (filename, line, ...) not found")
    e = argsa[0].value.elts[1]
    if _is_sub0(e, "start"):
        off = 0
    elif isinstance(e, ast.BinOp) and isinstance(e.op, ast.Add) and _is_sub0(e.left, "start") \
            and isinstance(e.right, ast.Constant) and isinstance(e.right.value, int) and e.right.value >= 0:
        off = e.right.value
    else:
        _mm(f"_build_syntax_error: reported line is {ast.unparse(e)!r}, not start[0] (+k)")
    src = ast.unparse(fn)
    for need in ("start = start or tok.start", "end = end or tok.end", "tok = self._tokenizer.diagnose()",
                 "line_from_token = start is None and end is None"):
        if need not in src:
            _mm(f"_build_syntax_error: statement {need!r} not found")
    return fallback, off


def _classify(e, env, slots, lenient):
    """expression passed as start/end -> (slot, 's'|'e') ; env: local name -> list of assigned expressions"""
    if e is None or (isinstance(e, ast.Constant) and e.value is None):
        return None
    if isinstance(e, ast.IfExp):
        a, b = _classify(e.body, env, slots, lenient), _classify(e.orelse, env, slots, lenient)
        if a != b and not lenient:
            _mm("start position differs between branches")
        return a
    if isinstance(e, ast.Tuple) and e.elts:
        e0 = e.elts[0]
        if isinstance(e0, ast.Attribute) and isinstance(e0.value, ast.Name) and e0.attr in ("lineno", "end_lineno"):
            return (_slot(e0.value.id, slots), "s" if e0.attr == "lineno" else "e")
        _mm(f"position tuple {ast.unparse(e)!r}")
    if isinstance(e, ast.Attribute) and isinstance(e.value, ast.Name) and e.attr in ("start", "end"):
        return (_slot(e.value.id, slots), "s" if e.attr == "start" else "e")
    if isinstance(e, ast.Name) and e.id in env:
        got = [_classify(v, env, slots, lenient) for v in env[e.id]]
        if len(set(got)) != 1 and not lenient:
            _mm(f"start position {e.id!r} is assigned from different kinds of lines: {got}")
        return got[0]
    _mm(f"position expression {ast.unparse(e)!r}")


def _slot(name, slots):
    if name not in slots:
        slots.append(name)
    if len(slots) > 2:
        _mm(f"more than two position sources: {slots}")
    return slots.index(name) + 1


def _helpers(cls):
    out = []
    for fn in cls.body:
        if not isinstance(fn, ast.FunctionDef) or fn.name == "_build_syntax_error":
            continue
        calls = [c for c in ast.walk(fn) if isinstance(c, ast.Call) and isinstance(c.func, ast.Attribute)
                 and isinstance(c.func.value, ast.Name) and c.func.value.id == "self" and c.func.attr in CALLEES]
        if not calls:
            continue
        params = [a.arg for a in fn.args.args]
        env = {}
        for n in ast.walk(fn):
            if isinstance(n, ast.Assign) and len(n.targets) == 1 and isinstance(n.targets[0], ast.Name):
                env.setdefault(n.targets[0].id, []).append(n.value)
        # tokens obtained from the tokenizer are tokens of the history: they are position sources, not expressions
        env = {k: v for k, v in env.items() if not any("_tokenizer" in ast.dump(x) for x in v)}
        for k, c in enumerate(calls):
            if c.keywords or len(c.args) not in (1, 3):
                _mm(f"{fn.name}: call shape of {c.func.attr}")
            if len(c.args) == 3 and all(isinstance(a, ast.Name) and a.id in params and a.id not in env for a in c.args[1:]):
                continue        # pass-through of its own (start, end) parameters (raise_raw_syntax_error)
            slots = []
            s = _classify(c.args[1], env, slots, False) if len(c.args) == 3 else None
            e = _classify(c.args[2], env, slots, True) if len(c.args) == 3 else None
            out.append((fn.name + (f"#{k}" if len(calls) > 1 else ""), s, e))
    if not out:
        _mm("no error helper found in class Parser")
    return out


def extract(parser_path):
    tree = ast.parse(open(parser_path).read())
    preload, first = _parse_string(_find(tree, None, "parse_string"))
    fallback, off = _build(_find(tree, "Parser", "_build_syntax_error"))
    cls = [n for n in tree.body if isinstance(n, ast.ClassDef) and n.name == "Parser"][0]
    return {"preload": preload, "fallback": fallback, "lineOffset": off, "tokErrLineFirst": first,
            "helpers": _helpers(cls)}


def _sel(x):
    return ".none" if x is None else f".a{x[0]}{x[1]}"


def to_lean(d):
    b = lambda v: "true" if v else "false"  # noqa: E731
    hs = ",\n   ".join(f'⟨"{n}", {_sel(s)}, {_sel(e)}⟩' for n, s, e in d["helpers"])
    return f"""import ScenicModel.Model.ErrLoc
/-! GENERATED by tools/translate/errloc_c10.py from the parser generated from /repo's scenic.gram — do not edit -/
namespace Scenic.Gen
open Scenic.ErrLoc

def errLocData : Data :=
  {{ preload := {b(d['preload'])}, fallback := {b(d['fallback'])}, lineOffset := {d['lineOffset']},
    tokErrLineFirst := {b(d['tokErrLineFirst'])},
    helpers := [
   {hs}] }}

end Scenic.Gen
"""
