"""C09 translator: the data of the documented Python-tree rewrites, extracted from
src/scenic/syntax/compiler.py (visit_Name, visit_Call, visit_ClassDef and the module constants they use).

extract() -> dict with
  tracked        ordered list of names that become accessor calls        (trackedNames)
  globalParams   the global-parameters name, also an accessor call       (globalParametersName)
  builtin        names that may be read but never bound                  (builtinNames)
  lifted         [(python name, lifted name)] for calls to str/int/float (visit_Call)
  wrapStar, callStar   names of the star-argument wrappers               (visit_Call)
  starOnlyOutsideBehavior  the wrapping is skipped inside behaviors      (visit_Call)
  defaultBase    base class given to a class without bases               (visit_ClassDef)
  propTable      name of the property table inserted in every class      (visit_ClassDef)
  annAssignRejected  annotated assignments in class bodies are refused   (visit_ClassDef)
Everything is matched by shape; an unexpected shape raises TemplateMismatch (never a guess).
"""
import ast

from translate.astutil import expect, get_def, is_name, load
from vlib.ctx import TemplateMismatch

REL = "src/scenic/syntax/compiler.py"


def _str_const(node, env=None):
    if isinstance(node, ast.Constant) and isinstance(node.value, str):
        return node.value
    if env is not None and isinstance(node, ast.Name) and node.id in env:
        return env[node.id]
    raise TemplateMismatch(f"expected string literal, got {ast.dump(node)[:80]}")


def _module_consts(tree):
    env, sets = {}, {}
    for st in tree.body:
        if isinstance(st, ast.Assign) and len(st.targets) == 1 and isinstance(st.targets[0], ast.Name):
            name = st.targets[0].id
            if isinstance(st.value, ast.Constant) and isinstance(st.value.value, str):
                env[name] = st.value.value
            elif isinstance(st.value, ast.Set) and name in ("trackedNames", "builtinNames"):
                # a set literal has no order: sorted, so that reordering its elements changes nothing downstream
                sets[name] = sorted(_str_const(e, env) for e in st.value.elts)
    for need in ("trackedNames", "builtinNames"):
        expect(need in sets, f"module constant {need} not found as a set literal in {REL}")
    expect("globalParametersName" in env, "globalParametersName not found")
    return env, sets


def _accessor_call_shape(node, var):
    """ast.copy_location(ast.Call(ast.Name(<var>.id, loadCtx), [], []), <var>)"""
    ok = (isinstance(node, ast.Call) and isinstance(node.func, ast.Attribute) and node.func.attr == "copy_location"
          and len(node.args) == 2 and is_name(node.args[1], var))
    if ok:
        c = node.args[0]
        ok = (isinstance(c, ast.Call) and isinstance(c.func, ast.Attribute) and c.func.attr == "Call" and len(c.args) == 3
              and isinstance(c.args[1], ast.List) and not c.args[1].elts and isinstance(c.args[2], ast.List) and not c.args[2].elts)
        if ok:
            nm = c.args[0]
            ok = (isinstance(nm, ast.Call) and isinstance(nm.func, ast.Attribute) and nm.func.attr == "Name"
                  and isinstance(nm.args[0], ast.Attribute) and nm.args[0].attr == "id" and is_name(nm.args[0].value, var))
    return ok


def _is_member_test(test, var, coll):
    return (isinstance(test, ast.Compare) and len(test.ops) == 1 and isinstance(test.ops[0], ast.In)
            and isinstance(test.left, ast.Attribute) and test.left.attr == "id" and is_name(test.left.value, var)
            and is_name(test.comparators[0], coll))


def _raises_unless_load(stmts, var):
    """first statement: if not isinstance(<var>.ctx, ast.Load): raise ..."""
    if not stmts or not isinstance(stmts[0], ast.If):
        return False
    t = stmts[0].test
    if not (isinstance(t, ast.UnaryOp) and isinstance(t.op, ast.Not) and isinstance(t.operand, ast.Call)
            and is_name(t.operand.func, "isinstance")):
        return False
    a = t.operand.args
    if not (len(a) == 2 and isinstance(a[0], ast.Attribute) and a[0].attr == "ctx" and is_name(a[0].value, var)
            and isinstance(a[1], ast.Attribute) and a[1].attr == "Load"):
        return False
    return len(stmts[0].body) == 1 and isinstance(stmts[0].body[0], ast.Raise) and not stmts[0].orelse


def _visit_name(cls, env):
    fn = get_def(cls, "visit_Name", REL)
    var = fn.args.args[1].arg
    body = [s for s in fn.body if not (isinstance(s, ast.Expr) and isinstance(s.value, ast.Constant))]
    expect(len(body) == 2 and isinstance(body[0], ast.If) and isinstance(body[1], ast.Return) and is_name(body[1].value, var),
           "visit_Name: expected `if ...: ... elif ...; return node`")
    top = body[0]
    expect(_is_member_test(top.test, var, "builtinNames"), "visit_Name: first branch is not `node.id in builtinNames`")
    expect(_raises_unless_load(top.body, var), "visit_Name: builtin names are not refused outside Load context")
    rest = top.body[1:]
    expect(len(rest) == 1 and isinstance(rest[0], ast.If) and not rest[0].orelse, "visit_Name: builtin branch shape")
    g = rest[0]
    expect(isinstance(g.test, ast.Compare) and isinstance(g.test.ops[0], ast.Eq) and isinstance(g.test.left, ast.Attribute)
           and g.test.left.attr == "id" and is_name(g.test.comparators[0], "globalParametersName"),
           "visit_Name: expected `node.id == globalParametersName`")
    expect(len(g.body) == 1 and isinstance(g.body[0], ast.Assign) and is_name(g.body[0].targets[0], var)
           and _accessor_call_shape(g.body[0].value, var), "visit_Name: global parameters are not turned into `name()`")
    expect(len(top.orelse) == 1 and isinstance(top.orelse[0], ast.If), "visit_Name: missing trackedNames branch")
    tr = top.orelse[0]
    expect(_is_member_test(tr.test, var, "trackedNames"), "visit_Name: second branch is not `node.id in trackedNames`")
    expect(_raises_unless_load(tr.body, var), "visit_Name: tracked names are not refused outside Load context")
    expect(len(tr.body) == 2 and isinstance(tr.body[1], ast.Assign) and is_name(tr.body[1].targets[0], var)
           and _accessor_call_shape(tr.body[1].value, var), "visit_Name: tracked names are not turned into `name()`")
    # a third branch (behaviorLocals) is only active inside behaviors
    if tr.orelse:
        expect(len(tr.orelse) == 1 and isinstance(tr.orelse[0], ast.If) and not tr.orelse[0].orelse
               and "behaviorLocals" in ast.dump(tr.orelse[0].test), "visit_Name: unexpected extra branch")


def _visit_call(cls):
    fn = get_def(cls, "visit_Call", REL)
    dump = ast.dump(fn)
    lifted = []
    for node in ast.walk(fn):
        if isinstance(node, ast.If) and isinstance(node.test, ast.Compare) and len(node.test.ops) == 1 \
                and isinstance(node.test.ops[0], ast.Eq) and isinstance(node.test.left, ast.Attribute) \
                and node.test.left.attr == "id" and isinstance(node.test.comparators[0], ast.Constant):
            expect(len(node.body) == 1 and isinstance(node.body[0], ast.Assign)
                   and isinstance(node.body[0].targets[0], ast.Attribute) and node.body[0].targets[0].attr == "id"
                   and ast.dump(node.body[0].targets[0].value) == ast.dump(node.test.left.value),
                   "visit_Call: a name comparison that is not followed by a renaming")
            lifted.append((_str_const(node.test.comparators[0]), _str_const(node.body[0].value)))
    expect(lifted, "visit_Call: no lifted conversions found")
    expect(len({a for a, _ in lifted}) == len(lifted), "visit_Call: duplicate lifted name")
    # the renaming is guarded by isinstance(newFunc, ast.Name) where newFunc = self.visit(node.func)
    expect("isinstance" in dump and "attr='Name'" in dump, "visit_Call: renaming not guarded by isinstance(_, ast.Name)")
    names = [n.args[0].value for n in ast.walk(fn)
             if isinstance(n, ast.Call) and isinstance(n.func, ast.Attribute) and n.func.attr == "Name" and n.args
             and isinstance(n.args[0], ast.Constant) and isinstance(n.args[0].value, str)]
    expect(len(names) == 2, f"visit_Call: expected exactly two wrapper names, found {names}")
    # which one wraps the value (inside Starred) and which one is the outer call: the outer call takes [newFunc] + newArgs
    outer = None
    for n in ast.walk(fn):
        if isinstance(n, ast.Call) and isinstance(n.func, ast.Attribute) and n.func.attr == "Call" and len(n.args) == 3 \
                and isinstance(n.args[1], ast.BinOp) and isinstance(n.args[1].op, ast.Add):
            f = n.args[0]
            if isinstance(f, ast.Call) and f.args and isinstance(f.args[0], ast.Constant):
                outer = f.args[0].value
    expect(outer in names, "visit_Call: outer star-call wrapper not found")
    inner = [n for n in names if n != outer][0]
    # the wrapped value is followed by the line number constant of the starred value
    expect("attr='lineno'" in dump, "visit_Call: wrapped star value no longer carries its line number")
    # loop: `if isinstance(arg, ast.Starred) and not self.inBehavior`
    star_guard = None
    for n in ast.walk(fn):
        if isinstance(n, ast.If) and "Starred" in ast.dump(n.test):
            star_guard = n.test
    expect(star_guard is not None, "visit_Call: star-argument test not found")
    only_outside = isinstance(star_guard, ast.BoolOp) and "inBehavior" in ast.dump(star_guard)
    expect("copy_location" in dump, "visit_Call: result no longer takes the location of the original call")
    # the branches of the renaming chain test distinct names (checked above), so their order is immaterial: sorted
    return sorted(lifted), inner, outer, only_outside


def _visit_classdef(cls):
    fn = get_def(cls, "visit_ClassDef", REL)
    base = table = None
    ann = False
    for n in ast.walk(fn):
        if isinstance(n, ast.If) and isinstance(n.test, ast.UnaryOp) and isinstance(n.test.op, ast.Not) \
                and isinstance(n.test.operand, ast.Attribute) and n.test.operand.attr == "bases":
            a = n.body[0]
            expect(isinstance(a, ast.Assign) and isinstance(a.value, ast.List) and len(a.value.elts) == 1,
                   "visit_ClassDef: default base assignment shape")
            c = a.value.elts[0]
            expect(isinstance(c, ast.Call) and c.args and isinstance(c.args[0], ast.Constant), "visit_ClassDef: default base")
            base = c.args[0].value
        if isinstance(n, ast.keyword) and n.arg == "id" and isinstance(n.value, ast.Constant) and isinstance(n.value.value, str):
            table = n.value.value
        if isinstance(n, ast.If) and "AnnAssign" in ast.dump(n.test) and any(isinstance(b, ast.Raise) for b in n.body):
            ann = True
    expect(base is not None, "visit_ClassDef: `if not node.bases` not found")
    expect(table is not None, "visit_ClassDef: property table name not found")
    d = ast.dump(fn)
    expect("generic_visit" in d, "visit_ClassDef: children are no longer visited")
    return base, table, ann


def extract():
    src, tree = load(REL)
    env, sets = _module_consts(tree)
    cls = get_def(tree, "ScenicToPythonTransformer", REL)
    _visit_name(cls, env)
    lifted, inner, outer, only_outside = _visit_call(cls)
    base, table, ann = _visit_classdef(cls)
    return {
        "tracked": sets["trackedNames"],
        "globalParams": env["globalParametersName"],
        "builtin": sets["builtinNames"],
        "lifted": lifted,
        "wrapStar": inner,
        "callStar": outer,
        "starOnlyOutsideBehavior": only_outside,
        "defaultBase": base,
        "propTable": table,
        "annAssignRejected": ann,
    }


# the DOCUMENTED constants (docs: ego/workspace/globalParameters accessors; str/int/float lifted to _toStrScenic/_toIntScenic/
# _toFloatScenic of scenic.syntax.veneer; star arguments through callWithStarArgs/wrapStarredValue; Object; _scenic_properties).
# The direct oracle of C09 expects exactly these; the side condition gen_cfg_documented pins the extracted data to them.
DEFAULT = {
    "tracked": ["ego", "workspace"], "globalParams": "globalParameters",
    "builtin": ["float", "globalParameters", "int", "str"],
    "lifted": [("float", "_toFloatScenic"), ("int", "_toIntScenic"), ("str", "_toStrScenic")],
    "wrapStar": "wrapStarredValue", "callStar": "callWithStarArgs", "starOnlyOutsideBehavior": True,
    "defaultBase": "Object", "propTable": "_scenic_properties", "annAssignRejected": True,
}


def _s(x):
    return '"' + x.replace("\\", "\\\\").replace('"', '\\"') + '"'


def to_lean(d):
    pairs = ", ".join(f"({_s(a)}, {_s(b)})" for a, b in d["lifted"])
    return f"""import ScenicModel.Model.Rewrites
/-! Data of the documented rewrites, extracted from src/scenic/syntax/compiler.py
    (trackedNames, globalParametersName, builtinNames, visit_Name, visit_Call, visit_ClassDef). -/
namespace Scenic.Gen.RewriteData
open Scenic.Rewrites

def cfg : Cfg where
  tracked := [{", ".join(_s(x) for x in d["tracked"])}]
  globalParams := {_s(d["globalParams"])}
  builtin := [{", ".join(_s(x) for x in d["builtin"])}]
  lifted := [{pairs}]
  wrapStar := {_s(d["wrapStar"])}
  callStar := {_s(d["callStar"])}
  defaultBase := {_s(d["defaultBase"])}
  propTable := {_s(d["propTable"])}
  annAssignRejected := {"true" if d["annAssignRejected"] else "false"}

end Scenic.Gen.RewriteData
"""
